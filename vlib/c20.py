"""C20 — dynamics processors never amplify, follow their static curves, and settle.

Spec: Dynamics.tla (static gain of compressor / limiter as exact fractions in milli-dB on a centi-dB level grid,
gate state machine and the statement-level gate clauses, 10-90 % rise rule).  MC_Dynamics: the documented curve is
continuous at both knee edges, monotone and never amplifies for R in {1,2,3,5,10,50}, W in {0,1,5,20} on a 0.01 dB
grid; the gate machine satisfies the clauses for every input pattern up to length 9 and holds 0,1,3.
Conformance (Trace_Dynamics): static curves with zero time constants (0.01 dB grid at both knee edges), gain range
/ limiter ceiling / out = in*gain over wild signals of 1e5 samples, gate patterns under random framing, attack and
release 10-90 % times, AGC steady state and max_gain."""
from . import simple


def check(run, tier, seed, replay=None, only=None):
    quick = tier == "quick"
    run.extra["rule"] = ("static: random T in -50..0, R in 1..50, W in 0..20, ~450 levels per configuration; range: random "
                         "parameters incl. attack/release 0..4 s, fs 8k..192k, bursts/steps/silence; gate: random above/below "
                         "patterns, holds 0..6; step: 6 sample rates x t in 1..200 ms x attack/release x 3 processors; agc: targets "
                         "0.01..100, levels over 80 dB, averaging 1..1000, 3 constant-envelope signals; distinct = event records")
    run.trusted = ["TLC", "spec/Dynamics.tla", "driver quantisation of gains to milli-dB", "10^(x/20) amplitude generation"]
    k = 1 if quick else 6
    stages = []
    for s in range(2 * k):
        stages.append(("static-%d" % s, ["--mode", "static", "--budget", 50, "--seed", seed * 100 + s]))
        stages.append(("gate-%d" % s, ["--mode", "gate", "--budget", 300, "--seed", seed * 100 + 20 + s]))
    for s in range(2 * k):
        stages.append(("range-%d" % s, ["--mode", "range", "--budget", 10 if quick else 30, "--n", 100000, "--seed", seed * 100 + 40 + s]))
        stages.append(("step-%d" % s, ["--mode", "step", "--budget", 80 if quick else 200, "--seed", seed * 100 + 60 + s]))
        stages.append(("agc-%d" % s, ["--mode", "agc", "--budget", 24 if quick else 60, "--seed", seed * 100 + 80 + s]))
    n = simple.run_check(run, tier, seed, replay, "dyn_drv", "Trace_Dynamics.tla",
                         [("MC_Dynamics.tla", "MC_Dynamics.cfg", "MC_Dynamics (curve continuity / monotonicity / no amplification; gate clauses)")],
                         stages)
    run.clause("gain in [0,1]; limiter ceiling; gate open/closed clauses; AGC <= max_gain", "T1", n or 0)
    run.clause("static curves within 2 mdB of the exact rational curve; 10-90 % rise = fs*t +-2 %; AGC within 1 %", "T2", n or 0)
    run.exhaustive = False
