"""Source of MANIFEST.json (bin/mkmanifest writes and validates it)."""

HOOK_COMMITS = ["ab3948d verif hook (guarded by DSPLIB_VERIF): plan-cache key accessors and access observer",
                "f21e9f7 verif hook (guarded by DSPLIB_VERIF): thread-local trial-division counter in the prime helpers",
                "905a836 verif hook (guarded by DSPLIB_VERIF): cooperative yield points (factor-FFT scratch, generator calls, plan-cache lookup)"]

CLAIMED = {
    "C04": dict(
        text="TLC proves on the whole quantified domain (39 809 quadruples) that the library's index rule equals "
             "Python's on the accepted set, stays in range, survives copying, and that same-array assignment is "
             "copy-first for every aliasing pattern (n<=6); every one of those requests, every same-array pair "
             "(n<=8 thorough) and random stateful assignment sequences are executed on the real arrays (rel build "
             "with guard words, ASan+UBSan build with exact capacity) and each observation is validated by TLC "
             "against Slice.tla (Trace_Slice). Exhaustive in small scope, sampled for n up to 1e5.",
        note="Trusted: TLC, the Python-slice transcription PyIdx in Slice.tla, the driver's tag encoding and JSON "
             "bridge. Assigning an empty array to an empty slice is deliberately left free (DESIGN 6).",
        technique="TLA+ spec (Slice.tla) + TLC theorems/MC; exhaustive trace validation of the real slices",
        design="4/C04"),
}

CLAIMED.update({
    "C10": dict(
        text="TLC checks the universal LRU model (any thread, any key, caps 1/2/4): <= Cap keys, no duplicates, exactly the most "
             "recently used ones in recency order, the list+map implementation refines it, accesses are confined to the "
             "caller's cache. The real library runs every request sequence up to length 4 (quick) / 6 (thorough) over 6-length "
             "alphabets for the complex and the real family, each in a fresh thread, plus random histories over 40 lengths with "
             "long-lived plan objects (and the same transforms on subnormal-range data), in builds with cache size 4 and 1 (and 2 thorough); the hook reports each cache access with the "
             "key list after it and TLC steps the model with the observed accesses, checking key lists, capacity, ownership "
             "and that every result equals the fresh-thread result bit for bit.",
        note="Trusted: TLC, PlanCache.tla, the DSPLIB_VERIF hook in lib/fft/fft.cpp (reports keys after each access), the "
             "fresh-thread reference computed by the same library (metamorphic, bit identity). Which lengths a call routes through "
             "the cache is read from the trace, not predicted.",
        technique="TLA+ LRU spec + TLC MC; trace validation of hook events from exhaustive request histories",
        design="4/C10"),
    "C06": dict(
        text="TLC checks that each implementation-shaped processor (FIR history, overlap-add, moving-average ring, median "
             "sorted window, polyphase decimator/interpolator/rate converter) equals its definition under all framings of K "
             "granules and all impulse inputs (linearity => all inputs). The real processors run all 2^(k-1) framings (k=8 "
             "quick, 11-12 thorough) in exact mode (integer data; TLC recomputes every output sample from the definition over "
             "the whole input so far) and in prefix mode (all 27 processor variants incl. Hilbert, Tuner, AGC, compressor, "
             "limiter, gate, LMS/NLMS/RLS; compared with the one-call output of a separately constructed instance), twin "
             "instances with identical parameters interleaved, and long random heavy-tailed framings with 2-4 interleaved "
             "instances; TLC validates counts, rejection of non-multiples, and first-difference = none.",
        note="Trusted: TLC, Fir/Multirate/Order.tla definitions, driver encoding. Prefix mode is metamorphic (same library, "
             "tolerance 1e-9 rms; unchanged tree is bit-identical). Agc/FIRResampler copies share state and are re-created, not copied.",
        technique="TLA+ stream specs + TLC MC over all framings; trace validation (exact recomputation / prefix comparison)",
        design="4/C06"),
    "C07": dict(
        text="FirDef (conjugated taps), MaDef2, XcorrRe/Im, BlockLen in Fir.tla; MC: FirImpl/OlaImpl/MaImpl = definitions for all "
             "framings. Real code on integer/Gaussian-integer data: every output of FirFilter/FftFilter (real, complex) and "
             "MAFilter recomputed by TLC for 5 tap structures x all framings + multi-block one-shot streams; xcorr for every "
             "length pair up to 24^2 (quick) / 48^2 (thorough) + sampled long pairs; FftFilter == FirFilter on random taps up "
             "to 1024 with block-size arithmetic; FirFilter vs long-double sum as T3 residual.",
        note="Trusted: TLC, Fir.tla, driver encoding, FFT rounding bound 64 eps log2(len)|h||x| (global), long-double "
             "transliteration for the T3 clause only.",
        technique="TLA+ defining sums evaluated by TLC on integer-domain traces of the real filters",
        design="4/C07"),
    "C08": dict(
        text="Multirate.tla: ChainAt (zero-stuff, filter normalised to gain L, keep every M-th at phase phi), OutLen, NextSize, "
             "PrevSize, ResampleLen; MC: the polyphase implementation shapes equal the chain at closed-form phases for every "
             "coprime L/M <= 6 (quick) / 9 (thorough) under all framings. Real code: every coprime L/M <= 8 (quick) / 16 + "
             "audio ratios (thorough), symmetric integer h with power-of-two sum, impulse and random inputs over two calls, "
             "classes and FIRResampler wrapper with unreduced ratios; TLC infers the phase at the first call and holds it; "
             "counts and rejections (1:1 included: only the wrapper bypasses); resample(): length rule, identity for p=q, alignment of an analytic "
             "Gaussian probe, and a second call at the same ratio independent of the first (bit for bit).",
        note="Trusted: TLC, Multirate.tla, driver encoding (outputs scaled by sum(h)); analytic probe for the alignment clause. "
             "Default-designed filters are covered by prefix mode of C06 and the alignment probe only.",
        technique="TLA+ multirate chain spec + TLC MC; trace validation with phase inferred by TLC",
        design="4/C08"),
})

CLAIMED.update({
    "C15": dict(
        text="MC_Primes: the trial-division loop of isprime/factor as a state machine over a 2^12-valued word satisfies result = "
             "definition, the pi(sqrt n)+2 step bound and termination for every n; the word-wrapping variant (d*d computed in the "
             "word) is kept as a documented failing model. Real code: isprime, nextpow2, ispow2 for every n < 2^17 (quick) / 2^22 "
             "(thorough), factor for every n < 2^13 / 2^16, nextprime for every n < 2^14 / 2^18, primes(n) lists, windows around "
             "2^16, 2^24, 2^31, 65521^2, 2^32 and products of primes near 2^16 (32-bit arguments as 16-bit limbs); TLC is the "
             "oracle for values and for the trial-division count (<= 32 sqrt(n) + 1024 per primality test) read from the hook.",
        note="Trusted: TLC, Primes.tla (trial-division definition, limb arithmetic), the DSPLIB_VERIF division counter, a 20 s alarm() "
             "watchdog per call (a Timeout event has no action in the trace spec).",
        technique="TLA+ loop model + TLC MC (incl. liveness); TLC as exhaustive oracle over traces of the real helpers",
        design="4/C15"),
    "C16": dict(
        text="MC_Order: the median filter's incrementally updated sorted window equals the sorted ring and yields the window median "
             "for EVERY input over a 3-letter alphabet (orders 3..6), i.e. all framings and inputs of the non-linear filter; rank "
             "statistics range/symmetry/+-1 for all permutation pairs of length 4. Real code: sort (both directions: order, "
             "permutation, sorted[i]=x[idx[i]]), median, medfilt on every array over {-1,0,1} up to length 5 (quick)/6 and random "
             "arrays to 2000; MedianFilter orders 3..64 under random framings and all framings for small orders; Kendall tau and "
             "Spearman rho as exact rationals for every permutation pair up to length 5/6 and samples up to 1000; Pearson and "
             "large samples against long-double definitions.",
        note="Trusted: TLC, Order.tla, driver integer encoding (medians doubled, tau/rho scaled by their denominators), long-double "
             "references for Pearson and n > 1000 (T3).",
        technique="TLA+ order-statistics spec + TLC MC over all inputs; exact trace validation on integer data",
        design="4/C16"),
    "C03": dict(
        text="ArrayAlg.tla gives the field formulas on Gaussian integers, promotion, element-wise result predicates, concatenation "
             "and selection, and a value-semantics step function; MC_ArrayAlg checks all programs of depth 3 (4 thorough) over "
             "three variables: well-formedness, only the destination changes, a throwing step changes nothing, copies equal "
             "their source. Real code (rel and ASan+UBSan builds): the whole operator table (4 ops x array-array / compound / "
             "alias / scalar left and right for real, int, cmplx_t, std::complex / compound scalar x type pairings x lengths "
             "0..3 and mismatches), unary, |, |=, self |=, concatenate with empty operands, mask and index-list selection, "
             "random programs validated step by step by TLC; wide-magnitude operations vs a long-double interpreter (T3).",
        note="Trusted: TLC, ArrayAlg.tla, driver Gaussian-integer encoding (divisors curated so quotients are exact), long-double "
             "textbook formulas for the T3 clause.",
        technique="TLA+ value-semantics spec + TLC MC; exact trace validation of the operator table and programs",
        design="4/C03"),
    "C01": dict(
        text="Transform.tla states the DFT exponent matrix, pad/truncate semantics, conjugate symmetry, plan kinds, the factor "
             "split and the Cooley-Tukey index algebra; MC_Transform proves the split computes the DFT exponents for every "
             "composite length <= 40 (160 thorough) and walks every factorisation tree. Real code: for every n < 65 (161) and "
             "every impulse position, 4 entry points: each output mapped to the nearest n-th root of unity and the exponent "
             "vector compared exactly by TLC with m*k mod n; every n < 513 (4097) x 8 input classes x 6 entry points against a "
             "long-double O(n^2) DFT, TLC checking the 32 n eps bound; fft(x,n') vs resize for n' in 1..2n; real vs complex; "
             "conjugate symmetry; sampled lengths to 2^17 (primes, semiprimes, prime powers, 2^k p, highly composite) with a "
             "sampled-bin oracle and Parseval; czt vs its defining sum.",
        note="Trusted: TLC, Transform.tla, the long-double DFT oracle (twiddles indexed by m*k mod n) — the accuracy clause is a "
             "T3 residual measured by the driver and only thresholded by TLC; the exponent matrix and shape clauses are exact.",
        technique="TLA+ transform algebra + TLC theorems; impulse-row trace validation (exact) + residual thresholds",
        design="4/C01"),
    "C02": dict(
        text="Round trips compared with the call's own input: ifft(fft(x)) for every n < 513 (2049) x 5 classes, irfft with n bins, "
             "n/2+1 bins and the one-argument form for every even n, fft(irfft(X)) = X, IfftPlan / IfftPlanR; odd n must be "
             "rejected by an exception; STFT grid (11 nfft, 6 windows, symmetric/periodic, every overlap accepted by iscola, 3 "
             "ranges, OLA/WOLA, unaligned lengths): TLC checks segment count, bins per frame, output length, finiteness and the "
             "reconstruction error on samples whose accumulated window weight is non-zero; Transform.tla theorems on the range "
             "permutations and length arithmetic.",
        note="Trusted: TLC, Transform.tla, driver's long-double window-weight accumulation; tolerance 64 n eps (round trips) fixed "
             "with >10x headroom over the repaired tree.",
        technique="TLA+ shape/arithmetic spec + TLC; round-trip trace validation",
        design="4/C02"),
})

def _doc(mod):
    import importlib
    return " ".join((importlib.import_module("vlib." + mod).__doc__ or "").split())


for _pid, _tech, _note in [
    ("C05", "TLA+ API outcome contract + TLC; spec-enumerated call programs run under ASan/UBSan in forked children, validated by TLC",
     "Trusted: TLC, ApiContract.tla, ASan+UBSan (the memory-safety / UB monitor lies outside TLA+; the spec supplies the case "
     "structure and the verdict rule), fork/alarm isolation."),
    ("C09", "TLA+ scratch-ownership spec + TLC (all interleavings); forced schedules at hook yield points + TSan stress, validated by TLC",
     "Trusted: TLC, Threads.tla, the cooperative scheduler and DSPLIB_VERIF yield points, ThreadSanitizer for the free-running phase "
     "(race detection lies outside TLA+)."),
    ("C11", "TLA+ design rules + TLC theorems; trace validation of lengths/symmetry/acceptance, thresholds on long-double residuals",
     "Trusted: TLC, Design.tla, long-double closed forms and response grid (closed-form and mask clauses are T3 only)."),
    ("C12", "TLA+ integer LMS recursion + lock machine, TLC MC; exact trace validation + long-double residual thresholds",
     "Trusted: TLC, Adaptive.tla, long-double references for NLMS/RLS clauses (T3)."),
    ("C13", "TLA+ label maps + TLC theorems; trace validation of labels/shape/peak label, thresholds on long-double power sums",
     "Trusted: TLC, Spectrum.tla, long-double sums (T3). Known finding: complex welch labelling (known_findings.txt)."),
    ("C14", "TLA+ exact tuner phase arithmetic + TLC MC over framings; trace validation (exact integer phase), residual thresholds",
     "Trusted: TLC, Analytic.tla, atan2l read-out of the tuner phase, analytic tone for the quadrature clause (T3)."),
    ("C17", "TLA+ index maps + TLC theorems; exhaustive small-scope trace validation; lattice (T2) and long-double (T3) thresholds",
     "Trusted: TLC, MathShapes.tla, long-double libm (the random-magnitude clause is T3 only)."),
    ("C18", "TLA+ frame/offset arithmetic + ring-buffer MC; trace validation of detector frame/offset/alignment, finddelay, peakloc rational",
     "Trusted: TLC, Detector.tla, driver PRNG signals; detector thresholds below max(0.5, 6/sqrt(Lp)) are outside the satisfiable domain."),
    ("C19", "TLA+ per-thread generator history spec + TLC MC over interleavings; trace validation of replays (bit exact), statistical thresholds",
     "Trusted: TLC, Random.tla, FNV digest of returned bytes; calibration clauses are T3/statistical (6 standard errors)."),
    ("C20", "TLA+ exact rational static curves + gate machine, TLC theorems/MC; trace validation on a centi-dB grid",
     "Trusted: TLC, Dynamics.tla, milli-dB quantisation of observed gains."),
]:
    CLAIMED[_pid] = dict(text=_doc(_pid.lower())[:1900], note=_note, technique=_tech, design="4/" + _pid)

NOT_APPLICABLE = {
}

PENDING_REASON = "check not built yet in this session (work in progress; see DESIGN.md section 4 for the plan)"
