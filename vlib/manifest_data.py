"""Source of MANIFEST.json (bin/mkmanifest writes and validates it)."""

HOOK_COMMITS = ["ab3948d verif hook (guarded by DSPLIB_VERIF): plan-cache key accessors and access observer"]

CLAIMED = {
    "C04": dict(
        text="TLC proves on the whole quantified domain (39 809 quadruples) that the library's index rule equals "
             "Python's on the accepted set, stays in range, survives copying, and that same-array assignment is "
             "copy-first for every aliasing pattern (n<=6); every one of those requests, every same-array pair "
             "(n<=8 thorough) and random stateful assignment sequences are executed on the real arrays (rel build "
             "with guard words, ASan+UBSan build with exact capacity) and each observation is validated by TLC "
             "against Slice.tla (Trace_Slice). Exhaustive in small scope, sampled for n up to 1e5.",
        note="Trusted: TLC, the Python-slice transcription PyIdx in Slice.tla, the driver's tag encoding and JSON "
             "bridge. Assigning an empty array to an empty slice is deliberately left free (DESIGN 6).",
        technique="TLA+ spec (Slice.tla) + TLC theorems/MC; exhaustive trace validation of the real slices",
        design="4/C04"),
}

CLAIMED.update({
    "C10": dict(
        text="TLC checks the universal LRU model (any thread, any key, caps 1/2/4): <= Cap keys, no duplicates, exactly the most "
             "recently used ones in recency order, the list+map implementation refines it, accesses are confined to the "
             "caller's cache. The real library runs every request sequence up to length 4 (quick) / 6 (thorough) over 6-length "
             "alphabets for the complex and the real family, each in a fresh thread, plus random histories over 40 lengths with "
             "long-lived plan objects, in builds with cache size 4 (and 1, 2 thorough); the hook reports each cache access with the "
             "key list after it and TLC steps the model with the observed accesses, checking key lists, capacity, ownership "
             "and that every result equals the fresh-thread result.",
        note="Trusted: TLC, PlanCache.tla, the DSPLIB_VERIF hook in lib/fft/fft.cpp (reports keys after each access), the "
             "fresh-thread reference computed by the same library (metamorphic, 4 n eps). Which lengths a call routes through "
             "the cache is read from the trace, not predicted.",
        technique="TLA+ LRU spec + TLC MC; trace validation of hook events from exhaustive request histories",
        design="4/C10"),
    "C06": dict(
        text="TLC checks that each implementation-shaped processor (FIR history, overlap-add, moving-average ring, median "
             "sorted window, polyphase decimator/interpolator/rate converter) equals its definition under all framings of K "
             "granules and all impulse inputs (linearity => all inputs). The real processors run all 2^(k-1) framings (k=8 "
             "quick, 11-12 thorough) in exact mode (integer data; TLC recomputes every output sample from the definition over "
             "the whole input so far) and in prefix mode (all 27 processor variants incl. Hilbert, Tuner, AGC, compressor, "
             "limiter, gate, LMS/NLMS/RLS; compared with the one-call output of a separately constructed instance), twin "
             "instances with identical parameters interleaved, and long random heavy-tailed framings with 2-4 interleaved "
             "instances; TLC validates counts, rejection of non-multiples, and first-difference = none.",
        note="Trusted: TLC, Fir/Multirate/Order.tla definitions, driver encoding. Prefix mode is metamorphic (same library, "
             "tolerance 1e-9 rms; unchanged tree is bit-identical). Agc/FIRResampler copies share state and are re-created, not copied.",
        technique="TLA+ stream specs + TLC MC over all framings; trace validation (exact recomputation / prefix comparison)",
        design="4/C06"),
    "C07": dict(
        text="FirDef (conjugated taps), MaDef2, XcorrRe/Im, BlockLen in Fir.tla; MC: FirImpl/OlaImpl/MaImpl = definitions for all "
             "framings. Real code on integer/Gaussian-integer data: every output of FirFilter/FftFilter (real, complex) and "
             "MAFilter recomputed by TLC for 5 tap structures x all framings + multi-block one-shot streams; xcorr for every "
             "length pair up to 24^2 (quick) / 48^2 (thorough) + sampled long pairs; FftFilter == FirFilter on random taps up "
             "to 1024 with block-size arithmetic; FirFilter vs long-double sum as T3 residual.",
        note="Trusted: TLC, Fir.tla, driver encoding, FFT rounding bound 64 eps log2(len)|h||x| (global), long-double "
             "transliteration for the T3 clause only.",
        technique="TLA+ defining sums evaluated by TLC on integer-domain traces of the real filters",
        design="4/C07"),
    "C08": dict(
        text="Multirate.tla: ChainAt (zero-stuff, filter normalised to gain L, keep every M-th at phase phi), OutLen, NextSize, "
             "PrevSize, ResampleLen; MC: the polyphase implementation shapes equal the chain at closed-form phases for every "
             "coprime L/M <= 6 (quick) / 9 (thorough) under all framings. Real code: every coprime L/M <= 8 (quick) / 16 + "
             "audio ratios (thorough), symmetric integer h with power-of-two sum, impulse and random inputs over two calls, "
             "classes and FIRResampler wrapper with unreduced ratios; TLC infers the phase at the first call and holds it; "
             "counts and rejections; resample(): length rule, identity for p=q, alignment of an analytic Gaussian probe.",
        note="Trusted: TLC, Multirate.tla, driver encoding (outputs scaled by sum(h)); analytic probe for the alignment clause. "
             "Default-designed filters are covered by prefix mode of C06 and the alignment probe only.",
        technique="TLA+ multirate chain spec + TLC MC; trace validation with phase inferred by TLC",
        design="4/C08"),
})

NOT_APPLICABLE = {
}

PENDING_REASON = "check not built yet in this session (work in progress; see DESIGN.md section 4 for the plan)"
