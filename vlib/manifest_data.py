"""Source of MANIFEST.json (bin/mkmanifest writes and validates it)."""

HOOK_COMMITS = []

CLAIMED = {
    "C04": dict(
        text="TLC proves on the whole quantified domain (39 809 quadruples) that the library's index rule equals "
             "Python's on the accepted set, stays in range, survives copying, and that same-array assignment is "
             "copy-first for every aliasing pattern (n<=6); every one of those requests, every same-array pair "
             "(n<=8 thorough) and random stateful assignment sequences are executed on the real arrays (rel build "
             "with guard words, ASan+UBSan build with exact capacity) and each observation is validated by TLC "
             "against Slice.tla (Trace_Slice). Exhaustive in small scope, sampled for n up to 1e5.",
        note="Trusted: TLC, the Python-slice transcription PyIdx in Slice.tla, the driver's tag encoding and JSON "
             "bridge. Assigning an empty array to an empty slice is deliberately left free (DESIGN 6).",
        technique="TLA+ spec (Slice.tla) + TLC theorems/MC; exhaustive trace validation of the real slices",
        design="4/C04"),
}

NOT_APPLICABLE = {
}

PENDING_REASON = "check not built yet in this session (work in progress; see DESIGN.md section 4 for the plan)"
