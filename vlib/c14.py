"""C14 — analytic-signal and frequency-translation tools follow their definitions.

Spec: Analytic.tla (tuner phase of sample k = (a*k mod b*fs)/(b*fs) turns for f = a/b; HilbertFilter length and
delay rule; hilbert() spectral weights).  MC_Analytic: the counter machine of the tuner under every framing and
every f = a/b (b in {1,2,3}): the free-running counter is exact, the variant that wraps the counter at fs (the
repaired defect) violates PhaseExact — kept as a documented failing model.
Conformance (Trace_Analytic): tuner streams several multiples of fs long under arbitrary framing, fs 8..1e5,
integer and fractional f in [-fs/2, fs/2]: the phase of sampled positions (dense around multiples of fs) as an
exact integer in 1/(b*fs) turns + deviation <= 1e-6 turn; out = x*w on arbitrary data; hilbert: real part = x,
negative-frequency bins vanish, hilbert(x,n) = hilbert(resize) for every length 3..400 (thorough 4096 sampled),
signals with/without DC and Nyquist content; HilbertFilter lengths 31..401, real part = exact delay on integer data
under arbitrary framing, quadrature within 1e-3 for tones in the stated band."""
from . import core, simple


def check(run, tier, seed, replay=None, only=None):
    quick = tier == "quick"
    run.extra["rule"] = "tuner: random (fs, a/b, framing); hilbert: every length in range x 4 signal kinds; HilbertFilter: random lengths/widths/tones"
    run.trusted = ["TLC", "spec/Analytic.tla", "atan2l-based phase read-out of the tuner output", "analytic tone for the quadrature clause (T3)"]
    top = 400 if quick else 1400
    stages = []
    for s in range(4 if quick else 12):
        stages.append(("tuner-%d" % s, ["--mode", "tuner", "--budget", 40 if quick else 80, "--seed", seed * 100 + s]))
        stages.append(("hf-%d" % s, ["--mode", "hf", "--budget", 30 if quick else 80, "--seed", seed * 100 + 20 + s]))
    k = 4 if quick else 12
    for s in range(k):
        stages.append(("hilbert-%d" % s, ["--mode", "hilbert", "--a", 3 + (top * s) // k, "--b", 3 + (top * (s + 1)) // k, "--seed", seed * 100 + 40 + s]))
    if not quick:
        for a in (2040, 4090):
            stages.append(("hilbert-big-%d" % a, ["--mode", "hilbert", "--a", a, "--b", a + 10, "--seed", seed]))
    asis = core.tlc("MC_Analytic.tla", "MC_Analytic_wrap.cfg", workers=2, timeout=300)
    if asis.infra_failure:
        raise core.InfraError("MC_Analytic/wrap failed to run:\n" + asis.out[-2000:])
    if not asis.inv_violated:
        raise core.InfraError("vacuity guard: the wrapping tuner model no longer violates PhaseExact")
    run.states += asis.distinct
    run.transitions += asis.generated
    run.extra["wrapping_counter_model_fails_as_documented"] = True
    n = simple.run_check(run, tier, seed, replay, "analytic_drv", "Trace_Analytic.tla",
                         [("MC_Analytic.tla", "MC_Analytic_free.cfg", "MC_Analytic/free (tuner phase exact for every f = a/b and framing)")],
                         stages)
    run.clause("tuner phase = (a*k mod b*fs)/(b*fs) turns; HilbertFilter real part = delayed input; lengths", "T1", n or 0)
    run.clause("hilbert real part / negative bins / resize equivalence; tuner multiplies arbitrary data", "T1m", n or 0)
    run.clause("HilbertFilter quadrature within 1e-3 of the amplitude", "T3", n or 0)
