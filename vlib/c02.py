"""C02 — inverse transforms invert the forward transforms (ifft, irfft both input forms, odd-n rejection, STFT).

Spec: Transform.tla (IrfftAccepts, NSeg, BinsOf, IstftLen, centred/two-sided permutations inverse of each other).
Conformance (Trace_Transform): ifft(fft(x)) = x for every n (5 input classes), irfft with n and n/2+1 bins and the
one-argument form for every even n, fft(irfft(X)) = X, plan objects, odd n -> exception (not a crash); STFT grid:
11 nfft values x 6 windows x symmetric/periodic x overlaps accepted by iscola x 3 ranges x OLA/WOLA x lengths not
aligned to the hop: segment count, bins per frame, output length, finiteness and reconstruction error on the samples
with non-zero accumulated window weight."""
from . import core
from .c01 import describe, ranges


def check(run, tier, seed, replay=None, only=None):
    quick = tier == "quick"
    ninv = 513 if quick else 2049
    run.extra["rule"] = ("every n < %d for ifft (5 classes) and irfft (3 forms), odd n rejection; STFT: random cells of the grid nfft x "
                         "window x variant with every COLA overlap x ranges x methods; distinct = event records" % ninv)
    run.trusted = ["TLC", "spec/Transform.tla", "round-trip comparison with the call's own input (T1m, 64 n eps)",
                   "driver's long-double accumulation of the window weights"]
    if replay is not None:
        core.validate_trace(run, "Trace_Transform.tla", [replay.get("case", {})], "replay", describe=describe)
        return
    exe = core.build_driver("fft_drv", "rel")

    def mc():
        return core.tlc("MC_Transform.tla", "MC_Transform.cfg", workers=4, timeout=1500)

    stages = []
    for i, (a, b) in enumerate(ranges(1, ninv, 8 if quick else 16, 1.3)):
        stages.append(("inv-%d" % i, ["--mode", "inv", "--a", a, "--b", b, "--seed", seed * 100 + i]))
    for s in range(4 if quick else 16):
        stages.append(("stft-%d" % s, ["--mode", "stft", "--budget", 250 if quick else 1500, "--seed", seed * 100 + 40 + s]))
    from .c01 import kernel_jobs
    asis = core.tlc("MC_FftKernels.tla", "MC_FftKernels_asis.cfg", workers=2, timeout=600)
    if asis.infra_failure or not asis.inv_violated:
        raise core.InfraError("vacuity guard: the quarter-wave irfft table applied to n = 2 (mod 4) must violate KernelsEqualDft\n" + asis.out[-1500:])
    run.states += asis.distinct
    run.transitions += asis.generated
    run.extra["asis_irfft_table_model_fails_as_documented"] = True
    kj = kernel_jobs(run, quick, maxlen=20 if quick else 64)
    res = core.parallel([mc] + [j for j, _ in kj] + [lambda n=n, a=a: core.drive(run, exe, a, n, timeout=3000) for n, a in stages])
    run.add_tlc(res[0], "MC_Transform (irfft acceptance, STFT arithmetic, range permutations)")
    for (_, what), r in zip(kj, res[1:1 + len(kj)]):
        run.add_tlc(r, what + " (Ifft o Fft = id, Irfft o Dft = id)")
    res = res[len(kj):]
    n = 0
    worst = {}
    for (name, args), recs in zip(stages, res[1:]):
        core.validate_trace(run, "Trace_Transform.tla", recs, name, describe=describe, timeout=3000, chunks=1)
        n += len(recs)
        for r in recs:
            if r.get("o") == "ret":
                k = r.get("api", r.get("e"))
                worst[k] = max(worst.get(k, 0), r.get("err_milli", 0))
        if recs:
            run.sample({"stage": name, "event": recs[len(recs) // 2]}, limit=8)
    run.extra["worst_error_milli_of_bound"] = worst
    run.nontrivial = set(range(n))
    run.clause("transcribed ifft / irfft (both table branches) invert the transform exactly in F_P", "T1 (spec level)", len(kj))
    run.clause("odd n rejected by exception; output lengths; finite values; segment / bin counts", "T1", n)
    run.clause("ifft(fft(x)) = x, irfft(rfft(x)) = x (both forms), istft(stft(x)) = x where the weight is non-zero", "T1m", n)
    run.exhaustive = True
