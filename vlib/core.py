"""Shared machinery for the dsplib TLA+ model-based checks.

Everything a check needs: building /repo's working tree in a flavour, building a
C++ conformance driver against it, running TLC (model checking, theorem-style
ASSUME evaluation, trace validation), collecting evidence, matching known
findings, and the exit protocol (0 / 1 + VIOLATION / 2 + ERROR).
"""
import fcntl
import hashlib
import json
import os
import re
import shutil
import subprocess
import tempfile
import sys
import time

ROOT = os.path.dirname(os.path.dirname(os.path.abspath(__file__)))
REPO = os.environ.get("VERIF_REPO", "/repo")
CACHE = os.environ.get("VERIF_CACHE", os.path.join(ROOT, ".cache"))
OUT = os.environ.get("VERIF_OUT", os.path.join(ROOT, "out"))
SPEC = os.path.join(ROOT, "spec")
HARNESS = os.path.join(ROOT, "harness")
EVIDENCE = os.environ.get("VERIF_EVIDENCE", os.path.join(ROOT, "evidence"))
TLA_CP = "/opt/veriftools/tla/tla2tools.jar:/opt/veriftools/tla/CommunityModules-deps.jar"
GUARD = "DSPLIB_VERIF"
NCPU = os.cpu_count() or 4


class InfraError(Exception):
    """Build failure, TLC parse error, driver crash outside the library: exit 2, never VIOLATION."""


FLAVOURS = {
    # name: (compiler, flags, extra cmake defs)
    "rel": ("g++", "-O2 -g0 -DNDEBUG -D%s" % GUARD, {}),
    "asan": ("clang++", "-O1 -g -DNDEBUG -D%s -fsanitize=address,undefined "
             "-fno-sanitize-recover=all -fno-omit-frame-pointer" % GUARD, {}),
    "tsan": ("clang++", "-O1 -g -DNDEBUG -D%s -fsanitize=thread" % GUARD, {}),
    "cache1": ("g++", "-O2 -g0 -DNDEBUG -D%s" % GUARD, {"DSPLIB_FFT_CACHE_SIZE": "1"}),
    "cache2": ("g++", "-O2 -g0 -DNDEBUG -D%s" % GUARD, {"DSPLIB_FFT_CACHE_SIZE": "2"}),
}


def sh(cmd, timeout=None, cwd=None, env=None, check=False, input=None):
    e = dict(os.environ)
    if env:
        e.update(env)
    try:
        p = subprocess.run(cmd, shell=isinstance(cmd, str), cwd=cwd, env=e, timeout=timeout,
                           stdout=subprocess.PIPE, stderr=subprocess.STDOUT, input=input)
        out = p.stdout.decode("utf-8", "replace")
        rc = p.returncode
    except subprocess.TimeoutExpired as ex:
        out = (ex.stdout or b"").decode("utf-8", "replace")
        rc = 124
    if check and rc != 0:
        raise InfraError("command failed (%s): %s\n%s" % (rc, cmd, out[-3000:]))
    return rc, out


class _Lock:
    def __init__(self, name):
        os.makedirs(CACHE, exist_ok=True)
        self.path = os.path.join(CACHE, name + ".lock")

    def __enter__(self):
        self.f = open(self.path, "w")
        fcntl.flock(self.f, fcntl.LOCK_EX)
        return self

    def __exit__(self, *a):
        fcntl.flock(self.f, fcntl.LOCK_UN)
        self.f.close()


def _tree_hash(paths, extra=""):
    h = hashlib.sha256(extra.encode())
    for root in paths:
        if os.path.isfile(root):
            h.update(root.encode())
            h.update(open(root, "rb").read())
            continue
        for d, dirs, files in sorted(os.walk(root)):
            dirs.sort()
            if "_build" in d or "/.git" in d:
                continue
            for f in sorted(files):
                if f.endswith((".h", ".cpp", ".hpp", ".txt", ".cmake", ".in")):
                    p = os.path.join(d, f)
                    h.update(p.encode())
                    h.update(open(p, "rb").read())
    return h.hexdigest()


def build_lib(flavour="rel"):
    """Build /repo's current working tree (library only) with hooks on. Returns build dir."""
    cxx, flags, defs = FLAVOURS[flavour]
    bdir = os.path.join(CACHE, "build-" + flavour)
    with _Lock("build-" + flavour):
        stamp = os.path.join(bdir, ".verif_hash")
        hsh = _tree_hash([os.path.join(REPO, "include"), os.path.join(REPO, "lib"),
                          os.path.join(REPO, "CMakeLists.txt"), os.path.join(REPO, "cmake")],
                         flavour + flags + json.dumps(defs, sort_keys=True))
        if os.path.exists(stamp) and open(stamp).read() == hsh and \
                os.path.exists(os.path.join(bdir, "libdsplib.a")):
            return bdir
        os.makedirs(bdir, exist_ok=True)
        dd = " ".join("-D%s=%s" % kv for kv in defs.items())
        # always re-configure: the library globs its sources at configure time
        sh("cmake -G Ninja -S %s -B %s -DCMAKE_BUILD_TYPE=None -DCMAKE_CXX_COMPILER=%s "
           "-DCMAKE_CXX_FLAGS='%s' %s" % (REPO, bdir, cxx, flags, dd), check=True, timeout=300)
        sh("cmake --build %s -j%d" % (bdir, NCPU), check=True, timeout=1200)
        open(stamp, "w").write(hsh)
    return bdir


def build_driver(name, flavour="rel", extra=""):
    """Compile harness/<name>.cpp against the flavour's library. Returns exe path."""
    bdir = build_lib(flavour)
    cxx, flags, defs = FLAVOURS[flavour]
    src = os.path.join(HARNESS, name + ".cpp")
    exe = os.path.join(bdir, "drv_" + name)
    with _Lock("drv-%s-%s" % (name, flavour)):
        stamp = exe + ".hash"
        hsh = _tree_hash([src, os.path.join(HARNESS, "common.h"), os.path.join(bdir, ".verif_hash")],
                         flags + extra)
        if os.path.exists(exe) and os.path.exists(stamp) and open(stamp).read() == hsh:
            return exe
        cmd = ("%s -std=c++17 %s %s -I%s/include -I%s/lib -I%s -I%s %s -o %s %s/libdsplib.a -lpthread"
               % (cxx, flags, extra, REPO, REPO, bdir, HARNESS, src, exe, bdir))
        sh(cmd, check=True, timeout=900)
        open(stamp, "w").write(hsh)
    return exe


# --------------------------------------------------------------------------------------
# TLC
# --------------------------------------------------------------------------------------
class TlcResult:
    def __init__(self, rc, out, wall):
        self.rc = rc
        self.out = out
        self.wall = wall
        m = re.findall(r"(\d+) states generated, (\d+) distinct states found, (\d+) states left", out)
        self.generated = int(m[-1][0]) if m else 0
        self.distinct = int(m[-1][1]) if m else 0
        self.finished = "Model checking completed" in out or "Finished in" in out
        self.inv_violated = re.findall(r"Error: Invariant (\S+) is violated", out)
        self.prop_violated = re.findall(r"Error: (?:Action|Temporal) propert(?:y|ies) (\S+)? ?(?:is|were) violated", out)
        self.temporal_violated = "Temporal properties were violated" in out
        self.assume_false = re.findall(r"Assumption line (\d+)", out)
        self.post_false = "Postcondition" in out and "is false" in out
        self.deadlock = "Deadlock reached" in out
        self.parse_error = ("Parsing or semantic analysis failed" in out or "Semantic error" in out
                            or "Lexical error" in out or "***Parse Error***" in out)
        self.exception = bool(re.search(r"Error: TLC threw an unexpected exception|"
                                        r"Error: The (first|second) argument of|"
                                        r"Error: Evaluating|Error: Attempted to|"
                                        r"Error: In evaluation|Error: TLC encountered", out))
        self.timeout = rc == 124
        self.prints = re.findall(r"^(<<.*>>|\".*\")$", out, re.M)

    @property
    def clean(self):
        """search finished, nothing reported"""
        return (self.rc == 0 and not self.inv_violated and not self.assume_false
                and not self.post_false and not self.deadlock and not self.parse_error
                and not self.exception and not self.temporal_violated and not self.prop_violated)

    @property
    def infra_failure(self):
        return self.parse_error or self.exception or self.timeout or \
            (self.rc not in (0, 10, 11, 12, 13) and not self.inv_violated and not self.post_false)

    def coverage(self):
        """per-action taken:generated counts from -coverage output (last report)."""
        cov = {}
        for m in re.finditer(r"^<(\w+) line \d+, col \d+ to line \d+, col \d+ of module (\w+)>: (\d+):(\d+)",
                             self.out, re.M):
            cov[m.group(1)] = (int(m.group(3)), int(m.group(4)))
        return cov


_tlc_seq = [0]


def tlc(spec, cfg=None, env=None, workers=1, timeout=600, extra=None, heap="4g", tag=None, cwd=None,
        deadlock=True, dfs=False):
    """Run TLC on spec (path relative to spec/). cfg defaults to <spec>.cfg."""
    cwd = cwd or SPEC
    base = os.path.splitext(os.path.basename(spec))[0]
    cfg = cfg or base + ".cfg"
    _tlc_seq[0] += 1
    meta = os.path.join(OUT, "tlcmeta", "%s-%d-%d-%s" % (base, os.getpid(), _tlc_seq[0], tag or ""))
    os.makedirs(meta, exist_ok=True)
    jopts = ["-XX:+UseParallelGC", "-Xmx" + heap, "-Xss16m"]
    if dfs:
        jopts.append("-Dtlc2.tool.queue.IStateQueue=StateDeque")
    cmd = ["timeout", str(timeout), "java"] + jopts + ["-cp", TLA_CP, "tlc2.TLC", "-workers", str(workers),
           "-metadir", meta, "-noGenerateSpecTE", "-config", cfg]
    if not deadlock:
        cmd.append("-deadlock")
    cmd += (extra or []) + [spec]
    e = dict(os.environ)
    e.update({k: str(v) for k, v in (env or {}).items()})
    t0 = time.time()
    p = subprocess.run(cmd, cwd=cwd, env=e, stdout=subprocess.PIPE, stderr=subprocess.STDOUT)
    out = p.stdout.decode("utf-8", "replace")
    shutil.rmtree(meta, ignore_errors=True)
    return TlcResult(p.returncode, out, time.time() - t0)


def tlc_must_be_clean(r, what):
    if r.infra_failure or not r.clean and not (r.inv_violated or r.post_false or r.assume_false
                                                or r.temporal_violated or r.prop_violated or r.deadlock):
        raise InfraError("TLC infrastructure failure in %s (rc=%s):\n%s" % (what, r.rc, r.out[-4000:]))
    return r


def parallel(jobs, nproc=None):
    """Run callables in threads (they spawn subprocesses); returns results in order."""
    from concurrent.futures import ThreadPoolExecutor
    with ThreadPoolExecutor(max_workers=nproc or NCPU) as ex:
        futs = [ex.submit(j) for j in jobs]
        return [f.result() for f in futs]


# --------------------------------------------------------------------------------------
# ndjson helpers
# --------------------------------------------------------------------------------------
def read_ndjson(path):
    res = []
    with open(path) as f:
        for line in f:
            line = line.strip()
            if line:
                res.append(json.loads(line))
    return res


def write_ndjson(path, recs):
    with open(path, "w") as f:
        for r in recs:
            f.write(json.dumps(r, separators=(",", ":")) + "\n")


def read_tlc_json_array(path):
    """ndJsonSerialize writes one JSON value per line; JsonSerialize writes one value."""
    txt = open(path).read().strip()
    if not txt:
        return []
    try:
        v = json.loads(txt)
        return v if isinstance(v, list) else [v]
    except json.JSONDecodeError:
        return [json.loads(l) for l in txt.splitlines() if l.strip()]


# --------------------------------------------------------------------------------------
# known findings
# --------------------------------------------------------------------------------------
def load_known(prop):
    path = os.path.join(ROOT, "known_findings.txt")
    res = []
    if os.path.exists(path):
        for line in open(path):
            line = line.strip()
            if not line.startswith("{"):
                continue   # comments and "fixed: ..." lines suppress nothing
            r = json.loads(line)
            if r.get("property") == prop and r.get("status") == "known":
                res.append(r)
    return res


def match_known(known, rec):
    """rec: dict describing a failing case. An entry matches if its `when` expression
    (python, evaluated over the record's fields) is true."""
    for k in known:
        try:
            env = dict(rec)
            if eval(k["when"], {"__builtins__": {}, "abs": abs, "min": min, "max": max, "len": len}, env):
                return k
        except Exception:
            continue
    return None


# --------------------------------------------------------------------------------------
# Run: evidence + exit protocol
# --------------------------------------------------------------------------------------
class Run:
    def __init__(self, prop, tier, seed):
        self.prop = prop
        self.tier = tier
        self.seed = seed
        self.t0 = time.time()
        self.states = 0
        self.transitions = 0
        self.traces = 0
        self.evaluations = 0
        self.samples = []
        self.violations = []      # list of dict(rec=..., why=...)
        self.known_hits = {}      # key -> (entry, count)
        self.info = []
        self.clauses = {}
        self.extra = {}
        self.assumptions = []
        self.trusted = []
        self.nontrivial = set()
        self.known = load_known(prop)
        self.outdir = os.path.join(OUT, prop, "%s-%d-%d" % (tier, seed, os.getpid()))
        os.makedirs(self.outdir, exist_ok=True)
        self.exhaustive = None

    def path(self, name):
        return os.path.join(self.outdir, name)

    def add_tlc(self, r, what, expect_clean=True, clause=None):
        """account a TLC run; expect_clean → anything reported is a spec-level violation."""
        if r.infra_failure:
            raise InfraError("TLC failed in %s (rc=%s):\n%s" % (what, r.rc, r.out[-4000:]))
        self.states += r.distinct
        self.transitions += r.generated
        self.extra.setdefault("tlc_runs", []).append(
            {"what": what, "distinct": r.distinct, "generated": r.generated, "wall_s": round(r.wall, 2)})
        if expect_clean and not r.clean:
            p = self.path("tlc-%s.out" % re.sub(r"\W+", "_", what))
            open(p, "w").write(r.out)
            self.violation({"what": what, "tlc_output": p}, "spec-level check failed: " + what)
        return r

    def sample(self, s, limit=8):
        if len(self.samples) < limit:
            self.samples.append(s)

    def note(self, msg):
        self.info.append(msg)
        print("INFO " + msg)

    def clause(self, name, tier, count, **kw):
        c = self.clauses.setdefault(name, {"oracle_tier": tier, "cases": 0})
        c["cases"] += count
        c.update(kw)

    def violation(self, rec, why):
        k = match_known(self.known, rec) if isinstance(rec, dict) else None
        if k is not None:
            e = self.known_hits.setdefault(k["key"], [k, 0, rec])
            e[1] += 1
            return False
        self.violations.append({"why": why, "case": rec})
        return True

    def finish(self):
        wall = time.time() - self.t0
        for key, (k, n, rec) in self.known_hits.items():
            print("KNOWN-FINDING: property=%s %s [key=%s, %d case(s) this run]" % (self.prop, k["what"], key, n))
        cov = {
            "states": max(self.states, 0),
            "transitions": max(self.transitions, 0),
            "traces_validated_against_impl": self.traces,
            "samples": self.samples[:8] if self.samples else ["(no sample recorded)"],
            "evaluations": self.evaluations,
            "distinct_nontrivial": len(self.nontrivial) if self.nontrivial else self.evaluations,
            "rule": self.extra.pop("rule", "see clauses"),
            "clauses": self.clauses,
            "trusted_base": self.trusted,
            "known_findings_hit": {k: v[1] for k, v in self.known_hits.items()},
            "info": self.info[:50],
        }
        if self.exhaustive is not None:
            cov["exhaustive"] = self.exhaustive
        cov.update(self.extra)
        ev = {
            "property_id": self.prop, "tier": self.tier, "seed": self.seed, "level": "model_checking",
            "coverage": cov, "assumptions": self.assumptions, "wall_s": round(wall, 2),
            "violations": len(self.violations),
        }
        extra = self.prop.startswith("X")     # growth checks beyond the listed properties: own evidence dir, own verdict word
        evdir = EVIDENCE + "-extra" if extra else EVIDENCE
        os.makedirs(evdir, exist_ok=True)
        tmp = os.path.join(evdir, self.prop + ".json.tmp")
        json.dump(ev, open(tmp, "w"), indent=1, default=str)
        os.replace(tmp, os.path.join(evdir, self.prop + ".json"))
        if self.violations:
            for i, v in enumerate(self.violations[:20]):
                p = self.path("violation-%d.json" % i)
                json.dump({"property": self.prop, "seed": self.seed, "tier": self.tier, **v},
                          open(p, "w"), indent=1, default=str)
                print("%s property=%s replay=%s  # %s" % ("EXTRA-VIOLATION" if extra else "VIOLATION", self.prop, p, v["why"][:300]))
            if len(self.violations) > 20:
                print("INFO %d further violations not listed" % (len(self.violations) - 20))
            return 1
        print("OK property=%s tier=%s states=%d transitions=%d traces=%d evaluations=%d wall=%.1fs" %
              (self.prop, self.tier, self.states, self.transitions, self.traces, self.evaluations, wall))
        return 0


def run_driver(exe, args, timeout=600, env=None, ok_rcs=(0,)):
    e = {"ASAN_OPTIONS": "detect_leaks=0:abort_on_error=0:exitcode=99",
         "UBSAN_OPTIONS": "print_stacktrace=1:halt_on_error=1:exitcode=98",
         "TSAN_OPTIONS": "exitcode=97:halt_on_error=0"}
    e.update(env or {})
    rc, out = sh([exe] + [str(a) for a in args], timeout=timeout, env=e)
    return rc, out


# --------------------------------------------------------------------------------------
# trace validation
# --------------------------------------------------------------------------------------
def _validate_once(spec, cfg, path, timeout, env=None, dfs=False):
    e = {"TRACE": path}
    e.update(env or {})
    r = tlc(spec, cfg, env=e, workers=1, timeout=timeout, dfs=dfs)
    m = re.search(r'<<"FURTHEST", (\d+), (\d+)>>', r.out)
    if not m and "The behavior up to this point is" in r.out and re.search(
            r"Error: (Overflow when computing|Attempted to|The error occurred when TLC was evaluating)", r.out):
        # TLC could not even evaluate the spec on this record (e.g. a logged value so wild that 32-bit arithmetic overflows):
        # the record is not explained by the specification - a rejection at the line being consumed, not a tooling failure
        ls = re.findall(r"\bl = (\d+)", r.out)
        if ls:
            n = sum(1 for _ in open(path))
            return r, int(ls[-1]), n, []
    if r.infra_failure and not m:
        raise InfraError("TLC failed validating %s (rc=%s):\n%s" % (path, r.rc, r.out[-3000:]))
    if not m:
        raise InfraError("no FURTHEST marker validating %s:\n%s" % (path, r.out[-3000:]))
    furthest, n = int(m.group(1)), int(m.group(2))
    other = [i for i in r.inv_violated]
    return r, furthest, n, other


def validate_trace(run, spec, recs, name, restart=lambda rec: True, describe=None, chunks=None,
                   timeout=900, max_rejects=3, env=None, cfg=None, dfs=False, prefix=None):
    """Validate a list of event records against spec (Trace_*.tla).

    A rejected line is reported (violation or known finding); validation then resumes at the
    next line for which restart(rec) is true (an event that does not depend on earlier state).
    Returns number of accepted events."""
    if not recs:
        return 0
    nchunks = chunks or min(NCPU, max(1, len(recs) // 4000))
    # split at restart points
    bounds = [0]
    target = len(recs) / nchunks
    for i in range(1, len(recs)):
        if i >= target * len(bounds) and restart(recs[i]) and len(bounds) < nchunks:
            bounds.append(i)
    bounds.append(len(recs))
    parts = [recs[bounds[i]:bounds[i + 1]] for i in range(len(bounds) - 1)]

    pre = list(prefix or [])

    def work(idx, part):
        accepted = 0
        rejects = []
        states = gen = 0
        rest = part
        it = 0
        while rest:
            p = run.path("%s-%d-%d.ndjson" % (name, idx, it))
            write_ndjson(p, pre + rest)
            r, furthest, n, other = _validate_once(spec, cfg, p, timeout, env=env, dfs=dfs)
            if furthest <= len(pre):
                raise InfraError("trace prefix itself rejected in %s" % p)
            furthest -= len(pre)
            n -= len(pre)
            states += r.distinct
            gen += r.generated
            if furthest >= n + 1 and not other:
                accepted += len(rest)
                break
            bad = rest[furthest - 1] if furthest - 1 < len(rest) else {"e": "?"}
            accepted += furthest - 1
            rejects.append((bad, p, furthest, other))
            it += 1
            nxt = furthest
            while nxt < len(rest) and not restart(rest[nxt]):
                nxt += 1
            rest = rest[nxt:]
            # drop later events that belong to an already-known finding (same predicate)
            k = match_known(run.known, bad) if isinstance(bad, dict) else None
            if k is not None:
                kept = []
                skip = False
                for rec in rest:
                    if restart(rec):
                        skip = match_known([k], rec) is not None
                        if skip:
                            rejects.append((rec, p, -1, []))
                    if not skip:
                        kept.append(rec)
                rest = kept
            if it >= max_rejects:
                rejects.append(({"e": "TooManyRejections", "left": len(rest)}, p, 0, []))
                break
        return accepted, rejects, states, gen

    results = parallel([(lambda i=i, part=part: work(i, part)) for i, part in enumerate(parts)])
    total = 0
    for accepted, rejects, states, gen in results:
        total += accepted
        run.states += states
        run.transitions += gen
        for bad, p, furthest, other in rejects:
            why = "trace %s rejected at line %d: %s" % (os.path.basename(p), furthest,
                                                       (describe(bad) if describe else json.dumps(bad))[:400])
            run.violation(bad, why)
    run.traces += len(parts)
    run.evaluations += len(recs)
    return total


def drive(run, exe, args, name, timeout=900, env=None):
    """Run a driver writing NDJSON events to out/<...>/<name>.ndjson. If the driver dies inside
    a library call (signal, sanitizer report, std::terminate) a Crash event is appended, for
    which no trace spec has an action: the trace is rejected exactly there."""
    out = run.path(name + ".ndjson")
    jr = run.path(name + ".journal")
    rc, log = run_driver(exe, list(args) + ["--out", out, "--journal", jr], timeout=timeout, env=env)
    recs = []
    if os.path.exists(out):
        with open(out) as f:
            for line in f:
                line = line.strip()
                if not line:
                    continue
                try:
                    recs.append(json.loads(line))
                except json.JSONDecodeError:
                    pass   # torn last line of a crashed run
    if rc == 3:
        raise InfraError("driver usage error: %s %s\n%s" % (exe, args, log[-2000:]))
    if rc != 0:
        op = open(jr).read().strip() if os.path.exists(jr) else ""
        lp = run.path(name + ".crashlog")
        open(lp, "w").write(log)
        kind = "Timeout" if rc == 124 else "Crash"
        recs.append({"e": kind, "rc": rc, "op": op, "flavour": os.path.basename(os.path.dirname(exe)),
                     "log": lp, "summary": _crash_summary(log)})
    return recs


def _crash_summary(log):
    for pat in (r"ERROR: AddressSanitizer: [^\n]*", r"runtime error: [^\n]*", r"WARNING: ThreadSanitizer: [^\n]*",
                r"terminate called[^\n]*\n[^\n]*", r"malloc\(\)[^\n]*", r"free\(\)[^\n]*", r"double free[^\n]*"):
        m = re.search(pat, log)
        if m:
            return m.group(0)[:300]
    return log[-300:]

# --------------------------------------------------------------------------------------
# Apalache (symbolic): inductive invariants for small specs over unbounded data
# --------------------------------------------------------------------------------------
def apalache(spec_path, inv, init="Init", length=1, cinit=None, outdir=None, timeout=900, next_=None):
    """returns "ok" (no error up to `length`), "violated", or raises InfraError"""
    outdir = outdir or tempfile.mkdtemp(prefix="apa.", dir=OUT if os.path.isdir(OUT) else None)
    cmd = ["timeout", str(timeout), "apalache-mc", "check", "--out-dir=" + outdir, "--init=" + init, "--inv=" + inv,
           "--length=%d" % length]
    if cinit:
        cmd.append("--cinit=" + cinit)
    if next_:
        cmd.append("--next=" + next_)
    cmd.append(spec_path)
    p = subprocess.run(cmd, cwd=os.path.dirname(spec_path), stdout=subprocess.PIPE, stderr=subprocess.STDOUT)
    out = p.stdout.decode("utf-8", "replace")
    shutil.rmtree(outdir, ignore_errors=True)
    if "EXITCODE: OK" in out:
        return "ok"
    if "EXITCODE: ERROR (12)" in out:
        return "violated"
    raise InfraError("apalache failed on %s / %s:\n%s" % (spec_path, inv, out[-2500:]))
