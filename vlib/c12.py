"""C12 — adaptive filters report a-priori errors, honour the lock, and converge.

Spec: Adaptive.tla (integer LMS recursion over Gaussian integers: plain-sum output of the coefficients held before
sample k, e = d - y, update mu*e*conj(x); lock as a two-state machine).  MC_Adaptive: every input/desired pair over a
3-letter complex alphabet x every lock/unlock schedule up to 3 samples: LockHolds, ErrorIsAPriori, UpdateRule.
Conformance (Trace_Adaptive): integer LMS (real, complex; mu 1, 2; random framings and lock schedules): TLC recomputes
y, e and coeffs() of every call exactly; general filters (LMS with leakage, NLMS, RLS; real, complex): e == d - y bit
for bit, locked => coeffs() bit-identical and output = plain FIR with coeffs(), first sample of every call = output of
the coefficients read before the call (a-priori); LMS/NLMS against the textbook recursion in long double, sample by sample,
with random lock phases (1e-8); NLMS/RLS identification to 1e-6 misalignment; real RLS = the
exponentially weighted, diagonally regularised least-squares solution (normal equations in long double)."""
from . import simple


def check(run, tier, seed, replay=None, only=None):
    quick = tier == "quick"
    run.extra["rule"] = ("exact: filter length 2-3, 7+ samples, values in -2..2; general: lengths 2..16, 4-14 calls of 1..40 samples, "
                         "random lock toggles; converge: lengths 2..64, NLMS mu 0.1..1.5, RLS lambda 0.9..0.999, load 1e-2..1e4; "
                         "rls-ls: lengths 2..8, horizons 1..3len+4; distinct = event records")
    run.trusted = ["TLC", "spec/Adaptive.tla", "long-double plain FIR / normal-equation references (T3 clauses)"]
    k = 1 if quick else 5
    stages = []
    for s in range(2 * k):
        stages.append(("exact-%d" % s, ["--mode", "exact", "--budget", 150, "--seed", seed * 100 + s]))
        stages.append(("general-%d" % s, ["--mode", "general", "--budget", 100, "--seed", seed * 100 + 20 + s]))
        stages.append(("converge-%d" % s, ["--mode", "converge", "--budget", 16 if quick else 40, "--seed", seed * 100 + 40 + s]))
    n = simple.run_check(run, tier, seed, replay, "adapt_drv", "Trace_Adaptive.tla",
                         [("MC_Adaptive.tla", "MC_Adaptive.cfg", "MC_Adaptive (lock holds, error is a-priori, update rule; all inputs x lock schedules)")],
                         stages, restart=lambda r: r.get("e") == "New" or r.get("e") == "Resid")
    run.clause("integer LMS: y, e, coeffs() of every call recomputed exactly; e = d - y; lock keeps coeffs() bit-identical", "T1", n or 0)
    run.clause("locked output = plain FIR with coeffs(); a-priori first sample; RLS = regularised LS; convergence 1e-6", "T3", n or 0)
