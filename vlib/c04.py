"""C04 — slices select and assign exactly the numpy-designated elements.

Spec: spec/Slice.tla.  MC_Slice: theorems (library index rule = Python's on the accepted domain,
in-range, copy denotes the same elements, same-array assignment = copy-first) + a small state
machine with the Frame action property.  Conformance: slice_drv enumerates the quantified domain on
the real arrays (rel flavour with guard zones, asan flavour with exact capacity) and Trace_Slice
validates every observation."""
from . import core


def _restart(rec):
    return rec.get("e") != "Assign" or rec.get("fresh", True)


def _describe(rec):
    keys = ("e", "kind", "et", "via", "n", "i1", "i2", "m", "rhs", "s1", "s2", "sm", "sn", "o", "vals", "arr",
            "guard", "op", "summary", "fresh")
    return str({k: rec[k] for k in keys if k in rec})


def check(run, tier, seed, replay=None, only=None):
    quick = tier == "quick"
    run.extra["rule"] = ("every (n,i1,i2,step) with n<=10, |i|<=n+3, |step|<=5 read in 11 ways on real and complex "
                         "arrays; assignments of scalar/array/list with rhs length count+{-1,0,1,3}; all same-array "
                         "slice pairs; random stateful sequences; random big arrays. distinct = distinct event records")
    run.trusted = ["TLC", "spec/Slice.tla operators", "JSON bridge", "harness/slice_drv.cpp tag encoding"]

    def mc():
        cfg = "MC_Slice_quick.cfg" if quick else "MC_Slice.cfg"
        return core.tlc("MC_Slice.tla", cfg, workers=4 if quick else 8, timeout=1200, extra=["-coverage", "1"])

    def drv(flavour):
        exe = core.build_driver("slice_drv", flavour)
        g = "1" if flavour == "rel" else "0"
        recs = []
        plan = [("read", 10, 0)]
        if flavour == "rel":
            plan += [("assign", 4 if quick else 8, 0), ("pairs", 5 if quick else 8, 0 if not quick else 0),
                     ("other", 8, 3000 if quick else 30000), ("random", 8, 4000 if quick else 60000),
                     ("big", 0, 400 if quick else 6000)]
        else:
            plan += [("assign", 3 if quick else 6, 0), ("pairs", 4 if quick else 6, 0),
                     ("other", 8, 1000 if quick else 10000), ("random", 8, 1500 if quick else 20000),
                     ("big", 0, 100 if quick else 1500)]
        for mode, nmax, budget in plan:
            if only and mode not in only and flavour not in only:
                continue
            r = core.drive(run, exe, ["--mode", mode, "--nmax", nmax, "--seed", seed, "--budget", budget,
                                      "--guard", g], "%s-%s" % (flavour, mode))
            for x in r:
                x["flavour"] = flavour
            recs.append((mode, r))
        return recs

    if replay is not None:
        case = replay.get("case", {})
        core.build_driver("slice_drv", "rel")
        core.validate_trace(run, "Trace_Slice.tla", [case], "replay", restart=_restart, describe=_describe)
        return

    jobs = [mc, lambda: drv("rel"), lambda: drv("asan")]
    if only and "nomc" in only:
        jobs = jobs[1:]
    res = core.parallel(jobs, 3)
    if not (only and "nomc" in only):
        r = res[0]
        run.add_tlc(r, "MC_Slice (theorems T0-T4 + Frame/LenStable)")
        cov = r.coverage()
        for act in ("DoScalar", "DoSame", "DoSeq"):
            if act in cov and cov[act][0] == 0:
                raise core.InfraError("vacuous model: action %s never taken" % act)
        run.extra["mc_coverage"] = {k: list(v) for k, v in cov.items()}
        res = res[1:]
    nrecs = 0
    for recsets in res:
        for mode, recs in recsets:
            if not recs:
                continue
            fl = recs[0].get("flavour", "?")
            core.validate_trace(run, "Trace_Slice.tla", recs, "%s-%s" % (fl, mode), restart=_restart,
                                describe=_describe)
            nrecs += len(recs)
            for x in recs[:1] + recs[len(recs) // 2:len(recs) // 2 + 1]:
                run.sample({k: v for k, v in x.items() if k != "flavour"}, limit=10)
            for x in recs:
                run.nontrivial.add((x.get("e"), x.get("kind"), x.get("et"), x.get("n"), x.get("i1"), x.get("i2"),
                                    x.get("m"), x.get("s1"), x.get("s2"), x.get("sm"), len(x.get("rhs", []))))
    run.clause("accept/reject + elements = Python's", "T1", nrecs)
    run.exhaustive = True
