"""C03 — element-wise array arithmetic, type promotion and value semantics.

Spec: ArrayAlg.tla (field formulas on Gaussian integers, Promote, element-wise result predicates, Concat,
SelMask, SelIdx, value-semantics Step over a 3-variable environment).  MC_ArrayAlg: every program of depth 3
over copy/compound/binary/neg/cat/set keeps arrays well-formed, changes only its destination, leaves everything
alone when it throws, and a copy equals its source.  Conformance (Trace_Array): the full operator table
(array-array, compound, scalar on either side for real/int/cmplx_t/std::complex, alias forms, unary, |, |=,
self |=, concatenate with empty operands, mask / index-list selection) on Gaussian-integer data in the rel
and ASan+UBSan builds; random value-semantics programs validated step by step; wide-magnitude operations
against a long-double interpreter (T3)."""
from . import core


def describe(b):
    return str({k: v for k, v in b.items() if k != "log"})[:600]


def check(run, tier, seed, replay=None, only=None):
    quick = tier == "quick"
    run.extra["rule"] = ("operator table: 4 ops x {AA, compound AA, alias, AS, SA, compound AS} x type pairings x lengths 0..3 "
                         "(+ mismatched lengths) with curated divisors so that quotients are exact; programs of 2-6 steps over 3 "
                         "variables; wide: random magnitudes 1e-100..1e100 and signed zeros; distinct = event records")
    run.trusted = ["TLC", "spec/ArrayAlg.tla", "driver Gaussian-integer encoding",
                   "long-double interpreter with the library's textbook product/quotient formulas (T3 clause only)"]
    if replay is not None:
        core.validate_trace(run, "Trace_Array.tla", [replay.get("case", {})], "replay", describe=describe)
        return
    stages = []
    for fl in ("rel", "asan"):
        for s in range(2 if quick else 6):
            stages.append((fl, "table-%d" % s, ["--mode", "table", "--budget", 2 if quick else 6, "--seed", seed * 100 + s]))
        for s in range(2 if quick else 6):
            stages.append((fl, "program-%d" % s, ["--mode", "program", "--budget", 1500 if quick else 8000, "--seed", seed * 100 + 20 + s]))
    for s in range(2 if quick else 6):
        stages.append(("rel", "wide-%d" % s, ["--mode", "wide", "--budget", 300 if quick else 3000, "--seed", seed * 100 + 40 + s]))
    exes = {fl: core.build_driver("array_drv", fl) for fl in ("rel", "asan")}

    def mc():
        return core.tlc("MC_ArrayAlg.tla", "MC_ArrayAlg.cfg" if quick else "MC_ArrayAlg_full.cfg", workers=4, timeout=1500, heap="8g")

    res = core.parallel([mc] + [lambda fl=fl, n=n, a=a: core.drive(run, exes[fl], a, fl + "-" + n) for fl, n, a in stages])
    run.add_tlc(res[0], "MC_ArrayAlg (well-formed, only destination changes, throw changes nothing, copy equals source)")
    n = 0
    for (fl, name, args), recs in zip(stages, res[1:]):
        core.validate_trace(run, "Trace_Array.tla", recs, fl + "-" + name, restart=lambda r: r.get("e") != "ProgStep",
                            describe=describe)
        n += len(recs)
        if recs:
            run.sample({"stage": fl + "-" + name, "event": recs[len(recs) // 3]}, limit=8)
    run.nontrivial = set(range(n))
    run.clause("operator table on Gaussian integers: elements, promotion, throw on length mismatch, operands unchanged", "T1", n)
    run.clause("value-semantics programs (copy independence, aliasing a op= a, a |= a)", "T1", n)
    run.clause("wide magnitudes / signed zeros vs long double textbook formulas (8 ulp of term scale)", "T3", n)
    run.exhaustive = True
