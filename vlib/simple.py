"""Shared body for the 'driver stages -> one Trace spec + one MC' checks."""
from . import core


def describe(b):
    return str({k: (v if not isinstance(v, list) or len(v) < 14 else v[:14] + ["..."]) for k, v in b.items() if k != "log"})[:600]


def run_check(run, tier, seed, replay, driver, trace_spec, mcs, stages, flavour="rel", restart=None, timeout=1500,
              chunks=None, stage_flavours=None):
    """mcs: list of (spec, cfg, what); stages: list of (name, args) or (name, args, flavour)"""
    if replay is not None:
        core.validate_trace(run, trace_spec, [replay.get("case", {})], "replay", describe=describe)
        return 0
    norm = []
    for st in stages:
        norm.append((st[0], st[1], st[2] if len(st) > 2 else flavour))
    exes = {fl: core.build_driver(driver, fl) for fl in set(s[2] for s in norm)}
    jobs = [lambda m=m: core.tlc(m[0], m[1], workers=4, timeout=3000, heap="8g") for m in mcs]
    jobs += [lambda n=n, a=a, fl=fl: core.drive(run, exes[fl], a, fl + "-" + n, timeout=timeout) for n, a, fl in norm]
    res = core.parallel(jobs)
    for m, r in zip(mcs, res[:len(mcs)]):
        run.add_tlc(r, m[2])
    n = 0
    for (name, args, fl), recs in zip(norm, res[len(mcs):]):
        core.validate_trace(run, trace_spec, recs, fl + "-" + name, describe=describe, timeout=timeout,
                            restart=restart or (lambda r: True), chunks=chunks if chunks else (1 if len(recs) < 4000 else None))
        n += len(recs)
        if recs:
            run.sample({"stage": fl + "-" + name,
                        "event": {k: (v if not isinstance(v, list) else v[:10]) for k, v in recs[len(recs) // 2].items()}}, limit=8)
    run.nontrivial = set(range(n))
    return n
