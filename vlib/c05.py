"""C05 — no call corrupts memory or hangs: misuse is reported by exception.

Spec: ApiContract.tla (outcome alphabet {ret, throw}; MustThrow / MustReturn per entry point and length relation).
MC_ApiContract: the contract is consistent (no case must both throw and return) and the construct-then-call program
space over the boundary-directed length relations {0,1,2,3,n-1,n,n+1,2n} is enumerated as a state graph.
Conformance (Trace_Api): harness/misuse_drv.cpp executes ~4 400 call cases per base length (n = 7 and 16: primes,
composites and power-of-two plans) covering the operators, comparisons, index lists with entries from -n..n+2 and empty
lists, slice right-hand sides of every length, plans applied to other lengths, filters, resamplers, windows, designs,
spectra, detector, dynamics, prime helpers at the word boundaries, slice requests at every
boundary index with steps +-1, +-2 (rejection rule of Slice.tla), printing, and NaN / +Inf / -Inf sample values into 24 groups
of entry points — each in a forked child of the ASan+UBSan build
(NDEBUG, so DSPLIB_ASSUME is live) and of the rel build under a 20 s alarm; an ASan/UBSan report, a signal or a timeout
is an outcome outside the alphabet and the trace is rejected at that call.  Memory safety and UB freedom are observed
by the sanitizers on spec-enumerated executions, not derived from the model (DESIGN.md section 8)."""
from . import simple


def check(run, tier, seed, replay=None, only=None):
    quick = tier == "quick"
    run.extra["rule"] = "every entry point x length relation pair (a, b) in {0,1,2,3,n-1,n,n+1,2n}^2 for n in {7, 16} (+ 5, 12, 31 thorough); distinct = (entry, p) cases"
    run.trusted = ["TLC", "spec/ApiContract.tla", "AddressSanitizer + UndefinedBehaviorSanitizer (clang 14) as the memory/UB monitor",
                   "fork()/alarm() isolation in harness/misuse_drv.cpp"]
    stages = []
    for n in ([7, 16] if quick else [5, 7, 12, 16, 31]):
        stages.append(("n%d" % n, ["--n", n, "--seed", seed, "--timeout", 20], "asan"))
        stages.append(("n%d" % n, ["--n", n, "--seed", seed, "--timeout", 20], "rel"))
    n = simple.run_check(run, tier, seed, replay, "misuse_drv", "Trace_Api.tla",
                         [("MC_ApiContract.tla", "MC_ApiContract.cfg", "MC_ApiContract (contract consistent; program space enumerated)")],
                         stages, timeout=2400)
    run.clause("outcome in {ret, throw}; mandatory throw / mandatory return per contract", "T1", n or 0)
    run.clause("no sanitizer report, signal or timeout in any enumerated call", "observed (ASan/UBSan/alarm)", n or 0)
    run.exhaustive = True
