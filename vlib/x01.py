"""X01 (growth, not one of the listed properties) — utilities of include/dsplib/utils.h and small predicates.

Specs: Codec.tla (from_file byte decoding as a reading loop + closed form; interleaved real<->complex conversions;
sign / issorted), Peaks.tla (findpeaks as a pick-and-erase loop).  MC_Codec16/32: the loop equals the closed
form, item ranges, count bound, termination for every small file; MC_Peaks: what the loop guarantees (heights are
original samples, non-increasing, local maxima up to erased regions) for every small array.  `asis` configs must
fail (vacuity guards).  Conformance (Trace_Util): recorded calls of the real functions on exhaustive small inputs and
random inputs must equal the definitions.

Reported as EXTRA-VIOLATION (never as a VIOLATION of a listed property); evidence goes to evidence-extra/."""
import os
from . import core
from .simple import describe


def check(run, tier, seed, replay=None, only=None):
    quick = tier == "quick"
    run.extra["rule"] = ("from_file: every file over {1,128,255} up to 5 bytes x offsets -1..5 x counts -1..3 (16 bit), patterned "
                         "files up to 9 bytes for all four types, default count, missing file, random files up to 64 bytes; "
                         "to_complex/from_complex/to_real/from_real for int16,int32,float,double lengths 0..7 + random; findpeaks: every "
                         "array over 0..3 up to length 5 with npeaks 0..3 + random; sign/issorted/anynan/anyinf on every array over "
                         "{-1,0,1} up to length 4.  distinct = event records")
    run.trusted = ["TLC", "spec/Codec.tla", "spec/Peaks.tla", "driver encoding of values as 16-bit words"]
    if replay is not None:
        core.validate_trace(run, "Trace_Util.tla", [replay.get("case", {})], "replay", describe=describe)
        return
    exe = core.build_driver("util_drv", "rel")
    exa = core.build_driver("util_drv", "asan")
    tmp = run.path("tmp")
    os.makedirs(tmp, exist_ok=True)
    mcs = [("MC_Codec.tla", "MC_Codec16.cfg"), ("MC_Codec.tla", "MC_Codec32.cfg"), ("MC_Peaks.tla", "MC_Peaks.cfg")]
    guards = [("MC_Codec.tla", "MC_Codec_asis.cfg"), ("MC_Peaks.tla", "MC_Peaks_asis.cfg")]
    stages = [("small", exe, ["--mode", "small", "--tmp", tmp, "--seed", seed]),
              ("small-asan", exa, ["--mode", "small", "--tmp", tmp, "--seed", seed + 1])]
    for s in range(2 if quick else 8):
        stages.append(("random-%d" % s, exe if s % 2 == 0 else exa,
                       ["--mode", "random", "--tmp", tmp, "--seed", seed * 100 + s, "--budget", 150 if quick else 600]))
    jobs = [lambda m=m: core.tlc(m[0], m[1], workers=4, timeout=1500, heap="6g") for m in mcs + guards]
    jobs += [lambda n=n, e=e, a=a: core.drive(run, e, a, n, timeout=900) for n, e, a in stages]
    res = core.parallel(jobs)
    for m, r in zip(mcs, res[:len(mcs)]):
        run.add_tlc(r, "%s/%s" % m)
    for g, r in zip(guards, res[len(mcs):len(mcs) + len(guards)]):
        if r.infra_failure:
            raise core.InfraError("%s failed to run:\n%s" % (g[1], r.out[-2000:]))
        run.states += r.distinct
        run.transitions += r.generated
        if not r.inv_violated:
            run.violation({"e": "Guard", "cfg": g[1]}, "vacuity guard %s no longer fails: the model lost its bite" % g[1])
    n = 0
    for (name, e, a), recs in zip(stages, res[len(mcs) + len(guards):]):
        core.validate_trace(run, "Trace_Util.tla", recs, name, describe=describe, timeout=1500)
        n += len(recs)
        if recs:
            run.sample({"stage": name, "event": {k: (v if not isinstance(v, list) else v[:10]) for k, v in recs[len(recs) // 3].items()}}, limit=8)
    run.nontrivial = set(range(n))
    run.clause("from_file = Decode (offset, count, partial tail, endianness, signedness); missing file throws", "T1", n)
    run.clause("to_complex/from_complex interleaving, odd length throws, round trips", "T1", n)
    run.clause("findpeaks = pick-and-erase definition", "T1", n)
    run.clause("sign, issorted, anynan, anyinf", "T1", n)
    run.exhaustive = True
