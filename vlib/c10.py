"""C10 — transform results do not depend on call history; plan caching is transparent.

Spec: spec/PlanCache.tla (definitional LRU `Touch`, statement-level `MRU` over the access history,
list+map implementation model).  MC_PlanCache: universal model (any thread, any key) with invariants
Inv (<= Cap, no duplicates, = most recently used), Refines (list+map = definition), Confined.
Conformance: cache_drv runs every request sequence up to a length bound in a fresh thread; the hook
reports every cache access with the key list after it; Trace_PlanCache steps the model with the
*observed* accesses and checks key lists, capacity, thread ownership and result = fresh-thread result."""
import os
import re
from . import core


def _cap(flavour):
    bdir = core.build_lib(flavour)
    m = re.search(r"DSPLIB_FFT_CACHE_SIZE:STRING=(\d+)", open(os.path.join(bdir, "CMakeCache.txt")).read())
    if not m:
        raise core.InfraError("cannot determine DSPLIB_FFT_CACHE_SIZE")
    return int(m.group(1))


def _restart(rec):
    return rec.get("e") == "Reset"


def _split(recs):
    """prefix Config to every chunk: handled by making Config a restart point of chunk 0 and
    re-inserting it by validate_trace's caller"""
    return recs


def check(run, tier, seed, replay=None, only=None):
    quick = tier == "quick"
    run.extra["rule"] = ("request sequences over 6-length alphabets (complex: 6,12,15,16,21,43; real: 12,15,30,32,42,86), "
                         "each sequence in a fresh thread, all sequences up to the length bound; random sequences over 40 "
                         "lengths with long-lived plan objects. distinct = distinct (family, sequence) executed")
    run.trusted = ["TLC", "spec/PlanCache.tla", "hook lib/fft/fft.cpp (DSPLIB_VERIF) reporting keys after each access",
                   "fresh-thread reference results computed by the same library"]

    def mc(cfg):
        return lambda: core.tlc("MC_PlanCache.tla", cfg, workers=4, timeout=1500, heap="8g")

    flavours = ["rel", "cache1"] if quick else ["rel", "cache1", "cache2"]
    maxlen = 4 if quick else 6

    def drv(flavour, mode, family, shard, nshards):
        exe = core.build_driver("cache_drv", flavour)
        cap = _cap(flavour)
        args = ["--mode", mode, "--family", family, "--cap", cap, "--seed", seed + shard,
                "--maxlen", (maxlen if flavour == "rel" else min(maxlen, 5)) - (1 if family in ("C2", "R2") else 0),
                "--shard", shard, "--nshards", nshards,
                "--budget", (2000 if quick else 10000) // nshards]
        return core.drive(run, exe, args, "%s-%s-%s-%d" % (flavour, mode, family, shard))

    if replay is not None:
        case = replay.get("case", {})
        pre = case.get("context", [])
        core.validate_trace(run, "Trace_PlanCache.tla", pre + [case], "replay", restart=lambda r: True)
        return

    # unbounded complement to TLC's bounded model: the list+map cache invariant is INDUCTIVE (Apalache, integer keys, any
    # history length, Cap 1..4), every step is the definitional LRU step, and a cache that evicts one access late is refuted
    spec = os.path.join(core.SPEC, "apalache", "LruInd.tla")
    bad = run.path("LruBad.tla")
    open(bad, "w").write(open(spec).read().replace("MODULE LruInd", "MODULE LruBad")
                         .replace("IF Cardinality(m1) > Cap\n", "IF Cardinality(m1) > Cap + 1\n"))
    apa = core.parallel([lambda: core.apalache(spec, "IndInv", init="Init", length=0, cinit="CInit"),
                         lambda: core.apalache(spec, "IndInv", init="IndInit", cinit="CInit"),
                         lambda: core.apalache(spec, "StepIsTouch", init="IndInit", cinit="CInit"),
                         lambda: core.apalache(spec, "FrontIsLast", init="IndInit", cinit="CInit"),
                         lambda: core.apalache(bad, "IndInv", init="IndInit", cinit="CInit")])
    run.extra["apalache_inductive"] = {"Init=>IndInv": apa[0], "IndInv/\\Next=>IndInv'": apa[1], "StepIsTouch": apa[2],
                                       "FrontIsLast": apa[3], "late-eviction variant (must be violated)": apa[4]}
    if apa[:4] != ["ok"] * 4:
        run.violation({"e": "Apalache", "results": apa}, "the LRU invariant is not inductive for the list+map model: %s" % apa)
    if apa[4] != "violated":
        raise core.InfraError("vacuity guard: Apalache must refute the late-eviction cache, got %s" % apa[4])
    mcjobs = [mc("MC_PlanCache_quick.cfg"), mc("MC_PlanCache_cap1.cfg")]
    if not quick:
        mcjobs += [mc("MC_PlanCache.cfg"), mc("MC_PlanCache_cap4.cfg")]
    djobs = []
    nsh = 2 if quick else 6
    for fl in flavours:
        if quick and fl != "rel":   # the configured capacity is honoured (a quarter of the sequences; all of them in thorough)
            djobs += [(fl, "seqs", "C", 0, 4), (fl, "seqs", "R", 1, 4), (fl, "random", "C", 0, 4)]
            continue
        for fam in ("C", "R"):
            for s in range(nsh):
                djobs.append((fl, "seqs", fam, s, nsh))
        for fam in ("C2", "R2"):   # Bluestein primes sharing a padded length; real lengths chained by n/2+1 = m, rejected odd requests
            djobs.append((fl, "seqs", fam, 0, 1))
        for s in range(2 if quick else 4):
            djobs.append((fl, "random", "C", s, 2 if quick else 4))
    for fl in set(f for f, *_ in djobs):
        core.build_driver("cache_drv", fl)
    res = core.parallel(mcjobs + [(lambda j=j: drv(*j)) for j in djobs])
    for r, cfg in zip(res[:len(mcjobs)], ["quick", "cap1", "full", "cap4"]):
        run.add_tlc(r, "MC_PlanCache/%s (Inv, Refines, Confined)" % cfg)
    nseq = 0
    bitdiff = 0
    for j, recs in zip(djobs, res[len(mcjobs):]):
        if recs and recs[0].get("e") == "Config":
            cfgev, body = [recs[0]], recs[1:]
        else:
            cfgev, body = [{"e": "Config", "cap": _cap(j[0])}], recs
        core.validate_trace(run, "Trace_PlanCache.tla", body, "%s-%s-%s-%d" % (j[0], j[1], j[2], j[3]),
                            restart=_restart, chunks=2 if len(body) > 8000 else 1, prefix=cfgev,
                            describe=lambda b: str({k: v for k, v in b.items() if k != "log"}))
        nseq += sum(1 for r in body if r.get("e") == "Reset")
        bitdiff += sum(r.get("bitdiff", 0) for r in body if r.get("e") == "Stat")
        if j[3] == 0:
            k = next((i for i, r in enumerate(body) if r.get("e") == "Reset" and i > 40), 0)
            run.sample({"flavour": j[0], "mode": j[1], "family": j[2], "events": body[k:k + 12]}, limit=6)
    run.extra["sequences_executed"] = nseq
    run.extra["results_not_bit_identical_to_fresh"] = bitdiff
    run.nontrivial = set(range(nseq))
    run.clause("cache = Cap most recently used keys after every access", "T1", run.evaluations)
    run.clause("result = fresh-thread result (4 n eps)", "T1m", nseq)
    run.exhaustive = True
