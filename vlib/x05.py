"""X05 (growth, not one of the listed properties) — the planning arithmetic of the resamplers.

ResamplePlan.tla: ratio reduction, the converter the FIRResampler wrapper builds, the tap count of the default design
(order 2PR, +1 in the odd case, last tap dropped otherwise), the polyphase layout (zero padding to a multiple of m, branch i
= taps i, i+m, ..., optional reversal), the reported delay of each converter, and the one-shot resample() plan: padded
input, flush length rounded up, slice [delay, delay + ny).  MC_ResamplePlan (every p, q <= 12, default designs P <= 4,
prototype lengths <= 60, input lengths <= 40): the reduced ratio is the ratio, the design has whole branches, the polyphase
map is a bijection onto branch positions with zero padding, and the flush ALWAYS suffices (the slice lies inside what the
converter produced).  Vacuity guard: with the flush length rounded down TLC finds a slice past the end.  Conformance
(Trace_ResamplePlan): wrappers from prototypes of 1..200 taps at ratios <= 16 (+ audio ratios, unreduced), their delay
and rates; design lengths; polyphase branches on integer taps (exact); resample() output lengths without exceptions.

Reported as EXTRA-VIOLATION; evidence in evidence-extra/."""
from . import core
from .simple import describe


def check(run, tier, seed, replay=None, only=None):
    quick = tier == "quick"
    run.extra["rule"] = "ratios <= 16 + audio ratios x multipliers 1..3, prototypes 1..200 taps, P 1..14, polyphase m 1..9; distinct = event records"
    run.trusted = ["TLC", "spec/ResamplePlan.tla", "driver: integer taps with power-of-two sum"]
    if replay is not None:
        raise core.InfraError("replay for X05: re-run bin/check X05 --seed %s" % replay.get("seed"))
    exe = core.build_driver("resplan_drv", "rel")
    stages = [("plan-%d" % s, ["--budget", 200 if quick else 1500, "--seed", seed * 100 + s]) for s in range(2 if quick else 6)]
    jobs = [lambda: core.tlc("MC_ResamplePlan.tla", "MC_ResamplePlan.cfg", workers=4, timeout=1200),
            lambda: core.tlc("MC_ResamplePlan.tla", "MC_ResamplePlan_down.cfg", workers=2, timeout=600)]
    jobs += [lambda n=n, a=a: core.drive(run, exe, a, n, timeout=900) for n, a in stages]
    res = core.parallel(jobs)
    run.add_tlc(res[0], "MC_ResamplePlan (reduction, design branches, polyphase bijection, flush suffices)")
    g = res[1]
    if g.infra_failure:
        raise core.InfraError("guard failed to run:\n" + g.out[-2000:])
    run.states += g.distinct
    run.transitions += g.generated
    if not g.inv_violated:
        run.violation({"e": "Guard", "cfg": "MC_ResamplePlan_down.cfg"}, "rounding the flush down no longer breaks FlushDownOK: the model lost its bite")
    n = 0
    for (name, a), recs in zip(stages, res[2:]):
        core.validate_trace(run, "Trace_ResamplePlan.tla", recs, name, restart=lambda r: True, describe=describe)
        n += len(recs)
        if recs:
            run.sample({"stage": name, "event": recs[0]}, limit=4)
    run.nontrivial = set(range(n))
    run.clause("delay, rates, design length, polyphase layout and one-shot output length are the plan's", "T1", n)
    run.exhaustive = False
