"""X04 (growth, not one of the listed properties) — the harmonic analysis behind snr / thd / sinad.

C19 judges thd and sinad on clean sinusoids only.  HarmSearch.tla transcribes lib/snr.cpp operator by operator on integer
power spectra: the peak walk, the strictly decreasing flanks, lobe power and first moment, the search start of harmonic h at
round(h * centroid) (optionally folded into the first Nyquist zone, stopping beyond it), erasing of found lobes, the median
noise floor and the noise power.  MC_HarmSearch runs the peak walk as a loop over EVERY spectrum of 5 (quick) / 6
(thorough) bins and every start bin: it terminates under WF within SLen steps at the bin LocatePeak names, a local maximum
not lower than the start; lobes are unimodal and maximal; the analysis moves power without losing any and erases every
lobe.  Vacuity guard: the "plateau" walk (steps onto equal neighbours) must violate Terminates.  Conformance
(Trace_HarmSearch): thd and snr on random integer spectra of 6..32 bins with lobes at a fundamental and (folded)
multiples, flat tops, ties and zeros, SinadType Power / Psd, aliased or not; TLC evaluates every outcome floating point may
produce at exact ties and requires one to explain all reported powers (exact), frequencies (1e-4) and the snr ratio (2e-3).
A call that does not return within 20 s is recorded and rejected.

Reported as EXTRA-VIOLATION; evidence in evidence-extra/."""
from . import core
from .simple import describe


def check(run, tier, seed, replay=None, only=None):
    quick = tier == "quick"
    run.extra["rule"] = "integer spectra of 6..32 bins, nharm 2..5, aliased both, SinadType Power/Psd; distinct = event records"
    run.trusted = ["TLC", "spec/HarmSearch.tla", "driver: powers recovered from dB by rounding, frequencies to 1e-4"]
    if replay is not None:
        raise core.InfraError("replay for X04: re-run bin/check X04 --seed %s" % replay.get("seed"))
    exe = core.build_driver("harm_drv", "rel")
    mcs = [("MC_HarmSearch.tla", "MC_HarmSearch.cfg" if quick else "MC_HarmSearch_full.cfg")]
    guard = ("MC_HarmSearch.tla", "MC_HarmSearch_plateau.cfg")
    stages = [("harm-%d" % s, ["--budget", 400 if quick else 3000, "--seed", seed * 100 + s]) for s in range(2 if quick else 6)]
    jobs = [lambda m=m: core.tlc(m[0], m[1], workers=4, timeout=1200) for m in mcs + [guard]]
    jobs += [lambda n=n, a=a: core.drive(run, exe, a, n, timeout=900) for n, a in stages]
    res = core.parallel(jobs)
    run.add_tlc(res[0], "%s/%s" % mcs[0])
    g = res[1]
    if g.infra_failure:
        raise core.InfraError("guard failed to run:\n" + g.out[-2000:])
    run.states += g.distinct
    run.transitions += g.generated
    if "Terminates was violated" not in g.out:
        run.violation({"e": "Guard", "cfg": guard[1]}, "the plateau walk no longer violates Terminates: the model lost its bite")
    n = 0
    for (name, a), recs in zip(stages, res[2:]):
        core.validate_trace(run, "Trace_HarmSearch.tla", recs, name, restart=lambda r: True, describe=describe)
        n += len(recs)
        if recs:
            run.sample({"stage": name, "event": recs[0]}, limit=4)
    run.nontrivial = set(range(n))
    run.clause("reported harmonic powers, frequencies and snr ratio are an outcome of the transcribed analysis", "T1", n)
    run.exhaustive = False
