"""C17 — elementary and reduction functions return their mathematical values.

Spec: MathShapes.tla (integer arange as "start + k*step strictly before stop", repelem / flip / upsample / downsample /
zeropad / delayseq index maps, reductions on integer data, angle lattice in multiples of pi/4 with signed zeros).
MC_MathShapes: round trip downsample(upsample) for all small arrays/factors/phases, arange maximality, flip involution,
delayseq index law; a machine chaining the shape operators.  Conformance (Trace_Math): integer arange for every
start/stop/step in [-12,12], fractional arange with integral count, linspace n = 1..100, shape utilities for every
factor/phase with n <= 12 and round trips (T1); reductions on integer lattices incl. rms^2 n and stddev^2 (n-1) n (T1);
lattice values of transcendental functions (angle on axes/diagonals incl. -0, dB/degree conversions, log2, integer powers
of lattice points) within 4 ulp (T2); every function on log-uniform magnitudes 1e-100..1e100 vs long double (T3)."""
from . import simple


def check(run, tier, seed, replay=None, only=None):
    quick = tier == "quick"
    run.extra["rule"] = ("shapes: exhaustive small scope (~19k cases); reduce: random integer arrays of length 1..60; lattice: "
                         "fixed ~500 points; wide: random arguments of every function; distinct = event records")
    run.trusted = ["TLC", "spec/MathShapes.tla", "long-double libm references (T3 clauses)"]
    k = 1 if quick else 6
    stages = [("shapes", ["--mode", "shapes", "--seed", seed]), ("lattice", ["--mode", "lattice"])]
    for s in range(2 * k):
        stages.append(("reduce-%d" % s, ["--mode", "reduce", "--budget", 400, "--seed", seed * 100 + s]))
        stages.append(("wide-%d" % s, ["--mode", "wide", "--budget", 300 if quick else 1500, "--seed", seed * 100 + 30 + s]))
    n = simple.run_check(run, tier, seed, replay, "math_drv", "Trace_Math.tla",
                         [("MC_MathShapes.tla", "MC_MathShapes.cfg", "MC_MathShapes (index-map theorems, shape chains)")], stages)
    run.clause("arange / linspace / repelem / flip / up-downsample / zeropad / delayseq shapes and values; integer reductions", "T1", n or 0)
    run.clause("lattice values (multiples of pi/4, 10 dB, 45 degrees, integer powers) within 4 ulp", "T2", n or 0)
    run.clause("random wide-magnitude arguments vs long double, 8 ulp of the result's scale (condition-scaled)", "T3", n or 0)
    run.exhaustive = True
