"""C08 — multirate converters equal the zero-stuff / filter / decimate definition.

Spec: Multirate.tla (ChainAt, OutLen, NextSize/PrevSize, ResampleLen; implementation-shaped polyphase
decimator / interpolator / rate converter).  MC: for every coprime L/M in scope a fixed textbook phase
exists and the implementation shape equals the chain for all framings (MC_Stream with CasesMulti).
Conformance (Trace_Stream): every reduced ratio on integer data (impulses + random), the phase inferred
by TLC at the first call and held; output counts; rejection of non-multiples; FIRResampler with
unreduced ratios; resample() length rule, identity for p = q and alignment of a band-limited probe."""
from . import core
from .c06 import describe, stream_stage


def check(run, tier, seed, replay=None, only=None):
    quick = tier == "quick"
    run.extra["rule"] = ("all coprime L/M <= 8 (quick) / 16 + audio ratios (thorough), symmetric integer h with power-of-two "
                         "sum of 3 lengths each, impulse + random integer inputs over two calls, class and FIRResampler wrapper; "
                         "resample(): random p,q <= 16 + audio ratios, lengths 1..1200; distinct = event records")
    run.trusted = ["TLC", "spec/Multirate.tla", "driver integer encoding (outputs scaled by sum(h))",
                   "analytic band-limited probe for the alignment clause"]
    if replay is not None:
        raise core.InfraError("replay for C08: deterministic, re-run bin/check C08 --seed %s" % replay.get("seed"))

    def mc():
        return core.tlc("MC_Stream.tla", "MC_Multi.cfg" if quick else "MC_Multi_full.cfg", workers=6, timeout=3000, heap="8g")

    nsh = 6 if quick else 16
    stages = []
    for s in range(nsh):
        stages.append(("multi8-%d" % s, ["--mode", "multi8", "--k", 8 if quick else 16, "--sets", 0 if quick else 1,
                                         "--seed", seed * 100 + s, "--shard", s, "--nshards", nsh]))
    for s in range(4 if quick else 8):
        stages.append(("exact-%d" % s, ["--mode", "exact", "--k", 7 if quick else 10, "--sets", 1, "--seed", seed * 100 + 30 + s,
                                        "--proc", ["decim", "interp", "rate", "resampler"][s % 4]]))
    for s in range(2 if quick else 6):
        stages.append(("resample-%d" % s, ["--mode", "resample", "--k", 16, "--budget", 250 if quick else 1500,
                                           "--seed", seed * 100 + 60 + s]))
    stages.append(("huge-0", ["--mode", "huge", "--budget", 1 if quick else 3, "--seed", seed * 100 + 90]))
    core.build_driver("stream_drv", "rel")
    res = core.parallel([mc] + [lambda n=n, a=a: stream_stage(run, n, a, timeout=1500) for n, a in stages])
    run.add_tlc(res[0], "MC_Stream/Multi (fixed textbook phase exists; polyphase impl = chain for all framings)")
    n = 0
    for (name, args), recs in zip(stages, res[1:]):
        core.validate_trace(run, "Trace_Stream.tla", recs, name, restart=lambda r: r.get("e") not in ("Process", "Drop"),
                            describe=describe, timeout=1500)
        n += len(recs)
        news = [r for r in recs if r.get("e") in ("New", "Resample")]
        if news:
            i = recs.index(news[len(news) // 2])
            run.sample({"stage": name, "events": recs[i:i + 3]}, limit=8)
    run.nontrivial = set(range(n))
    run.clause("polyphase converters = textbook chain at one fixed phase (integer data)", "T1", n)
    run.clause("len*L/M outputs per call; non-multiples rejected; next/prev_size; resample length; p=q identity", "T1", n)
    run.clause("resample alignment within one output sample (band-limited probe)", "T2", n)
    run.exhaustive = True
