"""C19 — noise injection and SNR/THD measurement are calibrated; random streams reproduce.

Spec: Random.tla (per-thread generator = (seed, calls since seeding); canon memo: values are a function of that history
only; a fresh thread starts as seed 0).  MC_Random: two threads seeding/drawing in every interleaving keep the memo
consistent with per-thread engines; with one shared engine the invariant fails (vacuity guard).  Conformance
(Trace_Random): seeds 0..S, each replayed 4 times (main thread and fresh threads) after different pre-seed histories with
interleaved rand / randn / randi / awgn calls of small and odd counts: TLC checks every draw against the memo (digest +
first value, bit exact); randi inside inclusive bounds incl. single-value and negative ranges and reaching both ends;
awgn noise power within 6 standard errors (real, complex incl. unequal I/Q power, -10..80 dB, powers over 120 dB);
thd within 0.1 dB, harmonic frequencies within 0.1 bin, sinad within 1.5 dB on sinusoids with 1..5 harmonics at
-10..-40 dBc; snr/sinad/thd invariant under positive scaling."""
from . import core, simple


def check(run, tier, seed, replay=None, only=None):
    quick = tier == "quick"
    run.extra["rule"] = "see docstring; distinct = event records"
    run.trusted = ["TLC", "spec/Random.tla", "FNV-1a digest of the returned bytes", "analytic harmonic powers / requested noise power"]
    asis = core.tlc("MC_Random.tla", "MC_Random_shared.cfg", workers=2, timeout=300)
    if asis.infra_failure or not asis.inv_violated:
        raise core.InfraError("vacuity guard: shared-engine model must violate Deterministic\n" + asis.out[-1500:])
    run.states += asis.distinct
    run.transitions += asis.generated
    run.extra["shared_engine_model_fails_as_documented"] = True
    k = 1 if quick else 4
    stages = [("repro", ["--mode", "repro", "--budget", 120 if quick else 1000, "--seed", seed])]
    for s in range(2 * k):
        stages.append(("randi-%d" % s, ["--mode", "randi", "--budget", 60, "--seed", seed * 100 + s]))
        stages.append(("awgn-%d" % s, ["--mode", "awgn", "--budget", 40 if quick else 80, "--maxlen", 100000 if quick else 1000000, "--seed", seed * 100 + 20 + s]))
        stages.append(("meas-%d" % s, ["--mode", "meas", "--budget", 25 if quick else 60, "--maxlen", 131072, "--seed", seed * 100 + 40 + s]))
    n = simple.run_check(run, tier, seed, replay, "rand_drv", "Trace_Random.tla",
                         [("MC_Random.tla", "MC_Random.cfg", "MC_Random (per-thread determinism under every interleaving)")],
                         stages, restart=lambda r: r.get("e") in ("Seed", "Thread", "Randi", "Range", "Resid"), chunks=1)
    run.clause("replay after rng(seed) is bit-identical whatever preceded the seed and in any thread; randi bounds", "T1", n or 0)
    run.clause("awgn noise power within 6 standard errors; thd 0.1 dB; harmonic frequencies 0.1 bin; sinad 1.5 dB; scale invariance", "T3", n or 0)
