"""Behaviours out of TLC: dump the labelled state graph of a small model and enumerate its maximal paths.

The paths (sequences of action labels such as `Mid(2)`) are replayed on the real code by a driver that imposes them
step by step; the executed steps come back as a trace that the trace specification validates - the specification
drives the implementation instead of only judging it."""
import os
import random
import re
import shutil
import subprocess
import tempfile
from . import core

_EDGE = re.compile(r'^(-?\d+) -> (-?\d+) \[label="((?:[^"\\]|\\.)*)"')
_NODE = re.compile(r'^(-?\d+) \[label="((?:[^"\\]|\\.)*)"(.*)$')


def dump(spec, cfg, timeout=600):
    """returns (init_nodes, edges{src: [(label, dst)]}, nnodes)"""
    meta = tempfile.mkdtemp(prefix="tlcdump.", dir=core.OUT if os.path.isdir(core.OUT) else None)
    dot = os.path.join(meta, "graph.dot")
    cmd = ["timeout", str(timeout), "java", "-cp", core.TLA_CP, "tlc2.TLC", "-workers", "1", "-metadir", os.path.join(meta, "m"),
           "-noGenerateSpecTE", "-dump", "dot,actionlabels", dot, "-config", cfg, spec]
    p = subprocess.run(cmd, cwd=os.path.join(core.ROOT, "spec"), stdout=subprocess.PIPE, stderr=subprocess.STDOUT)
    out = p.stdout.decode("utf-8", "replace")
    if p.returncode != 0 or not os.path.exists(dot):
        shutil.rmtree(meta, ignore_errors=True)
        raise core.InfraError("TLC graph dump failed for %s/%s (rc=%s):\n%s" % (spec, cfg, p.returncode, out[-2000:]))
    edges, inits, nodes = {}, [], set()
    for line in open(dot):
        m = _EDGE.match(line)
        if m:
            edges.setdefault(m.group(1), [])
            lab = m.group(3).replace('\\"', '"')
            if (lab, m.group(2)) not in edges[m.group(1)]:
                edges[m.group(1)].append((lab, m.group(2)))
            continue
        m = _NODE.match(line)
        if m:
            nodes.add(m.group(1))
            if "style = filled" in m.group(3):
                inits.append(m.group(1))
    shutil.rmtree(meta, ignore_errors=True)
    return inits, edges, len(nodes)


def count_paths(inits, edges):
    memo = {}

    def cnt(n):
        if n not in memo:
            succ = [d for _, d in edges.get(n, []) if d != n]
            memo[n] = 1 if not succ else sum(cnt(d) for d in succ)
        return memo[n]
    return sum(cnt(i) for i in inits), cnt


def paths(inits, edges, cap, seed):
    """all maximal paths of an acyclic graph if there are at most `cap`, otherwise `cap` paths drawn uniformly"""
    total, cnt = count_paths(inits, edges)
    res = []
    if total <= cap:
        def walk(n, acc):
            succ = [(lab, d) for lab, d in edges.get(n, []) if d != n]
            if not succ:
                res.append(list(acc))
                return
            for lab, d in succ:
                acc.append(lab)
                walk(d, acc)
                acc.pop()
        for i in inits:
            walk(i, [])
        return res, total
    rnd = random.Random(seed)
    for _ in range(cap):
        n = rnd.choices(inits, weights=[cnt(i) for i in inits])[0]
        acc = []
        while True:
            succ = [(lab, d) for lab, d in edges.get(n, []) if d != n]
            if not succ:
                break
            lab, n = rnd.choices(succ, weights=[cnt(d) for _, d in succ])[0]
            acc.append(lab)
        res.append(acc)
    return res, total


def transitions_covered(pathlist, edges):
    """fraction of distinct action labels per source state exercised is not known without node ids; report label coverage"""
    labs = set(l for p in pathlist for l in p)
    alll = set(l for v in edges.values() for l, _ in v)
    return len(labs), len(alll)
