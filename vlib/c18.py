"""C18 — delay estimators and the preamble detector recover the true offset.

Spec: Detector.tla (frame length = FFT-filter block length of the preamble, detection frame e div F and offset e mod F
for the preamble's last sample e, aligned extraction start e-Lp+1, peakloc as an exact rational).  MC_Detector: the
cyclic delay line returns the last Lp pushed samples in order after any number of pushes (Lp in {1,2,3,5,8,16}); the
frame/offset law.  Conformance (Trace_Detector): delayseq exact shift, finddelay == d for every |d| <= len/4 on short
signals and sampled on long ones, real and complex, with and without noise 30-50 dB down, gccphat within half a sample
for fs 1..48000; peakloc vertex as a rational on integer data (cyclic and not, end points); detector: chirp (ZC root 1,
length 64..512) and m-sequence (63..511) preambles at every offset modulo the frame length and at frame boundaries,
amplitudes over 60 dB, background noise 20-40 dB down, thresholds from max(0.5, 6/sqrt(Lp)) to 0.9: frame, offset,
returned samples located by exact comparison with the input, score in [0.9, 1]; no detection without a preamble;
frames that are not a multiple of frame_len rejected."""
from . import simple


def check(run, tier, seed, replay=None, only=None):
    quick = tier == "quick"
    run.extra["rule"] = "see docstring; distinct = event records"
    run.trusted = ["TLC", "spec/Detector.tla", "white random test signals from the driver's own PRNG"]
    run.assumptions = ["detector thresholds below max(0.5, 6/sqrt(Lp)) and preambles shorter than 63 are not generated: for a "
                       "detector normalised by the running power the noise-only false-alarm probability per sample is "
                       "exp(-thr^2 Lp) and partial overlaps reach (pi Lp)^(-1/4), so the statement is not satisfiable there "
                       "(DESIGN.md section 6)"]
    k = 1 if quick else 6
    stages = []
    for s in range(2 * k):
        stages.append(("delay-%d" % s, ["--mode", "delay", "--budget", 30 if quick else 80, "--seed", seed * 100 + s]))
        stages.append(("delayall-%d" % s, ["--mode", "delay-all", "--budget", 3 if quick else 8, "--seed", seed * 100 + 20 + s]))
        stages.append(("detector-%d" % s, ["--mode", "detector", "--budget", 60 if quick else 200, "--seed", seed * 100 + 40 + s]))
        stages.append(("detectorall-%d" % s, ["--mode", "detector-all", "--budget", 3 if quick else 8, "--seed", seed * 100 + 60 + s]))
    stages.append(("peakloc", ["--mode", "peakloc", "--budget", 2000 if quick else 20000, "--seed", seed]))
    n = simple.run_check(run, tier, seed, replay, "detector_drv", "Trace_Detector.tla",
                         [("MC_Detector.tla", "MC_Detector.cfg", "MC_Detector (delay line = last Lp samples; frame/offset law)")], stages)
    run.clause("delayseq exact; finddelay == d; detector frame / offset / aligned samples; rejection of bad frame lengths", "T1", n or 0)
    run.clause("gccphat within half a sample; peakloc = parabola vertex (rational); score in [0.9, 1]", "T2", n or 0)
