"""C11 — FIR and window designs meet their closed-form specifications.

Spec: Design.tla (tap-count rule n+1 / n+2, mirror index map, firtype of a symmetric response, band list, mask
applicability "(hi-lo)(n+1) > 16" and transition half-width in exact rational arithmetic, custom-window acceptance).
MC_Design: tap count odd for high-pass/band-stop, mirror is an involution, applicability monotone in n and symmetric
under low<->high; exactly one window length is accepted (state machine over type x order x length).
Conformance (Trace_Design): fir1 for every order in range x 4 types x cut-offs on the 0.02 grid and random, default and
custom windows: length, symmetry (4 ulp of the peak), firtype, DC / Nyquist gain (64 n eps), masks on a 4096-point
long-double grid where TLC finds them applicable, wrong-length custom windows rejected; every window family for every
length 3..N symmetric and periodic: closed form (16 ulp, long double), range, symmetry, periodic = prefix of symmetric(n+1)."""
from . import simple
from .c01 import ranges


def check(run, tier, seed, replay=None, only=None):
    quick = tier == "quick"
    top = 100 if quick else 257
    wtop = 200 if quick else 513
    run.extra["rule"] = ("fir1: every order 2..%d (+ sampled orders up to 2000) x 4 types x 3 cut-off draws (+ custom windows of right and "
                         "wrong length); windows: 8 families x every length 3..%d x sym/periodic (+ sampled lengths to 1e5), gauss alpha "
                         "0.5..6, tukey r -0.5..1.5, kaiser beta 0..40; distinct = event records" % (top - 1, wtop - 1))
    run.trusted = ["TLC", "spec/Design.tla", "long-double closed forms and frequency-response grid (T3 clauses)"]
    stages = []
    for i, (a, b) in enumerate(ranges(2, top, 8 if quick else 16, 2)):
        stages.append(("fir-%d" % i, ["--mode", "fir", "--a", a, "--b", b, "--seed", seed * 100 + i, "--budget", 1 if quick else 2, "--slo", top]))
    for i, (a, b) in enumerate(ranges(3, wtop, 2 if quick else 6, 2)):
        stages.append(("win-%d" % i, ["--mode", "win", "--a", a, "--b", b, "--seed", seed * 100 + 50 + i, "--budget", 3 if quick else 12]))
    n = simple.run_check(run, tier, seed, replay, "design_drv", "Trace_Design.tla",
                         [("MC_Design.tla", "MC_Design.cfg", "MC_Design (tap-count / mirror / applicability theorems; window-length acceptance)")],
                         stages, timeout=3000)
    run.clause("tap count, firtype, custom-window acceptance, window length", "T1", n or 0)
    run.clause("symmetry, periodic = prefix, range, DC / Nyquist gain (plain sums over the returned taps)", "T1m", n or 0)
    run.clause("window closed forms; Hamming-design masks on a long-double response grid", "T3", n or 0)
    run.exhaustive = True
