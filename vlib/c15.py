"""C15 — prime and power-of-two helpers agree with number theory and terminate.

Spec: Primes.tla (IsPrime, FactorOK, NextPow2, IsPow2, 16-bit-limb arithmetic for 32-bit unsigned arguments);
MC_Primes: the trial-division loop as a state machine over a W-valued word, variant "fixed" must satisfy
Correct/StepBound/Terminates for every n < W, variant "asis" (d*d computed in the word) documents the wrap defect.
Conformance: primes_drv sweeps ranges exhaustively and windows at the word boundaries; TLC is the oracle
(Trace_Primes) for values and for the trial-division count reported by the DSPLIB_VERIF counter."""
from . import core


def describe(b):
    return str({k: (v if not isinstance(v, list) or len(v) < 12 else v[:12] + ["..."]) for k, v in b.items()})[:500]


def check(run, tier, seed, replay=None, only=None):
    quick = tier == "quick"
    top = 1 << (17 if quick else 22)
    ftop = 1 << (13 if quick else 16)
    ntop = 1 << (14 if quick else 18)
    run.extra["rule"] = ("isprime/nextpow2/ispow2 for every n in [0,%d) (sets / change points per 2048-chunk), factor for every n in "
                         "[2,%d), nextprime for every n in [0,%d), primes(n) lists; windows of random offsets within 4096 of 2^16, 2^24, "
                         "2^31, 65521^2, 2^32-1, products of primes near 2^16, random 32-bit arguments; distinct = arguments" %
                         (top, ftop, ntop))
    run.trusted = ["TLC", "spec/Primes.tla (definitional trial division, limb arithmetic)",
                   "DSPLIB_VERIF trial-division counter in lib/primes.cpp", "alarm() watchdog (20 s per call)"]
    if replay is not None:
        case = replay.get("case", {})
        core.validate_trace(run, "Trace_Primes.tla", [case], "replay", describe=describe)
        return
    exe = core.build_driver("primes_drv", "rel")
    nsh = 8 if quick else 16

    def mc_fixed():
        return core.tlc("MC_Primes.tla", "MC_Primes_fixed.cfg", workers=4, timeout=900)

    def mc_asis():
        return core.tlc("MC_Primes.tla", "MC_Primes_asis.cfg", workers=2, timeout=300)

    stages = []
    for s in range(nsh):
        a, b = top * s // nsh, top * (s + 1) // nsh
        stages.append(("small-%d" % s, ["--mode", "small", "--a", a, "--b", b]))
    for s in range(4 if quick else 8):
        k = 4 if quick else 8
        stages.append(("factor-%d" % s, ["--mode", "factor", "--a", ftop * s // k, "--b", ftop * (s + 1) // k]))
        stages.append(("nextprime-%d" % s, ["--mode", "nextprime", "--a", ntop * s // k, "--b", ntop * (s + 1) // k]))
    for s in range(4 if quick else 12):
        stages.append(("windows-%d" % s, ["--mode", "windows", "--budget", 3 if quick else 8, "--seed", seed * 100 + s,
                                          "--timeout", 20]))
    res = core.parallel([mc_fixed, mc_asis] + [lambda n=n, a=a: core.drive(run, exe, a, n, timeout=1200) for n, a in stages])
    run.add_tlc(res[0], "MC_Primes/fixed (Correct, StepBound, Terminates for every n < 2^12)")
    asis = res[1]
    if asis.infra_failure:
        raise core.InfraError("MC_Primes/asis failed to run:\n" + asis.out[-2000:])
    run.states += asis.distinct
    run.transitions += asis.generated
    run.extra["asis_model_fails_as_documented"] = bool(asis.inv_violated)
    if not asis.inv_violated:
        raise core.InfraError("vacuity guard: the word-wrapping variant of the model no longer violates its invariants")
    nargs = 0
    for (name, args), recs in zip(stages, res[2:]):
        core.validate_trace(run, "Trace_Primes.tla", recs, name, describe=describe, chunks=1 if len(recs) < 400 else 2,
                            timeout=1500)
        for r in recs:
            if "a" in r and "b" in r:
                nargs += r["b"] - r["a"]
            else:
                nargs += 1
        if recs:
            run.sample({"stage": name, "event": {k: (v if not isinstance(v, list) else v[:8]) for k, v in recs[len(recs) // 2].items()}},
                       limit=10)
    run.nontrivial = set(range(nargs))
    run.evaluations = nargs
    run.clause("isprime/factor/primes/nextprime/nextpow2/ispow2 = definitions", "T1", nargs)
    run.clause("trial divisions <= 32 sqrt(n) + 1024 per primality test (hook counter)", "T1", nargs)
    run.exhaustive = True
