"""C01 — forward transforms equal the DFT for every length and input.

Spec: FftKernels.tla — the library's kernels transcribed one to one (small 2/4/8 kernels, bit-reversal and quarter-wave
twiddle tables, butterfly cascade, 3-point and table DFT, Bluestein index algebra, factor-tree split / transposes /
twiddles, real-input packing, ifft, irfft tables) and evaluated exactly in finite fields F_P (pairs of conjugate
embeddings): MC_FftKernels proves kernel = defining sum on every impulse for every length <= 24 (quick) / 96 (thorough).
Transform.tla (DFT exponent matrix, conjugate symmetry, pad/truncate semantics, output lengths, plan
kinds, factor split and the Cooley-Tukey index algebra of the P x Q split).  MC_Transform: theorems T1-T6 for
all lengths <= NMax and a walk of every factorisation tree.  Conformance (Trace_Transform): impulse rows of
every length -> twiddle exponents compared exactly by TLC (which sample meets which twiddle; by linearity this
pins the transform matrix), relative l2 error vs an O(n^2) long-double DFT for 8 input classes x 6 entry points
with TLC checking the statement's 32 n eps bound, metamorphic relations (fft(x,n') vs resize, real vs complex,
conjugate symmetry), sampled lengths to 2^17 with a sampled-bin oracle + Parseval, czt vs its defining sum."""
from . import core


def describe(b):
    return str({k: (v if not isinstance(v, list) or len(v) < 12 else v[:12] + ["..."]) for k, v in b.items()})[:500]


def ranges(lo, hi, parts, power=2):
    """split [lo,hi) into `parts` ranges of roughly equal sum n^power"""
    tot = sum(n ** power for n in range(lo, hi))
    res, acc, start = [], 0, lo
    for n in range(lo, hi):
        acc += n ** power
        if acc >= tot * (len(res) + 1) / parts and len(res) < parts - 1:
            res.append((start, n + 1))
            start = n + 1
    res.append((start, hi))
    return [r for r in res if r[0] < r[1]]


def kernel_jobs(run, quick, variant="fixed", maxlen=None):
    """MC_FftKernels: the transcribed kernels evaluated exactly in finite fields (one TLC run per field)."""
    import json
    import os
    fields = json.load(open(os.path.join(core.SPEC, "fft_fields_%s.json" % ("quick" if quick else "full"))))
    jobs = []
    for i, f in enumerate(fields):
        lens = [n for n in f["lens"] if maxlen is None or n <= maxlen]
        if not lens:
            continue
        # one TLC process per handful of lengths (all initial states and all successors of a state are evaluated by one
        # worker, so sharding over processes is what parallelises); the longest lengths get a process of their own
        lens = sorted(lens)
        chunks, cur, cost = [], [], 0
        for n in lens:
            cur.append(n)
            cost += n * n
            if cost >= 6000 or len(cur) >= 8:
                chunks.append(cur)
                cur, cost = [], 0
        if cur:
            chunks.append(cur)
        for j, ch in enumerate(chunks):
            cfg = run.path("MC_FftKernels_%d_%d.cfg" % (i, j))
            open(cfg, "w").write('CONSTANTS P = %d G = %d N = %d Lens = {%s} Variant = "%s"\nSPECIFICATION Spec\n'
                                 'INVARIANT KernelsEqualDft\nCHECK_DEADLOCK FALSE\n'
                                 % (f["P"], f["G"], f["N"], ", ".join(map(str, ch)), variant))
            jobs.append((lambda cfg=cfg: core.tlc("MC_FftKernels.tla", cfg, workers=1, timeout=6000, heap="4g"),
                         "MC_FftKernels field N=%d P=%d lengths %s" % (f["N"], f["P"], ch)))
    return jobs


def check(run, tier, seed, replay=None, only=None):
    quick = tier == "quick"
    nimp = 65 if quick else 161
    nres = 513 if quick else 4097
    run.extra["rule"] = ("impulse rows: every n < %d, every position, 4 entry points; residuals: every n < %d x 8 input classes "
                         "(gauss, impulses, const, tone, alternating, 1e+-150 dynamic range) x {fft complex, FftPlan, fft(x,n), fft real, "
                         "rfft, FftPlanR}; pad/truncate targets 1..2n (all for n<=64, sampled above); sampled lengths to 2^17; czt; "
                         "distinct = event records" % (nimp, nres))
    run.trusted = ["TLC", "spec/Transform.tla", "long-double O(n^2) DFT with exact twiddle index m*k mod n (T3 oracle)",
                   "driver's mapping of an output value to the nearest n-th root of unity"]
    if replay is not None:
        core.validate_trace(run, "Trace_Transform.tla", [replay.get("case", {})], "replay", describe=describe)
        return
    exe = core.build_driver("fft_drv", "rel")

    def mc():
        return core.tlc("MC_Transform.tla", "MC_Transform.cfg" if quick else "MC_Transform_full.cfg", workers=4, timeout=3000, heap="8g")

    stages = []
    for i, (a, b) in enumerate(ranges(1, nimp, 4 if quick else 12, 2)):
        stages.append(("imp-%d" % i, ["--mode", "imp", "--a", a, "--b", b]))
    for i, (a, b) in enumerate(ranges(1, nres, 8 if quick else 16, 2)):
        stages.append(("resid-%d" % i, ["--mode", "resid", "--a", a, "--b", b, "--seed", seed * 100 + i]))
    for s in range(2 if quick else 12):
        stages.append(("big-%d" % s, ["--mode", "big", "--budget", 12 if quick else 40, "--seed", seed * 100 + 30 + s]))
    stages.append(("czt", ["--mode", "czt", "--budget", 150 if quick else 1500, "--seed", seed]))
    kj = kernel_jobs(run, quick, maxlen=24 if quick else None)
    res = core.parallel([mc] + [j for j, _ in kj] + [lambda n=n, a=a: core.drive(run, exe, a, n, timeout=3000) for n, a in stages])
    run.add_tlc(res[0], "MC_Transform (factor split, Cooley-Tukey index algebra, conjugate symmetry, STFT arithmetic)")
    for (_, what), r in zip(kj, res[1:1 + len(kj)]):
        run.add_tlc(r, what)
    run.extra["kernel_lengths_proved_in_finite_fields"] = sum(len(w.split("lengths")[1].split(",")) for _, w in kj)
    res = res[len(kj):]
    n = 0
    worst = {}
    for (name, args), recs in zip(stages, res[1:]):
        core.validate_trace(run, "Trace_Transform.tla", recs, name, describe=describe, timeout=3000,
                            chunks=1 if len(recs) < 3000 else None)
        n += len(recs)
        for r in recs:
            k = r.get("clause", r.get("e"))
            worst[k] = max(worst.get(k, 0), r.get("err_milli", 0))
        if recs:
            run.sample({"stage": name, "event": {k: (v if not isinstance(v, list) else v[:10]) for k, v in recs[len(recs) // 2].items()}},
                       limit=8)
    run.extra["worst_error_milli_of_bound"] = worst
    run.nontrivial = set(range(n))
    run.clause("transcribed kernels (plan selection, factor tree, radix-2 cascade, dft3, slow DFT, Bluestein, real packing, "
               "ifft, irfft) = defining sum, exactly, in F_P for every impulse", "T1 (spec level)", run.extra["kernel_lengths_proved_in_finite_fields"])
    run.clause("impulse rows: twiddle exponent m*k mod n for every (n, m, k)", "T1", n)
    run.clause("output lengths; fft(x,n') = fft(resize(x,n')); real = complex path; conjugate symmetry", "T1m", n)
    run.clause("relative l2 error <= 32 n eps vs long-double DFT; czt vs defining sum", "T3", n)
    run.exhaustive = True
