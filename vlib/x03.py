"""X03 (growth, not one of the listed properties) — the Agc gain loop sample by sample.

C20 speaks of the AGC's steady state only.  AgcLoop.tla models the loop itself in fixed point (all quantities natural
logarithms): err = target - ln(power) - 2g; g += err / R with R = 1/t_rise when err > 1 neper, 1/t_fall otherwise; the
limit ln(max_gain) is enforced every sample.  MC (centi-neper grid, every level/target combination, arbitrary level
switches): loop state and applied gain never exceed the limit, no overshoot, and under a constant level the loop settles
within one step's truncation of the needed gain or at the limit (liveness under WF).  Vacuity guard: with the limit
enforced once per frame ("hoisted") TLC refutes StateBounded.  Apalache (spec/apalache/AgcInd.tla): for ARBITRARY integer
levels, targets, limits and step sizes the per-sample limit is an inductive invariant; hoisted, it is not.  Conformance (Trace_AgcLoop): real Agc objects with
averaging length 1 (power estimate = |x|^2 + eps), step sizes 1/20..1/500, 4..12 frames of 1..160 samples of constant
magnitude 1e-4..100 or digital silence each; TLC runs the fixed-point loop from ITS OWN state over every frame and accepts
the ln of the gain applied to the frame's last sample within 400 micro-nepers (0.04 %); near the rise/fall boundary either
step size is allowed.

Reported as EXTRA-VIOLATION; evidence in evidence-extra/."""
from . import core
from .simple import describe


def check(run, tier, seed, replay=None, only=None):
    quick = tier == "quick"
    run.extra["rule"] = "Agc(alen=1), reciprocal step sizes {20,25,40,50,100,200,500}, 4..12 frames x 1..160 samples; distinct = event records"
    run.trusted = ["TLC", "spec/AgcStep.tla (fixed-point loop)", "driver: ln() of target, limit, level and applied gain, rounded to micro-nepers"]
    if replay is not None:
        raise core.InfraError("replay for X03: re-run bin/check X03 --seed %s" % replay.get("seed"))
    exe = core.build_driver("dyn_drv", "rel")
    # unbounded complement: the per-sample limit is an INDUCTIVE invariant for arbitrary integer levels, targets, limits and
    # step sizes (Apalache); with the limit hoisted to the frame end it is not
    import os
    ind = os.path.join(core.SPEC, "apalache", "AgcInd.tla")
    apa = core.parallel([lambda: core.apalache(ind, "IndInv", init="IndInit", cinit="CInit"),
                         lambda: core.apalache(ind, "IndInv", init="IndInit", cinit="CInit", next_="HoistedNext")])
    run.extra["apalache_inductive"] = {"IndInv /\\ Next => IndInv'": apa[0], "hoisted variant (must be violated)": apa[1]}
    if apa[0] != "ok":
        run.violation({"e": "Apalache", "results": apa}, "the per-sample limit is not inductive: %s" % apa)
    if apa[1] != "violated":
        raise core.InfraError("vacuity guard: Apalache must refute the hoisted limit, got %s" % apa[1])
    mcs = [("MC_AgcLoop.tla", "MC_AgcLoop.cfg"), ("MC_AgcLoop.tla", "MC_AgcLoop_const.cfg")]
    guard = ("MC_AgcLoop.tla", "MC_AgcLoop_hoisted.cfg")
    stages = [("agcloop-%d" % s, ["--mode", "agcloop", "--budget", 40 if quick else 200, "--seed", seed * 100 + s]) for s in range(2 if quick else 6)]
    jobs = [lambda m=m: core.tlc(m[0], m[1], workers=2, timeout=600) for m in mcs + [guard]]
    jobs += [lambda n=n, a=a: core.drive(run, exe, a, n, timeout=600) for n, a in stages]
    res = core.parallel(jobs)
    for m, r in zip(mcs, res[:2]):
        run.add_tlc(r, "%s/%s" % m)
    g = res[2]
    if g.infra_failure:
        raise core.InfraError("guard failed to run:\n" + g.out[-2000:])
    run.states += g.distinct
    run.transitions += g.generated
    if not g.inv_violated:
        run.violation({"e": "Guard", "cfg": guard[1]}, "the hoisted-limit model no longer refutes StateBounded: the model lost its bite")
    n = 0
    for (name, a), recs in zip(stages, res[3:]):
        core.validate_trace(run, "Trace_AgcLoop.tla", recs, name, restart=lambda r: r.get("e") == "AgcNew", describe=describe)
        n += len(recs)
        if recs:
            run.sample({"stage": name, "event": recs[min(1, len(recs) - 1)]}, limit=4)
    run.nontrivial = set(range(n))
    run.clause("every frame's final applied gain is the fixed-point loop's, from the model's own state, within 4e-4 nepers", "T2", n)
    run.exhaustive = False
