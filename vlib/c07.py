"""C07 — FIR filtering and correlation equal their defining sums.

Spec: Fir.tla (FirDef with conjugated taps, MaDef2, XcorrRe/Im, BlockLen/FftProduced).
Conformance (Trace_Stream): exact mode of FirFilter real/complex, FftFilter real/complex, MAFilter
real/complex on integer data with structured taps (random, symmetric, sparse, single tap at either
end), all framings; xcorr for all length pairs; FftFilter == FirFilter on arbitrary data (T1m);
FirFilter vs long-double defining sum (T3 residual)."""
from . import core
from .c06 import restart, describe, validate, stream_stage


def check(run, tier, seed, replay=None, only=None):
    quick = tier == "quick"
    run.extra["rule"] = ("FIR family on integer taps/samples with 5 tap structures x all 2^(k-1) framings + one-shot 40-70 "
                         "sample streams; xcorr for every (n1,n2) in 1..N^2 (N=24 quick, 48 thorough) alternating real/complex "
                         "+ sampled long sparse pairs; FftFilter vs FirFilter on random taps 2..1024; distinct = event records")
    run.trusted = ["TLC", "spec/Fir.tla", "driver integer encoding; FFT rounding bound 64 eps log2(len) |h||x|",
                   "long-double transliteration of FirDef (T3 clause only)"]
    if replay is not None:
        raise core.InfraError("replay for C07: deterministic, re-run bin/check C07 --seed %s" % replay.get("seed"))

    def mc():
        return core.tlc("MC_Stream.tla", "MC_Fir.cfg", workers=4, timeout=1500, heap="6g")

    nsh = 4 if quick else 16
    stages = []
    for s in range(2 if quick else 8):
        stages.append(("fir7-%d" % s, ["--mode", "fir7", "--k", 6 if quick else 9, "--sets", 1, "--seed", seed * 100 + s]))
    for s in range(nsh):
        stages.append(("xcorr-%d" % s, ["--mode", "xcorr", "--k", 24 if quick else 48, "--budget", 4 if quick else 40,
                                        "--seed", seed * 100 + 20 + s, "--shard", s, "--nshards", nsh]))
    for s in range(2 if quick else 8):
        stages.append(("equiv-%d" % s, ["--mode", "equiv", "--budget", 60 if quick else 250, "--maxlen",
                                        20000 if quick else 100000, "--seed", seed * 100 + 40 + s]))
    core.build_driver("stream_drv", "rel")
    res = core.parallel([mc] + [lambda n=n, a=a: stream_stage(run, n, a) for n, a in stages])
    run.add_tlc(res[0], "MC_Stream/Fir (FirImpl, OlaImpl, MaImpl = definitions for all framings x impulses)")
    n = 0
    for (name, args), recs in zip(stages, res[1:]):
        core.validate_trace(run, "Trace_Stream.tla", recs, name, restart=lambda r: r.get("e") != "Process" and r.get("e") != "Drop",
                            describe=describe)
        n += len(recs)
        if recs:
            run.sample({"stage": name, "event": recs[len(recs) // 2]}, limit=8)
    run.nontrivial = set(range(n))
    worst = 0
    for (name, args), recs in zip(stages, res[1:]):
        for r in recs:
            if r.get("e") == "Resid":
                worst = max(worst, r.get("err_milli", 0))
    run.extra["worst_fir_residual_milli_of_bound"] = worst
    run.clause("FirFilter/FftFilter/MAFilter = defining sums on integer data", "T1", n)
    run.clause("xcorr = sum a[n+lag] conj(b[n]) (integer data through the FFT, rounding bound)", "T2", n)
    run.clause("FftFilter = FirFilter sample for sample (arbitrary data)", "T1m", n)
    run.clause("FirFilter vs long double defining sum", "T3", n)
    run.exhaustive = True
