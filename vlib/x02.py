"""X02 (growth, not one of the listed properties) — PreambleDetector over a stream with several detections.

Spec: DetectorSeq.tla (frame loop: push, test, return at the first hit; variants "asis" = the rest of the frame after a
detection never reaches the delay line, "pushall" = it does).  MC: for every hit pattern over 3 frames of 4 samples and a
delay line of 3: first report aligned, one report per frame at the first hit, the line never reorders (both variants);
`Aligned` for EVERY report holds for "pushall" and is refuted for "asis" (vacuity guard = the documented quirk: a second
detection within Lp samples after a detection frame returns samples from before the gap).  Conformance
(Trace_DetectorSeq): streams with 2..6 preambles, the second ending L..L+F samples after the first; per frame the reported
offset and the stream indices of the returned samples (exact value match); the variant is inferred by TLC at reset and
must explain every frame of the run.

Reported as EXTRA-VIOLATION; evidence in evidence-extra/."""
from . import core
from .simple import describe


def check(run, tier, seed, replay=None, only=None):
    quick = tier == "quick"
    run.extra["rule"] = "ZC preambles of 17..81 samples, 3..6 frames, detections spaced L..L+F apart; distinct = event records"
    run.trusted = ["TLC", "spec/DetectorSeq.tla", "driver value matching of returned samples"]
    if replay is not None:
        raise core.InfraError("replay for X02: re-run bin/check X02 --seed %s" % replay.get("seed"))
    exe = core.build_driver("detector_drv", "rel")
    mcs = [("DetectorSeq.tla", "MC_DetectorSeq.cfg"), ("DetectorSeq.tla", "MC_DetectorSeq_pushall.cfg")]
    guard = ("DetectorSeq.tla", "MC_DetectorSeq_asis.cfg")
    stages = [("seq-%d" % s, ["--mode", "seq", "--budget", 60 if quick else 300, "--seed", seed * 100 + s]) for s in range(2 if quick else 6)]
    jobs = [lambda m=m: core.tlc(m[0], m[1], workers=2, timeout=600) for m in mcs + [guard]]
    jobs += [lambda n=n, a=a: core.drive(run, exe, a, n, timeout=600) for n, a in stages]
    res = core.parallel(jobs)
    for m, r in zip(mcs, res[:2]):
        run.add_tlc(r, "%s/%s" % m)
    g = res[2]
    if g.infra_failure:
        raise core.InfraError("guard failed to run:\n" + g.out[-2000:])
    run.states += g.distinct
    run.transitions += g.generated
    if not g.inv_violated:
        run.violation({"e": "Guard", "cfg": guard[1]}, "the as-is model no longer refutes Aligned: the model lost its bite")
    n = 0
    for (name, a), recs in zip(stages, res[3:]):
        core.validate_trace(run, "Trace_DetectorSeq.tla", recs, name, restart=lambda r: r.get("e") == "SeqReset", describe=describe)
        n += len(recs)
        if recs:
            k = next((i for i, r in enumerate(recs) if r.get("det")), 0)
            run.sample({"stage": name, "event": {kk: (v if not isinstance(v, list) else v[:8]) for kk, v in recs[k].items()}}, limit=4)
    run.nontrivial = set(range(n))
    run.clause("every reported offset / returned sample set is explained by one variant of the frame loop, held for the run", "T1", n)
    run.exhaustive = False
