"""C09 — concurrent use from several threads is race-free and result-preserving.

Spec: Threads.tla (solve = Begin / Mid (write scratch) / End (read scratch); scratch per call or per plan): with per-call
scratch every interleaving preserves results and is race free (MC_Threads_fixed, 3 threads x 2 plans x 2 calls); with
per-plan scratch TLC exhibits the corrupting interleaving (MC_Threads_asis, documented failing model = the repaired
defect).  PlanCache.tla Confined and MC_Random cover cache and generator confinement.
Conformance: (1) forced schedules — the interleavings of Mid/End steps of two solves on a shared composite-length plan are
imposed on the real threads by a cooperative scheduler parked at the DSPLIB_VERIF yield points (right after the scratch is
written), likewise interleavings of generator calls of two threads and of cache lookups of two threads; executed steps and
results are validated by Trace_Threads against Threads.tla (per-call scratch): every result must equal the sequential one; in addition EVERY maximal path of the TLC state graph of
Threads.tla for 3 threads x 1 solve and 2 threads x 2 solves (1680 + 924 behaviours, exported with -dump dot,actionlabels) is
imposed on real threads and the executed steps are validated with the actions of Threads.tla itself.
(2) free-running stress from a barrier (rel build and ThreadSanitizer build): shared FftPlan / FftPlanR / IfftPlan /
IfftPlanR / CztPlan of every plan kind, random mixes of fft/ifft/rfft/irfft (cache hits and evictions), xcorr, FftFilter,
welch, resample, randn/rng, windows, hilbert, czt: every result compared with the single-threaded one; a plan cache touched
by two threads is counted through the cache hook; the first use of the number-theory helpers in the process is concurrent
(cold start), judged against the driver's own trial division; a ThreadSanitizer report is an event without action."""
import os
import re
from . import core, simple, tlcgraph


def _tok(label):
    m = re.match(r"(Begin|Mid|End)\((\d+)", label)
    return m.group(1)[0] + m.group(2)


def check(run, tier, seed, replay=None, only=None):
    quick = tier == "quick"
    run.extra["rule"] = ("sched: 6 Mid/End orders x random pause points per composite length, 8 generator interleavings, 4 cache "
                         "interleavings per repetition; stress: T threads x (18 lengths x 5 shared plan kinds x 20 calls + 60 random "
                         "free-function jobs per thread); distinct = event records")
    run.trusted = ["TLC", "spec/Threads.tla", "cooperative scheduler in harness/threads_drv.cpp + DSPLIB_VERIF yield points",
                   "ThreadSanitizer (happens-before race detector) for the free-running phase"]
    if replay is not None:
        raise core.InfraError("replay for C09: re-run bin/check C09 --seed %s" % replay.get("seed"))
    asis = core.tlc("Threads.tla", "MC_Threads_asis.cfg", workers=2, timeout=300)
    if asis.infra_failure or not asis.inv_violated:
        raise core.InfraError("vacuity guard: per-plan scratch model must violate ResultPreserved/RaceFree\n" + asis.out[-1500:])
    run.states += asis.distinct
    run.transitions += asis.generated
    run.extra["per_plan_scratch_model_fails_as_documented"] = True
    k = 1 if quick else 4
    stages = []
    # behaviours exported from TLC: maximal paths of the state graph of Threads.tla (3 threads x 1 solve, 2 threads x 2
    # solves on one shared plan) are imposed on the real threads step by step
    exported = {}
    cfgs = ("MC_Threads_sched3.cfg", "MC_Threads_sched2.cfg") if quick else \
           ("MC_Threads_sched3.cfg", "MC_Threads_sched2.cfg", "MC_Threads_sched4.cfg", "MC_Threads_sched32.cfg")
    for cfg in cfgs:
        inits, edges, nnodes = tlcgraph.dump("Threads.tla", cfg)
        plist, total = tlcgraph.paths(inits, edges, 5000, seed)
        exported[cfg] = {"states": nnodes, "maximal_paths_in_model": total, "paths_replayed_on_the_implementation": len(plist)}
        run.states += nnodes
        nshard = 4
        for sh in range(nshard):
            f = run.path("paths-%s-%d.txt" % (cfg[:-4], sh))
            with open(f, "w") as fh:
                for pth in plist[sh::nshard]:
                    fh.write(" ".join(_tok(x) for x in pth) + "\n")
            stages.append(("tlcpath-%s-%d" % (cfg[11:-4], sh), ["--mode", "replay", "--sched", f, "--seed", seed * 100 + 80 + sh], "rel"))
    run.extra["tlc_exported_behaviours"] = exported
    for s in range(2 * k):
        stages.append(("sched-%d" % s, ["--mode", "sched", "--budget", 6 if quick else 20, "--seed", seed * 100 + s], "rel"))
    for i, T in enumerate([2, 4, 16] if quick else [2, 3, 4, 8, 16]):
        stages.append(("stress-%d" % T, ["--mode", "stress", "--budget", 1, "--threads", T, "--seed", seed * 100 + 30 + i], "rel"))
    for i, T in enumerate([4] if quick else [2, 4, 8]):
        stages.append(("stress-%d" % T, ["--mode", "stress", "--budget", 1, "--threads", T, "--seed", seed * 100 + 60 + i], "tsan"))
    n = simple.run_check(run, tier, seed, replay, "threads_drv", "Trace_Threads.tla",
                         [("Threads.tla", "MC_Threads_fixed.cfg", "MC_Threads/fixed (ResultPreserved, RaceFree for all interleavings)"),
                          ("MC_PlanCache.tla", "MC_PlanCache_quick.cfg", "MC_PlanCache (Confined: an access never changes another thread's cache)"),
                          ("MC_Random.tla", "MC_Random.cfg", "MC_Random (per-thread determinism under every interleaving)")],
                         stages, restart=lambda r: r.get("e") in ("Reset", "Stress"), timeout=2400)
    run.clause("forced interleavings at the yield points: every result = sequential result", "T1", n or 0)
    run.clause("every maximal path of the TLC state graph (3x1, 2x2 solves) executed on real threads: steps enabled, results preserved",
               "T1", sum(v["paths_replayed_on_the_implementation"] for v in exported.values()))
    run.clause("free-running threads: results = single-threaded results; caches confined", "T1m", n or 0)
    run.clause("no ThreadSanitizer report in the free-running phase", "observed", n or 0)
