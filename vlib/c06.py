"""C06 — streaming processors are invariant to how the stream is framed.

Spec: Fir.tla / Multirate.tla / Order.tla (definitions + implementation-shaped step operators),
MC_Stream (every implementation-shaped processor = its definition for all framings x all impulse inputs),
Trace_Stream (exact mode: every output sample recomputed by TLC from the definition on the whole input
so far; prefix mode: framed output vs one-call output of a separately constructed instance).
Driver: harness/stream_drv.cpp."""
from . import core


def restart(rec):
    return rec.get("e") == "New"


def describe(b):
    return str({k: v for k, v in b.items() if k not in ("log",)})[:600]


def split_by_instance(recs):
    """events of interleaved instances stay together: cut only where no instance is live"""
    return recs


def stream_stage(run, name, args, chunks=None, timeout=900):
    exe = core.build_driver("stream_drv", "rel")
    recs = core.drive(run, exe, args, name, timeout=timeout)
    return recs


def validate(run, name, recs, interleaved=False):
    if not recs:
        return
    if interleaved:
        # cut points: positions where every started instance has been dropped
        live = set()
        cuts = set()
        for i, r in enumerate(recs):
            if r.get("e") == "New":
                if not live:
                    cuts.add(i)
                live.add(r["id"])
            elif r.get("e") == "Drop":
                live.discard(r.get("id"))
        rs = lambda rec, _c=cuts, _r=recs: False
        idx = {id(r): i for i, r in enumerate(recs)}
        rs = lambda rec: idx.get(id(rec), -1) in cuts
    else:
        rs = restart
    core.validate_trace(run, "Trace_Stream.tla", recs, name, restart=rs, describe=describe)


def check(run, tier, seed, replay=None, only=None):
    quick = tier == "quick"
    run.extra["rule"] = ("per processor and parameter set: all 2^(k-1) framings of a k-granule stream (exact mode on integer "
                         "data for FIR/FFT-FIR/MA/delay/median/decimator/interpolator/rate converter/resampler; prefix mode "
                         "on arbitrary data for all 27 processor variants), random heavy-tailed framings of long streams with "
                         "2-4 interleaved instances. distinct = distinct (processor, parameters, framing) instances")
    run.trusted = ["TLC", "spec/Fir.tla, Multirate.tla, Order.tla definitions", "driver integer encoding",
                   "prefix mode: the one-call output of a second instance of the same processor (T1m)"]
    if replay is not None:
        case = replay.get("case", {})
        raise core.InfraError("replay for C06: re-run bin/check C06 --seed %s (deterministic); failing event: %s"
                              % (replay.get("seed"), describe(case)))
    k = 8 if quick else 12
    ke = 8 if quick else 11

    def mc():
        return core.tlc("MC_Stream.tla", "MC_Stream_quick.cfg" if quick else "MC_Stream_full.cfg",
                        workers=4 if quick else 8, timeout=3000, heap="8g")

    jobs = [mc]
    stages = []
    for s in range(2 if quick else 6):
        stages.append(("exact-%d" % s, ["--mode", "exact", "--k", ke, "--sets", 1, "--seed", seed * 100 + s], False))
    for s in range(2 if quick else 6):
        stages.append(("prefix-%d" % s, ["--mode", "prefix", "--k", k if quick else 11, "--sets", 2, "--seed", seed * 100 + 50 + s], False))
    for s in range(2 if quick else 8):
        stages.append(("long-%d" % s, ["--mode", "long", "--budget", 1500 if quick else 6000, "--maxlen",
                                       20000 if quick else 100000, "--seed", seed * 100 + 80 + s], True))
    stages.append(("huge-0", ["--mode", "huge", "--budget", 1 if quick else 3, "--seed", seed * 100 + 95], True))
    core.build_driver("stream_drv", "rel")
    for name, args, inter in stages:
        jobs.append(lambda name=name, args=args: stream_stage(run, name, args))
    res = core.parallel(jobs)
    run.add_tlc(res[0], "MC_Stream (implementation-shaped processors = definitions, all framings x impulses)")
    ninst = 0
    nbit = 0
    for (name, args, inter), recs in zip(stages, res[1:]):
        validate(run, name, recs, interleaved=True)
        ninst += sum(1 for r in recs if r.get("e") == "New")
        nbit += sum(1 for r in recs if r.get("e") == "Process" and r.get("bitident") is False)
        news = [r for r in recs if r.get("e") == "New"]
        if news:
            i = recs.index(news[len(news) // 2])
            run.sample({"stage": name, "events": recs[i:i + 4]}, limit=8)
    run.nontrivial = set(range(ninst))
    run.extra["instances"] = ninst
    run.extra["prefix_calls_not_bit_identical"] = nbit
    run.clause("framed output = definition on the whole input (integer data)", "T1", ninst)
    run.clause("framed output = one-call output of a separate instance (1e-9 rms)", "T1m", ninst)
    run.exhaustive = True
