"""C13 — spectral estimates conserve power and label frequencies correctly.

Spec: Spectrum.tla (segment count, output lengths, bin <-> label map for real and complex input, peak-label rule for a
tone at a rational frequency, the label produced by FFT order under centred labels).  MC_Spectrum: centred storage order
labels every bin correctly; FFT order under centred labels (the recorded finding) mislabels every tone; welch segments
lie inside the signal and are maximal.  Conformance (Trace_Spectrum): tones on a 1/8-bin grid for nfft 8..4096, random
window lengths/overlaps/families/segment counts, both scalings: output length, every label, non-negativity, arg-max label
= nearest label (T1/T2); density sum = nfft x window-normalised mean segment power and power-scaling peak = mean-square of
a bin-centred sinusoid (T3, long double sums over the input); mscohere in [0,1], = 1 for scaled copies incl. spectra with
80 dB dynamic range."""
from . import simple


def check(run, tier, seed, replay=None, only=None):
    quick = tier == "quick"
    run.extra["rule"] = "random (nfft, winlen, overlap, window, segments, tone on a 1/8-bin grid, scaling); distinct = event records"
    run.trusted = ["TLC", "spec/Spectrum.tla", "long-double sums over the input for the power clauses (T3)"]
    k = 2 if quick else 8
    stages = []
    for s in range(3 * k):
        stages.append(("tone-%d" % s, ["--mode", "tone", "--budget", 300, "--seed", seed * 100 + s]))
    for s in range(2 * k):
        stages.append(("power-%d" % s, ["--mode", "power", "--budget", 300, "--seed", seed * 100 + 30 + s]))
        stages.append(("cohere-%d" % s, ["--mode", "cohere", "--budget", 300, "--seed", seed * 100 + 60 + s]))
    n = simple.run_check(run, tier, seed, replay, "spectrum_drv", "Trace_Spectrum.tla",
                         [("MC_Spectrum.tla", "MC_Spectrum.cfg", "MC_Spectrum (label maps, segment arithmetic)")], stages)
    run.clause("output lengths, labels, non-negativity, coherence range", "T1", n or 0)
    run.clause("arg-max label = nearest label to the tone (rational frequency)", "T2", n or 0)
    run.clause("density sum / power peak vs long-double sums; coherence = 1 for scaled copies", "T3", n or 0)
