"""C16 — sorting, order statistics and rank correlation match their definitions.

Spec: Order.tla (SortOK, Median2 by counting, MedianStream2, Medfilt2, UpdateSort, Kendall/Spearman as exact
rationals).  MC_Order: the incrementally maintained sorted window of the median filter for EVERY input over a
3-letter alphabet, orders 3..6 (non-linear, so exhaustive over inputs); rank statistics range/symmetry/+-1 for
all permutation pairs of length 4.  Conformance (Trace_Order / Trace_Stream): all arrays over {-1,0,1} up to
length 6 (sort both directions, median, medfilt), all permutation pairs up to length 5 (quick) / 6 (thorough)
for corr, random arrays to 2000, MedianFilter orders 3..64 with random framings, all framings for small orders."""
from . import core
from .c06 import stream_stage, describe as sdescribe


def describe(b):
    return str({k: (v if not isinstance(v, list) or len(v) < 16 else v[:16] + ["..."]) for k, v in b.items()})[:500]


def check(run, tier, seed, replay=None, only=None):
    quick = tier == "quick"
    run.extra["rule"] = ("sort/median/medfilt: every array over {-1,0,1} of length <= %d; corr: every pair of permutations of "
                         "length <= %d; random arrays (distinct, repeated, sorted, reversed, constant) up to length %d; MedianFilter "
                         "orders 3..64 with random framings; distinct = event records" % (6 if quick else 7, 5 if quick else 6,
                                                                                          300 if quick else 2000))
    run.trusted = ["TLC", "spec/Order.tla", "driver integer encoding (medians doubled, tau/rho scaled by their denominators)",
                   "long-double Pearson reference (T3 clause only)"]
    if replay is not None:
        core.validate_trace(run, "Trace_Order.tla", [replay.get("case", {})], "replay", describe=describe)
        return
    exe = core.build_driver("order_drv", "rel")
    core.build_driver("stream_drv", "rel")
    mcs = [lambda n=n: core.tlc("MC_Order.tla", "MC_Order_%d.cfg" % n, workers=2, timeout=900) for n in ((3, 4, 5) if quick else (3, 4, 5, 6))]
    stages = [("perms", ["--mode", "perms", "--nmax", 5 if quick else 6])]
    for s in range(4 if quick else 12):
        stages.append(("random-%d" % s, ["--mode", "random", "--budget", 40 if quick else 120, "--maxlen", 2000,
                                         "--seed", seed * 100 + s]))
    sstages = [("median-%d" % s, ["--mode", "exact", "--k", 8 if quick else 11, "--sets", 2, "--proc", "median",
                                  "--seed", seed * 100 + 50 + s]) for s in range(2 if quick else 4)]
    res = core.parallel(mcs + [lambda n=n, a=a: core.drive(run, exe, a, n, timeout=1200) for n, a in stages]
                        + [lambda n=n, a=a: stream_stage(run, n, a) for n, a in sstages])
    for r in res[:len(mcs)]:
        run.add_tlc(r, "MC_Order (sorted window = sorted ring, output = median, for every input; rank statistics theorems)")
    n = 0
    for (name, args), recs in zip(stages, res[len(mcs):len(mcs) + len(stages)]):
        core.validate_trace(run, "Trace_Order.tla", recs, name, describe=describe, timeout=1500)
        n += len(recs)
        if recs:
            run.sample({"stage": name, "event": {k: (v if not isinstance(v, list) else v[:10]) for k, v in recs[len(recs) // 2].items()}}, limit=8)
    for (name, args), recs in zip(sstages, res[len(mcs) + len(stages):]):
        core.validate_trace(run, "Trace_Stream.tla", recs, name, restart=lambda r: r.get("e") == "New", describe=sdescribe)
        n += len(recs)
    run.nontrivial = set(range(n))
    run.clause("sort permutation/order, median, medfilt, MedianFilter = definitions (integer data)", "T1", n)
    run.clause("Kendall tau, Spearman rho exact rationals; symmetry; +-1 on monotone relations", "T1", n)
    run.clause("Pearson r vs long double, symmetric, |r| <= 1", "T3", n)
    run.exhaustive = True
