// Conformance driver for Trace_Primes.tla (C15).
//   primes_drv --out trace --mode small --a A --b B      exhaustive ranges (isprime, factor, nextprime, pow2)
//   primes_drv --out trace --mode windows --seed S --budget N   windows near 2^16, 2^24, 2^31, 65521^2, 2^32 + random
#include "common.h"
#include <dsplib.h>
#include <dsplib/verif_hooks.h>
#include <csignal>
#include <climits>

using namespace dsplib;
using vh::Json;

static char g_op[256] = "";
static FILE* g_f = nullptr;
static void on_alarm(int) {
    char buf[512];
    int n = std::snprintf(buf, sizeof(buf), "{\"e\":\"Timeout\",\"op\":\"%s\",\"divs_millions\":%ld}\n", g_op,
                          (long)(verif::trial_divisions / 1000000));
    if (g_f) {
        std::fflush(g_f);
        if (::write(fileno(g_f), buf, n) < 0) {
        }
    }
    _exit(0);
}
#define GUARDED(desc_fmt, ...)                                                                                         \
    std::snprintf(g_op, sizeof(g_op), desc_fmt, __VA_ARGS__);                                                          \
    verif::trial_divisions = 0;                                                                                        \
    alarm(g_timeout);
static unsigned g_timeout = 20;

static void limbs(Json& js, const char* kh, const char* kl, uint32_t v) {
    js.num(kh, v >> 16).num(kl, v & 0xFFFF);
}

static void ev_isprime(Json& js, uint32_t n) {
    GUARDED("isprime(%u)", n);
    const bool r = isprime(n);
    alarm(0);
    js.begin("IsPrime");
    limbs(js, "hi", "lo", n);
    js.boolean("r", r).num("divs", (long)verif::trial_divisions).end();
}
static void ev_factor(Json& js, uint32_t n) {
    GUARDED("factor(%u)", n);
    const arr_int f = factor(n);
    alarm(0);
    std::vector<long> fh, fl;
    for (int i = 0; i < f.size(); ++i) {
        const uint32_t v = (uint32_t)f[i];
        fh.push_back(v >> 16);
        fl.push_back(v & 0xFFFF);
    }
    js.begin("Factor");
    limbs(js, "hi", "lo", n);
    js.arr("fh", fh).arr("fl", fl).num("divs", (long)verif::trial_divisions).end();
}
static void ev_nextprime(Json& js, uint32_t n) {
    GUARDED("nextprime(%u)", n);
    const uint32_t r = nextprime(n);
    alarm(0);
    js.begin("NextPrime");
    limbs(js, "hi", "lo", n);
    limbs(js, "rh", "rl", r);
    js.num("divs", (long)verif::trial_divisions).end();
}
static void ev_primes(Json& js, uint32_t n, bool full) {
    GUARDED("primes(%u)", n);
    const arr_int p = primes(n);
    alarm(0);
    std::vector<long> lst, tail;
    if (full) {
        for (int i = 0; i < p.size(); ++i) {
            lst.push_back(p[i]);
        }
    }
    for (int i = std::max(0, p.size() - 4); i < p.size(); ++i) {
        tail.push_back(p[i]);
    }
    bool incr = true;
    for (int i = 1; i < p.size(); ++i) {
        incr = incr && p[i - 1] < p[i];
    }
    js.begin("Primes").num("n", n).boolean("full", full).num("count", p.size()).arr("list", lst).arr("tail", tail)
      .boolean("increasing", incr).num("divs", (long)verif::trial_divisions).end();
}

int main(int argc, char** argv) {
    const std::string mode = vh::arg(argc, argv, "--mode", "small");
    const long a = std::atol(vh::arg(argc, argv, "--a", "0"));
    const long b = std::atol(vh::arg(argc, argv, "--b", "4096"));
    const long seed = std::atol(vh::arg(argc, argv, "--seed", "1"));
    const long budget = std::atol(vh::arg(argc, argv, "--budget", "100"));
    g_timeout = (unsigned)std::atol(vh::arg(argc, argv, "--timeout", "20"));
    FILE* f = vh::open_out(vh::arg(argc, argv, "--out", "/dev/stdout"));
    g_f = f;
    Json js(f);
    js.flush_each = false;
    std::signal(SIGALRM, on_alarm);
    vh::Rng rng(seed);

    if (mode == "small") {
        // exhaustive over [a, b): isprime as a set, nextprime as a vector, nextpow2 / ispow2 as change points
        const long CH = 2048;
        for (long lo = a; lo < b; lo += CH) {
            const long hi = std::min(b, lo + CH);
            std::vector<long> pr, np, ch, p2;
            unsigned long long maxd = 0;
            GUARDED("isprime range [%ld,%ld)", lo, hi);
            for (long n = lo; n < hi; ++n) {
                verif::trial_divisions = 0;
                if (isprime((uint32_t)n)) {
                    pr.push_back(n);
                }
                maxd = std::max(maxd, verif::trial_divisions);
            }
            alarm(0);
            js.begin("IsPrimeRange").num("a", lo).num("b", hi).arr("primes", pr).num("maxdivs", (long)maxd).end();
            int prev = (lo > 0) ? nextpow2((int)lo - 1) : 0;
            const int np2a = nextpow2((int)lo);
            for (long m = lo; m < hi; ++m) {
                const int v = nextpow2((int)m);
                if (m > lo && v != prev) {
                    ch.push_back(m);
                }
                prev = v;
                if (ispow2((int)m) && m >= 1) {
                    p2.push_back(m);
                }
            }
            js.begin("Pow2Range").num("a", lo).num("b", hi).num("np2a", np2a).arr("changes", ch).arr("pow2s", p2).end();
        }
    } else if (mode == "factor") {
        for (long n = std::max(2L, a); n < b; ++n) {
            ev_factor(js, (uint32_t)n);
        }
    } else if (mode == "nextprime") {
        const long CH = 512;
        for (long lo = a; lo < b; lo += CH) {
            const long hi = std::min(b, lo + CH);
            std::vector<long> np;
            unsigned long long maxd = 0;
            GUARDED("nextprime range [%ld,%ld)", lo, hi);
            for (long n = lo; n < hi; ++n) {
                verif::trial_divisions = 0;
                np.push_back(nextprime((uint32_t)n));
                maxd = std::max(maxd, verif::trial_divisions);
            }
            alarm(0);
            js.begin("NextPrimeRange").num("a", lo).num("b", hi).arr("vals", np).num("maxdivs", (long)maxd).end();
        }
        for (long n = std::max(0L, a); n < std::min(b, 9000L); n += 37) {
            ev_primes(js, (uint32_t)n, true);
        }
    } else if (mode == "windows") {
        // arguments around the word-size boundaries and squares / products of primes near 2^16
        std::vector<uint32_t> centres = {1u << 16, 1u << 24, 1u << 31, 65521u * 65521u, 4294967295u};
        const uint32_t p16[] = {65521, 65519, 65497, 65479, 65449, 65447, 65437, 65423, 65419, 65413, 65537, 65539, 65543};
        std::vector<uint32_t> args;
        for (uint32_t c : centres) {
            for (long t = 0; t < budget; ++t) {
                const long off = rng.range(-4096, 4096);
                const long long v = (long long)c + off;
                if (v >= 2 && v <= 4294967295LL) {
                    args.push_back((uint32_t)v);
                }
            }
            for (long off : {-2L, -1L, 0L, 1L, 2L}) {
                const long long v = (long long)c + off;
                if (v >= 2 && v <= 4294967295LL) {
                    args.push_back((uint32_t)v);
                }
            }
        }
        for (int i = 0; i < 13; ++i) {
            for (int j = i; j < 13; ++j) {
                const unsigned long long v = (unsigned long long)p16[i] * p16[j];
                if (v <= 4294967295ULL && (i + j) % 3 == (int)(seed % 3)) {
                    args.push_back((uint32_t)v);
                }
            }
        }
        // arguments with structure: perfect squares and cubes of composite roots, smooth numbers with repeated factors
        for (long t = 0; t < budget; ++t) {
            const unsigned long long r = (t % 4 == 0) ? (unsigned long long)rng.range(256, 300) : (unsigned long long)rng.range(256, 65535);
            args.push_back((uint32_t)(r * r));
            const unsigned long long c = (unsigned long long)rng.range(2, 1625);
            args.push_back((uint32_t)(c * c * c));
            static const uint32_t SP[] = {2, 3, 5, 7, 11, 13, 17, 19, 23, 29, 31, 37, 41, 43, 47, 251, 257, 65521};
            unsigned long long v = 1;
            for (int q = 0; q < 12; ++q) {
                const uint32_t f = SP[rng.range(0, 17)];
                if (v * f <= 4294967295ULL) {
                    v *= f;
                }
            }
            if (v >= 2) {
                args.push_back((uint32_t)v);
            }
        }
        for (unsigned long long r : {258ULL, 259ULL, 46340ULL, 65535ULL, 65534ULL, 30030ULL, 510ULL}) {
            args.push_back((uint32_t)(r * r));
        }
        args.push_back(4294967291u);   // largest 32-bit prime
        args.push_back(4294967279u);
        args.push_back(2147483647u);   // 2^31 - 1 (prime)
        args.push_back(2147483629u);
        for (long t = 0; t < budget; ++t) {
            args.push_back((uint32_t)rng.next());
        }
        for (uint32_t n : args) {
            ev_isprime(js, n);
            ev_factor(js, n);
            if (n <= 4294967291u) {
                ev_nextprime(js, n);
            }
        }
        for (uint32_t n : {1u << 14, (1u << 16) + 1, 100000u}) {
            ev_primes(js, n, false);
        }
        // the list is a function of the bound alone: smaller and repeated bounds (primes themselves, their neighbours) after larger ones
        for (uint32_t n : {1009u, 1009u, 997u, 998u, 7919u, 2u, 3u, 65521u, 65521u, 1008u, 1010u, 100000u, 99991u, 13u}) {
            ev_primes(js, n, n <= 1100);
        }
        // nextpow2 / ispow2 near every power of two and at INT_MAX
        for (int k = 1; k <= 30; ++k) {
            for (long off = -2; off <= 2; ++off) {
                const long m = (1L << k) + off;
                if (m >= 1 && m <= INT_MAX) {
                    js.begin("Pow2").raw("m", m).num("np2", nextpow2((int)m)).boolean("isp2", ispow2((int)m)).end();
                }
            }
        }
        for (long t = 0; t < budget; ++t) {
            const long m = (long)(rng.next() % (uint64_t)INT_MAX) + 1;
            js.begin("Pow2").raw("m", m).num("np2", nextpow2((int)m)).boolean("isp2", ispow2((int)m)).end();
        }
        js.begin("Pow2").raw("m", 2147483647).num("np2", nextpow2(2147483647)).boolean("isp2", ispow2(2147483647)).end();
        js.begin("Pow2").raw("m", 1073741824).num("np2", nextpow2(1073741824)).boolean("isp2", ispow2(1073741824)).end();
    } else {
        return 3;
    }
    js.flush();
    std::fclose(f);
    return 0;
}
