// Conformance driver for Trace_Transform.tla (C01 forward transforms, C02 inverse transforms / STFT).
//   fft_drv --out t --mode imp   --a A --b B             impulse rows -> twiddle exponents (T1)
//   fft_drv --out t --mode resid --a A --b B --seed S    all input classes x APIs vs long-double DFT (T3) + metamorphic (T1m)
//   fft_drv --out t --mode big   --seed S --budget N     sampled lengths up to 2^17, sampled-bin oracle
//   fft_drv --out t --mode czt   --seed S --budget N
//   fft_drv --out t --mode inv   --a A --b B --seed S    ifft / irfft round trips, odd-n rejection
//   fft_drv --out t --mode stft  --seed S --budget N
#include "common.h"
#include <dsplib.h>
#include <complex>
#include <memory>

using namespace dsplib;
using vh::Json;
using LD = long double;
using LC = std::complex<long double>;
static const LD PI_L = 3.14159265358979323846264338327950288L;
static const double EPS = 2.220446049250313e-16;

static std::vector<LC> tw_table(int n) {
    std::vector<LC> t(n);
    for (int k = 0; k < n; ++k) {
        t[k] = LC(cosl(2 * PI_L * k / n), -sinl(2 * PI_L * k / n));
    }
    return t;
}
static std::vector<LC> dft_ld(const std::vector<LC>& x, const std::vector<LC>& tw) {
    const int n = (int)x.size();
    std::vector<LC> X(n);
    for (int k = 0; k < n; ++k) {
        LC acc = 0;
        long idx = 0;
        for (int m = 0; m < n; ++m) {
            acc += x[m] * tw[idx];
            idx += k;
            if (idx >= n) {
                idx -= n;
            }
        }
        X[k] = acc;
    }
    return X;
}
static double rel_l2(const arr_cmplx& got, const std::vector<LC>& ref) {
    if ((size_t)got.size() != ref.size()) {
        return 1e30;
    }
    LD num = 0, den = 0;
    for (size_t i = 0; i < ref.size(); ++i) {
        const LC d = LC(got[i].re, got[i].im) - ref[i];
        num += std::norm(d);
        den += std::norm(ref[i]);
    }
    if (!(num == num)) {
        return 1e30;
    }
    if (den == 0) {
        return num == 0 ? 0 : 1e30;
    }
    return (double)sqrtl(num / den);
}
static long milli(double err, double bound) {
    const double v = err / bound * 1000.0;
    return (long)std::min(1e9, std::ceil(v));
}

// ---------------------------------------------------------------- input classes
static const char* CLS[] = {"gauss", "imp0", "impmid", "implast", "const", "tone", "alt", "dyn"};
static std::vector<LC> make_input(vh::Rng& rng, int n, int cls, bool real) {
    std::vector<LC> x(n, LC(0, 0));
    switch (cls) {
    case 0:
        for (auto& v : x) { v = LC(rng.gauss(), real ? 0 : rng.gauss()); }
        break;
    case 1: x[0] = 1; break;
    case 2: x[n / 2] = LC(1, real ? 0 : -0.5); break;
    case 3: x[n - 1] = -1; break;
    case 4:
        for (auto& v : x) { v = LC(0.75, real ? 0 : -1.25); }
        break;
    case 5: {
        const int b = (int)rng.range(0, n - 1);
        for (int i = 0; i < n; ++i) {
            const LD ph = 2 * PI_L * ((long)b * i % n) / n;
            x[i] = real ? LC(cosl(ph), 0) : LC(cosl(ph), sinl(ph));
        }
        break;
    }
    case 6:
        for (int i = 0; i < n; ++i) { x[i] = (i % 2) ? -1 : 1; }
        break;
    default:
        for (auto& v : x) {
            const double m = std::pow(10.0, (double)rng.range(-150, 150));
            v = LC(m * rng.gauss(), real ? 0 : m * rng.gauss());
        }
    }
    // inputs are doubles
    for (auto& v : x) {
        v = LC((double)v.real(), (double)v.imag());
    }
    return x;
}
static arr_cmplx toC(const std::vector<LC>& x) {
    arr_cmplx a(x.size());
    for (size_t i = 0; i < x.size(); ++i) {
        a[i] = cmplx_t((double)x[i].real(), (double)x[i].imag());
    }
    return a;
}
static arr_real toR(const std::vector<LC>& x) {
    arr_real a(x.size());
    for (size_t i = 0; i < x.size(); ++i) {
        a[i] = (double)x[i].real();
    }
    return a;
}
static double maxdiff_rel(const arr_cmplx& a, const arr_cmplx& b) {
    if (a.size() != b.size()) {
        return 1e30;
    }
    LD num = 0, den = 0;
    for (int i = 0; i < a.size(); ++i) {
        num += (LD)abs2(a[i] - b[i]);
        den += (LD)abs2(b[i]);
    }
    if (!(num == num)) {
        return 1e30;
    }
    return den == 0 ? (num == 0 ? 0 : 1e30) : (double)sqrtl(num / den);
}

static void resid(Json& js, const char* clause, const char* api, int n, int n2, const char* cls, double err, double bound,
                  int outlen) {
    js.begin("Resid").str("clause", clause).str("api", api).num("n", n).num("n2", n2).str("cls", cls).num("outlen", outlen)
      .num("err_milli", milli(err, bound)).end();
}

// ---------------------------------------------------------------- impulse rows: which twiddle multiplies which sample
static void run_imp(Json& js, int a, int b) {
    for (int n = std::max(1, a); n < b; ++n) {
        const auto tw = tw_table(n);
        for (int api = 0; api < 4; ++api) {
            static const char* names[] = {"fft_c", "fft_r", "plan_c", "plan_r"};
            for (int m = 0; m < n; ++m) {
                arr_cmplx X;
                const char* o = vh::outcome([&] {
                    if (api == 0) {
                        arr_cmplx x(n);
                        x[m] = 1;
                        X = fft(x);
                    } else if (api == 1) {
                        arr_real x(n);
                        x[m] = 1;
                        X = fft(x);
                    } else if (api == 2) {
                        arr_cmplx x(n);
                        x[m] = 1;
                        FftPlan p(n);
                        X = p(x);
                    } else {
                        arr_real x(n);
                        x[m] = 1;
                        FftPlanR p(n);
                        X = p.solve(x);
                    }
                });
                std::vector<long> exps;
                LD err2 = 0;
                for (int k = 0; k < X.size(); ++k) {
                    // nearest n-th root of unity exp(-2 pi i e / n)
                    LD ang = -atan2l((LD)X[k].im, (LD)X[k].re) * n / (2 * PI_L);
                    long e = (long)llroundl(ang);
                    e = ((e % n) + n) % n;
                    exps.push_back(e);
                    const LC d = LC(X[k].re, X[k].im) - tw[e];
                    err2 += std::norm(d);
                }
                const double err = (double)sqrtl(err2 / std::max(1, n));
                js.begin("ImpRow").str("api", names[api]).num("n", n).num("m", m).str("o", o).num("outlen", X.size())
                  .arr("exps", exps).num("err_milli", milli(err, 32.0 * n * EPS)).end();
            }
        }
    }
}

// ---------------------------------------------------------------- residuals + metamorphic relations per length
static void run_resid(Json& js, vh::Rng& rng, int a, int b, bool padall) {
    for (int n = std::max(1, a); n < b; ++n) {
        const auto tw = tw_table(n);
        const double bound = 32.0 * n * EPS;
        for (int cls = 0; cls < 8; ++cls) {
            // complex input
            {
                const auto x = make_input(rng, n, cls, false);
                const auto ref = dft_ld(x, tw);
                const arr_cmplx xa = toC(x);
                const arr_cmplx X1 = fft(xa);
                resid(js, "C01.l2", "fft_c", n, n, CLS[cls], rel_l2(X1, ref), bound, X1.size());
                FftPlan p(n);
                const arr_cmplx X2 = p(xa);
                resid(js, "C01.l2", "plan_c", n, n, CLS[cls], rel_l2(X2, ref), bound, X2.size());
                const arr_cmplx X3 = fft(xa, n);
                resid(js, "C01.l2", "fft_c_n", n, n, CLS[cls], rel_l2(X3, ref), bound, X3.size());
            }
            // real input: transform, equality with complex path, conjugate symmetry
            {
                const auto x = make_input(rng, n, cls, true);
                const auto ref = dft_ld(x, tw);
                const arr_real xr = toR(x);
                const arr_cmplx X1 = fft(xr);
                resid(js, "C01.l2", "fft_r", n, n, CLS[cls], rel_l2(X1, ref), bound, X1.size());
                const arr_cmplx X2 = rfft(xr);
                resid(js, "C01.l2", "rfft", n, n, CLS[cls], rel_l2(X2, ref), bound, X2.size());
                FftPlanR p(n);
                const arr_cmplx X3 = p(xr);
                resid(js, "C01.l2", "plan_r", n, n, CLS[cls], rel_l2(X3, ref), bound, X3.size());
                {   // the raw-pointer interface of the plan objects (base-class overloads): all n bins into the caller's buffer
                    arr_cmplx Y(n), Z(n);
                    for (int i = 0; i < n; ++i) {
                        Y[i] = cmplx_t(-7, 7), Z[i] = cmplx_t(-7, 7);   // a stale buffer
                    }
                    const BaseFftPlanR& br = p;
                    br.solve(xr.data(), Y.data(), n);
                    resid(js, "C01.l2", "plan_r_ptr", n, n, CLS[cls], rel_l2(Y, ref), bound, Y.size());
                    FftPlan pc(n);
                    const BaseFftPlanC& bc = pc;
                    const arr_cmplx xcplx = complex(xr);
                    bc.solve(xcplx.data(), Z.data(), n);
                    resid(js, "C01.l2", "plan_c_ptr", n, n, CLS[cls], rel_l2(Z, ref), bound, Z.size());
                }
                const arr_cmplx X4 = fft(complex(xr));
                resid(js, "C01.real_eq_cmplx", "fft_r", n, n, CLS[cls], maxdiff_rel(X1, X4), 2 * bound, X1.size());
                // conjugate symmetry X[k] = conj(X[n-k])
                LD num = 0, den = 0;
                for (int k = 0; k < X1.size(); ++k) {
                    const cmplx_t d = X1[k] - conj(X1[(n - k) % n]);
                    num += (LD)abs2(d);
                    den += (LD)abs2(X1[k]);
                }
                const double sym = den == 0 ? (num == 0 ? 0 : 1e30) : (double)sqrtl(num / den);
                resid(js, "C01.conjsym", "fft_r", n, n, CLS[cls], sym, 2 * bound, X1.size());
            }
        }
        // pad / truncate targets n' in 1..2n (all for small n, sampled above)
        std::vector<int> targets;
        if (n <= 64 || padall) {
            for (int t = 1; t <= 2 * n; ++t) {
                targets.push_back(t);
            }
        } else {
            for (int q = 0; q < 6; ++q) {
                targets.push_back((int)rng.range(1, 2 * n));
            }
            targets.push_back(n - 1 > 0 ? n - 1 : 1);
            targets.push_back(n + 1);
            targets.push_back(2 * n);
        }
        const auto xc = make_input(rng, n, 0, false);
        const auto xr = make_input(rng, n, 0, true);
        for (int t : targets) {
            std::vector<LC> rc(t, LC(0, 0)), rr(t, LC(0, 0));
            for (int i = 0; i < std::min(n, t); ++i) {
                rc[i] = xc[i], rr[i] = xr[i];
            }
            if (t > n + 1) {
                // an earlier call that padded a LONGER input to the same length must leave nothing behind in the padding
                const int dl = t - 1;
                (void)fft(arr_real(dl) + 1.5, t);
                (void)rfft(arr_real(dl) - 2.5, t);
                (void)fft(arr_cmplx(dl) + cmplx_t(1, -1), t);
            }
            const arr_cmplx A = fft(toC(xc), t), B = fft(toC(rc));
            resid(js, "C01.pad", "fft_c", n, t, "gauss", maxdiff_rel(A, B), 64.0 * t * EPS, A.size());
            const arr_cmplx C = fft(toR(xr), t), D = fft(toR(rr));
            resid(js, "C01.pad", "fft_r", n, t, "gauss", maxdiff_rel(C, D), 64.0 * t * EPS, C.size());
            const arr_cmplx E = rfft(toR(xr), t);
            resid(js, "C01.pad", "rfft", n, t, "gauss", maxdiff_rel(E, D), 64.0 * t * EPS, E.size());
        }
    }
}

// ---------------------------------------------------------------- sampled large lengths
static bool is_prime(long n) {
    if (n < 2) {
        return false;
    }
    for (long d = 2; d * d <= n; ++d) {
        if (n % d == 0) {
            return false;
        }
    }
    return true;
}
static int pick_length(vh::Rng& rng, int maxn) {
    for (;;) {
        const int kind = (int)rng.range(0, 5);
        long n = 0;
        if (kind == 0) {   // prime
            n = rng.range(4097, maxn);
            while (!is_prime(n)) {
                ++n;
            }
        } else if (kind == 1) {   // semiprime
            long p = rng.range(2, 400), q = rng.range(2, 400);
            while (!is_prime(p)) { ++p; }
            while (!is_prime(q)) { ++q; }
            n = p * q;
        } else if (kind == 2) {   // prime power
            const long pr[] = {2, 3, 5, 7, 11, 13};
            const long p = pr[rng.range(0, 5)];
            n = p;
            while (n * p <= maxn && rng.range(0, 3) != 0) {
                n *= p;
            }
        } else if (kind == 3) {   // 2^k * p
            long p = rng.range(3, 300);
            while (!is_prime(p)) { ++p; }
            n = p << rng.range(1, 9);
        } else if (kind == 4) {   // highly composite
            n = 1;
            for (long f : {2, 2, 2, 3, 3, 5, 7, 11}) {
                if (rng.coin() && n * f <= maxn) {
                    n *= f;
                }
            }
            n *= rng.range(1, 12);
        } else {
            n = rng.range(4097, maxn);
        }
        if (n >= 2 && n <= maxn) {
            return (int)n;
        }
    }
}
static void run_big(Json& js, vh::Rng& rng, long budget, int maxn) {
    for (long t = 0; t < budget; ++t) {
        const int n = pick_length(rng, maxn);
        const bool real = rng.coin();
        const int cls = (int)rng.range(0, 7);
        const auto x = make_input(rng, n, cls, real);
        arr_cmplx X = real ? fft(toR(x)) : fft(toC(x));
        // sampled-bin oracle: 48 random bins, each an O(n) long-double sum; error relative to the rms bin magnitude
        LD nx2 = 0;
        for (auto& v : x) {
            nx2 += std::norm(v);
        }
        const LD rmsbin = sqrtl(nx2);   // Parseval: sum |X|^2 = n sum |x|^2 -> rms |X[k]| = sqrt(sum |x|^2)
        LD worst = 0;
        for (int q = 0; q < 48; ++q) {
            const int k = (int)rng.range(0, n - 1);
            LC acc = 0;
            for (int m = 0; m < n; ++m) {
                const long e = ((long)m * k) % n;
                acc += x[m] * LC(cosl(2 * PI_L * e / n), -sinl(2 * PI_L * e / n));
            }
            worst = std::max(worst, std::abs(LC(X[k].re, X[k].im) - acc));
        }
        // Parseval
        LD nX2 = 0;
        for (int k = 0; k < X.size(); ++k) {
            nX2 += (LD)abs2(X[k]);
        }
        const double pars = nx2 == 0 ? 0 : (double)fabsl(nX2 / (n * nx2) - 1);
        const double bound = 32.0 * n * EPS;
        resid(js, "C01.bins", real ? "fft_r" : "fft_c", n, n, CLS[cls], rmsbin == 0 ? 0 : (double)(worst / rmsbin), bound, X.size());
        resid(js, "C01.parseval", real ? "fft_r" : "fft_c", n, n, CLS[cls], pars, 2 * bound, X.size());
    }
}

static void run_czt(Json& js, vh::Rng& rng, long budget) {
    for (long t = 0; t < budget; ++t) {
        const int n = (int)rng.range(1, 400);
        // square transforms (m = n) and near-square ones are the common use (zoom FFT): one case in three
        const int m = (t % 3 == 1) ? std::max(1, n + (int)rng.range(-1, 1) * (int)rng.range(0, 1)) : (int)rng.range(1, 400);
        const LD wa = (LD)(rng.unif() * 2 - 1) * PI_L * (rng.coin() ? 1.0 : 0.05);
        const LD amag = 0.5 + 1.5 * rng.unif() * (rng.coin() ? 1 : 0) + (rng.coin() ? 0 : 0.5);
        const LD aarg = (LD)(rng.unif() * 2 - 1) * PI_L;
        const cmplx_t w((double)cosl(wa), (double)sinl(wa));
        cmplx_t av((double)(amag * cosl(aarg)), (double)(amag * sinl(aarg)));
        if (rng.range(0, 4) == 0) {
            av = cmplx_t(1, 0);
        }
        const auto x = make_input(rng, n, (int)rng.range(0, 6), false);
        // two calls with the same n, m and w but different start points a, back to back: nothing of the first may be reused
        for (int rep = 0; rep < 2; ++rep) {
        if (rep == 1) {
            av = cmplx_t(av.im * 0.9 + 0.3, -av.re * 1.1);
            if (abs(av) < 0.5 || abs(av) > 2) {
                av = cmplx_t(0.6, -0.9);
            }
        }
        arr_cmplx X;
        const char* o = vh::outcome([&] { X = czt(toC(x), m, w, av); });
        // reference: sum_j x[j] a^-j w^(jk), with w and a as the doubles actually passed
        const LD warg = atan2l((LD)w.im, (LD)w.re), wmag = hypotl((LD)w.re, (LD)w.im);
        const LD aar = atan2l((LD)av.im, (LD)av.re), ama = hypotl((LD)av.re, (LD)av.im);
        std::vector<LC> ref(m);
        LD scale = 0;
        for (int k = 0; k < m; ++k) {
            LC acc = 0;
            LD mag = 0;
            for (int j = 0; j < n; ++j) {
                const LD r = powl(ama, -(LD)j) * powl(wmag, (LD)j * k);
                const LD ph = -aar * j + warg * (LD)j * k;
                const LC term = x[j] * LC(r * cosl(ph), r * sinl(ph));
                acc += term;
                mag += std::abs(term);
            }
            ref[k] = acc;
            scale += mag * mag;
        }
        LD num = 0;
        for (int k = 0; k < m && k < X.size(); ++k) {
            num += std::norm(LC(X[k].re, X[k].im) - ref[k]);
        }
        // "the same kind of accuracy": relative to the l2 size of the terms, bound 32 (n + m) eps with the chirp's
        // angle error (w given as a double: |arg error| <= eps, multiplied by up to n*m/2) added
        const double err = scale == 0 ? 0 : (double)sqrtl(num / scale);
        // chirp-z evaluates w^(k^2/2) for |k| < max(n, m): the phase of such a power carries the rounding of arg(w) times k^2/2,
        // whatever the algorithm does afterwards; the direct sum would only see j*k <= n*m.  (The first bound, with n*m alone,
        // raised a false alarm in the thorough tier for m << n.)
        const double mx = (double)std::max(n, m);
        const double bound = 32.0 * (n + m) * EPS + 4.0 * EPS * (double)n * m + 2.0 * EPS * (double)fabsl(warg) * mx * mx;
        js.begin("Resid").str("clause", "C01.czt").str("api", "czt").num("n", n).num("n2", m).str("cls", o)
          .num("outlen", X.size()).num("err_milli", milli(err, bound)).num("chirp_milli", milli(err, EPS * (double)fabsl(warg) * mx * mx + 1e-300)).end();
        }
    }
}

// ---------------------------------------------------------------- C02: inverses
static void run_inv(Json& js, vh::Rng& rng, int a, int b) {
    // a long-lived inverse real plan of an earlier length, used again after plans of other lengths were built
    std::unique_ptr<IfftPlanR> held;
    int heldn = 0;
    arr_cmplx heldX;
    arr_real heldx;
    for (int n = std::max(1, a); n < b; ++n) {
        const double bound = 64.0 * n * EPS;
        for (int cls : {0, 2, 4, 5, 7}) {
            const auto x = make_input(rng, n, cls, false);
            const arr_cmplx xa = toC(x);
            arr_cmplx y;
            const char* o = vh::outcome([&] { y = ifft(fft(xa)); });
            bool finite = true;
            for (int i = 0; i < y.size(); ++i) {
                finite = finite && std::isfinite(y[i].re) && std::isfinite(y[i].im);
            }
            js.begin("Inv").str("api", "ifft").num("n", n).str("cls", CLS[cls]).str("o", o).num("outlen", y.size())
              .boolean("finite", finite).num("err_milli", milli(maxdiff_rel(y, xa), bound)).end();
            // ifft against the defining inverse sum for a direct check of ifft alone
            if (cls == 0) {
                IfftPlan p(n);
                const arr_cmplx y2 = p(fft(xa));
                js.begin("Inv").str("api", "IfftPlan").num("n", n).str("cls", CLS[cls]).str("o", "ret").num("outlen", y2.size())
                  .boolean("finite", true).num("err_milli", milli(maxdiff_rel(y2, xa), bound)).end();
            }
        }
        // irfft: both input forms for even n, rejection for odd n
        const auto xr = make_input(rng, n, 0, true);
        const arr_real xra = toR(xr);
        const arr_cmplx X = rfft(xra);
        if (n % 2 == 0) {
            // a rejected request for the neighbouring odd lengths comes first: it must leave nothing behind
            for (int odd : {n - 1, n + 1}) {
                if (odd >= 1) {
                    const char* orej = vh::outcome([&] { (void)irfft(arr_cmplx(odd) + cmplx_t(1, 0), odd); });
                    js.begin("Inv").str("api", "irfft_odd").num("n", odd).str("cls", "const").str("o", orej).num("outlen", 0)
                      .boolean("finite", true).num("err_milli", 0).end();
                }
            }
        }
        for (int form = 0; form < 3; ++form) {
            arr_real y;
            static const char* fn[] = {"irfft_full", "irfft_half", "irfft_auto"};
            const char* o = vh::outcome([&] {
                if (form == 0) {
                    y = irfft(X, n);
                } else if (form == 1) {
                    y = irfft(arr_cmplx(X.slice(0, n / 2 + 1)), n);
                } else {
                    y = irfft(X);
                }
            });
            LD num = 0, den = 0;
            bool finite = true;
            for (int i = 0; i < y.size() && i < n; ++i) {
                num += (LD)(y[i] - xra[i]) * (y[i] - xra[i]);
                den += (LD)xra[i] * xra[i];
                finite = finite && std::isfinite(y[i]);
            }
            const double err = (y.size() != n) ? 1e30 : (den == 0 ? 0 : (double)sqrtl(num / den));
            js.begin("Inv").str("api", fn[form]).num("n", n).str("cls", "gauss").str("o", o).num("outlen", y.size())
              .boolean("finite", finite).num("err_milli", milli(err, bound)).end();
        }
        if (n % 2 == 0) {
            // fft(irfft(X, n)) = X for a conjugate-symmetric X
            arr_real y = irfft(X, n);
            const arr_cmplx X2 = fft(y);
            js.begin("Inv").str("api", "fft_irfft").num("n", n).str("cls", "gauss").str("o", "ret").num("outlen", X2.size())
              .boolean("finite", true).num("err_milli", milli(maxdiff_rel(X2, X), bound)).end();
            if (held) {
                const arr_real yh = (*held)(heldX);
                LD numh = 0, denh = 0;
                for (int i = 0; i < heldn; ++i) {
                    numh += (LD)(yh[i] - heldx[i]) * (yh[i] - heldx[i]);
                    denh += (LD)heldx[i] * heldx[i];
                }
                js.begin("Inv").str("api", "IfftPlanR_held").num("n", heldn).str("cls", "gauss").str("o", "ret").num("outlen", yh.size())
                  .boolean("finite", true).num("err_milli", milli(denh == 0 ? 0 : (double)sqrtl(numh / denh), 64.0 * heldn * EPS)).end();
            }
            if (!held || rng.range(0, 3) == 0) {
                held.reset(new IfftPlanR(n));
                heldn = n, heldX = X, heldx = xra;
            }
            IfftPlanR pr(n);
            const arr_real y3 = pr(X);
            LD num = 0, den = 0;
            for (int i = 0; i < n; ++i) {
                num += (LD)(y3[i] - xra[i]) * (y3[i] - xra[i]);
                den += (LD)xra[i] * xra[i];
            }
            js.begin("Inv").str("api", "IfftPlanR").num("n", n).str("cls", "gauss").str("o", "ret").num("outlen", y3.size())
              .boolean("finite", true).num("err_milli", milli(den == 0 ? 0 : (double)sqrtl(num / den), bound)).end();
        }
    }
}

// ---------------------------------------------------------------- C02: STFT
static arr_real make_window(int kind, int n, bool sym) {
    switch (kind) {
    case 0: return window::hann(n, sym);
    case 1: return window::hamming(n, sym);
    case 2: return window::blackman(n, sym);
    case 3: return window::cosine(n, sym);
    case 4: return window::kaiser(n, 4.0);
    default: return ones(n);
    }
}
static const char* WN[] = {"hann", "hamming", "blackman", "cosine", "kaiser", "rect"};

// two round trips with the same framing and the same window OBJECT whose coefficients are replaced in place in between
// (Hann, then Hamming, both COLA at 50 % overlap): nothing derived from the first window may survive
static void stft_refill(Json& js, vh::Rng& rng) {
    static const int NF2[] = {8, 16, 32, 64, 128};
    const int nfft = NF2[rng.range(0, 4)], ov = nfft / 2, hop = nfft - ov;
    const int nx = ov + (int)rng.range(2, 6) * hop;
    arr_real x(nx);
    for (int i = 0; i < nx; ++i) {
        x[i] = rng.gauss();
    }
    arr_real w = window::hann(nfft, false);
    const arr_real ham = window::hamming(nfft, false);
    for (int meth = 0; meth < 2; ++meth) {
        const OverlapMethod om = meth ? OverlapMethod::Wola : OverlapMethod::Ola;
        double worst = 0;
        for (int pass = 0; pass < 2; ++pass) {
            if (pass == 1) {
                for (int i = 0; i < nfft; ++i) {
                    w[i] = ham[i];   // same buffer, new coefficients
                }
            }
            if (!iscola(w, ov, om)) {
                continue;
            }
            const auto Y = stft(x, w, ov, nfft);
            const arr_real xr = istft(Y, w, ov, nfft, StftRange::Onesided, om);
            for (int i = 1; i < std::min(nx, xr.size()); ++i) {   // sample 0 has zero weight under the periodic Hann
                worst = std::max(worst, std::fabs(xr[i] - x[i]));
            }
        }
        js.begin("Resid").str("clause", "C02.stft-window-refilled").str("api", "istft").num("n", nfft).num("n2", meth).str("cls", "gauss")
          .num("outlen", nx).num("err_milli", milli(worst, 1e-9)).end();
    }
}

static void run_stft(Json& js, vh::Rng& rng, long budget) {
    static const int NF[] = {8, 12, 16, 20, 32, 64, 100, 128, 256, 512, 1024};
    long done = 0, iter = 0;
    while (done < budget) {
        stft_refill(js, rng);
        const int nfft = NF[rng.range(0, 10)];
        const int wk = (int)rng.range(0, 5);
        const bool sym = rng.coin();
        // full frames, and (one case in three) a window shorter than the transform: the first nwin samples of each zero-padded
        // nfft frame are windowed, the hop is counted in window samples
        const int nwin = (++iter % 3 == 0) ? std::max(2, (rng.coin() ? nfft / 2 : (int)rng.range(nfft / 2, nfft - 1))) : nfft;
        const arr_real win = make_window(wk, nwin, sym);
        // every overlap for small windows; COLA candidates (hop divides nwin) above
        std::vector<int> overlaps;
        if (nwin <= 32) {
            for (int ov = 0; ov < nwin; ++ov) {
                overlaps.push_back(ov);
            }
        } else {
            for (int hop = 1; hop <= nwin; ++hop) {
                if (nwin % hop == 0 || hop == nwin / 2 + 1 || hop == nwin / 3) {
                    overlaps.push_back(nwin - hop);
                }
            }
        }
        for (int ov : overlaps) {
            for (int meth = 0; meth < 2; ++meth) {
                const OverlapMethod om = meth ? OverlapMethod::Wola : OverlapMethod::Ola;
                bool cola = false;
                const char* oc = vh::outcome([&] { cola = iscola(win, ov, om); });
                if (std::string(oc) != "ret" || !cola) {
                    if (rng.range(0, 20) == 0) {
                        js.begin("Cola").num("nfft", nfft).str("win", WN[wk]).boolean("sym", sym).num("overlap", ov)
                          .num("method", meth).str("o", oc).boolean("cola", cola).end();
                    }
                    continue;
                }
                const int hop = nwin - ov;
                for (int rg = 0; rg < 3; ++rg) {
                    const StftRange range = rg == 0 ? StftRange::Onesided : rg == 1 ? StftRange::Twosided : StftRange::Centered;
                    // signal lengths aligned to the hop and not
                    const int nsegw = (int)rng.range(1, 6);
                    const int extra[] = {0, 1, hop - 1, (int)rng.range(0, hop)};
                    const int nx = ov + nsegw * hop + extra[rng.range(0, 3)] % std::max(1, hop);
                    // the transform pair is linear: the signal level is free (every fourth case far from unit scale)
                    static const double LV[] = {1e-10, 1e-14, 1e6, 3e-7};
                    const double lev = (done % 4 == 3) ? LV[rng.range(0, 3)] : 1.0;
                    arr_real x(nx);
                    for (int i = 0; i < nx; ++i) {
                        x[i] = lev * rng.gauss();
                    }
                    std::vector<arr_cmplx> Y;
                    arr_real xr;
                    // the convenience overloads (periodic Hann, overlap nfft/2) stand for exactly these explicit arguments
                    const bool conv = std::string(WN[wk]) == "hann" && !sym && ov == nfft / 2 && nwin == nfft;
                    const char* o = vh::outcome([&] {
                        if (conv) {
                            Y = stft(x, nfft, range);
                            xr = istft(Y, nfft, range, om);
                        } else {
                            Y = stft(x, win, ov, nfft, range);
                            xr = istft(Y, win, ov, nfft, range, om);
                        }
                    });
                    // accumulated window weight per output sample, in long double
                    const int nseg = (int)Y.size();
                    const int xlen = nseg > 0 ? nwin + (nseg - 1) * hop : 0;
                    // accumulated weight and accumulated |window| per output sample: a rounding error e of an inverse frame
                    // comes back as (sum_s |w_s| e) / weight, i.e. amplified by 1/w where a single WOLA segment covers the sample
                    std::vector<LD> wsum(std::max(0, xlen), 0), asum(std::max(0, xlen), 0);
                    LD wmax = 0;
                    for (int s = 0; s < nseg; ++s) {
                        for (int i = 0; i < nwin; ++i) {
                            wsum[s * hop + i] += meth ? (LD)win[i] * win[i] : (LD)win[i];
                            asum[s * hop + i] += meth ? fabsl((LD)win[i]) : 1.0L;
                        }
                    }
                    for (LD v : wsum) {
                        wmax = std::max(wmax, fabsl(v));
                    }
                    bool finite = true;
                    LD xms = 0;
                    for (int i = 0; i < nx; ++i) {
                        xms += (LD)x[i] * x[i];
                    }
                    const double xrms = (double)sqrtl(xms / std::max(1, nx)) + 1e-300;
                    long bins_ok = 1;
                    for (auto& fr : Y) {
                        const int eb = rg == 0 ? nfft / 2 + 1 : nfft;
                        if (fr.size() != eb) {
                            bins_ok = 0;
                        }
                    }
                    long wpos = 0;
                    double err = 0;   // worst sample, in units of its own tolerance
                    for (int i = 0; i < xr.size(); ++i) {
                        finite = finite && std::isfinite(xr[i]);
                        // "non-zero weight": anything above 1e-12 of the largest weight (the library's own guard is nseg * eps)
                        if (i < xlen && i < nx && fabsl(wsum[i]) > 1e-12L * wmax) {
                            const double tol = 64.0 * nfft * EPS * xrms * (double)(asum[i] / fabsl(wsum[i]));
                            err = std::max(err, std::fabs(xr[i] - x[i]) / tol);
                            ++wpos;
                        }
                    }
                    js.begin("Stft").num("nfft", nfft).num("nwin", nwin).str("win", WN[wk]).boolean("sym", sym).num("overlap", ov).num("method", meth)
                      .num("range", rg).num("nx", nx).str("o", o).num("nseg", nseg).num("bins_ok", bins_ok)
                      .num("outlen", xr.size()).boolean("finite", finite).num("wpos", wpos)
                      .num("err_milli", milli(err, 1.0)).end();
                    ++done;
                }
            }
        }
    }
}

int main(int argc, char** argv) {
    const std::string mode = vh::arg(argc, argv, "--mode", "imp");
    const int a = std::atoi(vh::arg(argc, argv, "--a", "1"));
    const int b = std::atoi(vh::arg(argc, argv, "--b", "33"));
    const long seed = std::atol(vh::arg(argc, argv, "--seed", "1"));
    const long budget = std::atol(vh::arg(argc, argv, "--budget", "50"));
    const int maxn = std::atoi(vh::arg(argc, argv, "--maxn", "131072"));
    FILE* f = vh::open_out(vh::arg(argc, argv, "--out", "/dev/stdout"));
    Json js(f);
    js.flush_each = false;
    vh::Rng rng(seed);
    if (mode == "imp") {
        run_imp(js, a, b);
    } else if (mode == "resid") {
        run_resid(js, rng, a, b, false);
    } else if (mode == "big") {
        run_big(js, rng, budget, maxn);
    } else if (mode == "czt") {
        run_czt(js, rng, budget);
    } else if (mode == "inv") {
        run_inv(js, rng, a, b);
    } else if (mode == "stft") {
        run_stft(js, rng, budget);
    } else {
        return 3;
    }
    js.flush();
    std::fclose(f);
    return 0;
}
