// Conformance driver for Trace_HarmSearch.tla (X04): thd / snr on precomputed integer power spectra.
//   harm_drv --out t --seed S --budget N
#include "common.h"

#include <dsplib.h>

#include <cmath>
#include <csignal>
#include <string>
#include <unistd.h>
#include <vector>

using namespace dsplib;
using vh::Json;

// a call that does not come back within 20 s is recorded as such (the analysis is linear in the number of bins)
static Json* g_js = nullptr;
static std::vector<long> g_spec;
static int g_nharm = 0;
static bool g_aliased = false;
static void on_alarm(int) {
    g_js->begin("Harm").arr("spec", g_spec).num("nharm", g_nharm).boolean("aliased", g_aliased).str("o", "timeout")
      .arr("P", std::vector<long>{}).arr("F", std::vector<long>{}).num("snr_e3", -1).end();
    g_js->flush();
    _exit(0);
}

int main(int argc, char** argv) {
    const long seed = std::atol(vh::arg(argc, argv, "--seed", "1"));
    const long budget = std::atol(vh::arg(argc, argv, "--budget", "200"));
    FILE* f = vh::open_out(vh::arg(argc, argv, "--out", "/dev/stdout"));
    Json js(f);
    js.flush_each = false;
    g_js = &js;
    std::signal(SIGALRM, on_alarm);
    vh::Rng rng(seed);
    for (long t = 0; t < budget; ++t) {
        const int n = (t % 6 == 5) ? 32 : (int)rng.range(6, 32);
        std::vector<long> sp(n);
        const int kind = (int)rng.range(0, 5);
        // floor: small positive values, zeros now and then
        for (int i = 0; i < n; ++i) {
            sp[i] = kind == 4 ? rng.range(0, 3) : rng.range(0, 9) == 0 ? 0 : rng.range(1, 3);
        }
        // lobes at a fundamental and some of its multiples (some folded), heights decreasing; flat tops and ties allowed
        if (kind != 4) {
            const int f0 = (int)rng.range(1, std::max(1, n / 2));
            const int nl = (int)rng.range(1, 5);
            for (int h = 1; h <= nl; ++h) {
                long c = (long)f0 * h + (kind == 3 ? rng.range(-1, 1) : 0);
                if (c >= n) {
                    c = (kind == 2) ? (2L * n - c) % n : -1;   // folded, or simply beyond the band
                }
                if (c < 0 || c >= n) {
                    continue;
                }
                const long top = rng.range(6, 40) / h + 4;
                sp[c] = std::max(sp[c], top);
                if (rng.coin() && c + 1 < n) { sp[c + 1] = std::max(sp[c + 1], rng.coin() ? top : top / 2); }
                if (rng.coin() && c >= 1) { sp[c - 1] = std::max(sp[c - 1], top / 2); }
                if (rng.range(0, 3) == 0 && c + 2 < n) { sp[c + 2] = std::max(sp[c + 2], top / 4); }
            }
        }
        // one case in six: a wide lobe (flanks of 9..14 strictly decreasing bins) on a long spectrum
        if (t % 6 == 5 && n >= 30) {
            const int c = (int)rng.range(14, n - 15), fl = (int)rng.range(9, 14);
            for (int k = 0; k <= fl; ++k) {
                const long v = 3 * (fl - k) + 4 + (k == 0 ? 5 : 0);
                if (c - k >= 0) { sp[c - k] = v + (k ? 1 : 0); }
                if (c + k < n) { sp[c + k] = v; }
            }
        }
        long total = 0;
        for (long v : sp) { total += v; }
        if (total == 0) {
            sp[rng.range(0, n - 1)] = 5;
        }
        const int nharm = (int)rng.range(2, 5);
        const bool aliased = rng.coin();
        arr_real s(n);
        for (int i = 0; i < n; ++i) { s[i] = (double)sp[i]; }
        std::vector<long> P, F;
        long snr_e3 = -1;
        g_spec = sp, g_nharm = nharm, g_aliased = aliased;
        alarm(20);
        const char* o = vh::outcome([&] {
            const auto r = thd(s, nharm, aliased, rng.coin() ? SinadType::Power : SinadType::Psd);
            for (int k = 0; k < nharm; ++k) {
                const double p = std::pow(10.0, r.harmpow[k] / 10.0);     // back from dB; -inf -> 0
                P.push_back((long)std::llround(p));
                F.push_back(std::isfinite(r.harmfreq[k]) ? (long)std::llround(r.harmfreq[k] * 1e4) : -1);
            }
            const double q = std::pow(10.0, snr(s, nharm, aliased, SinadType::Power) / 10.0);
            snr_e3 = std::isfinite(q) ? (long)std::llround(q * 1e3) : -1;
        });
        alarm(0);
        js.begin("Harm").arr("spec", sp).num("nharm", nharm).boolean("aliased", aliased).str("o", o).arr("P", P).arr("F", F)
          .num("snr_e3", snr_e3).end();
    }
    js.flush();
    std::fclose(f);
    return 0;
}
