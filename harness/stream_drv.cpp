// Conformance driver for Trace_Stream.tla (C06 framing invariance; exact mode also pins C07/C08/C16 numbers).
//
//   stream_drv --out trace --mode exact  --k K --seed S --sets N     (all 2^(k-1) framings, integer data)
//   stream_drv --out trace --mode prefix --k K --seed S --sets N     (all framings, arbitrary data, vs one-call reference)
//   stream_drv --out trace --mode long   --seed S --budget N --maxlen LEN   (random heavy-tailed framings, interleaved instances)
#include "common.h"
#include <dsplib.h>
#include "ma-filter.h"
#include <functional>
#include <memory>
#include <map>
#include <numeric>

using namespace dsplib;
using vh::Json;

struct Sig
{
    std::vector<double> re, im;
    bool cplx{false};
    size_t size() const {
        return re.size();
    }
    void append(const Sig& s) {
        re.insert(re.end(), s.re.begin(), s.re.end());
        if (cplx) {
            im.insert(im.end(), s.im.begin(), s.im.end());
        }
    }
    Sig sub(size_t a, size_t b) const {
        Sig r;
        r.cplx = cplx;
        r.re.assign(re.begin() + a, re.begin() + b);
        if (cplx) {
            r.im.assign(im.begin() + a, im.begin() + b);
        }
        return r;
    }
};
static arr_real R(const Sig& s) {
    return arr_real(s.re);
}
static arr_cmplx C(const Sig& s) {
    arr_cmplx r(s.size());
    for (size_t i = 0; i < s.size(); ++i) {
        r[i] = cmplx_t(s.re[i], s.cplx ? s.im[i] : 0.0);
    }
    return r;
}
static Sig S(const arr_real& a) {
    Sig s;
    s.re.assign(a.begin(), a.end());
    return s;
}
static Sig S(const arr_cmplx& a) {
    Sig s;
    s.cplx = true;
    for (int i = 0; i < a.size(); ++i) {
        s.re.push_back(a[i].re);
        s.im.push_back(a[i].im);
    }
    return s;
}

using Chans = std::vector<Sig>;

struct Unit
{
    std::string proc;
    std::string name;                         // class name (prefix factories)
    std::function<void(Json&)> params;        // extra New fields
    std::function<Chans(const Chans&)> run;   // may throw
    int gran{1};
    long num{1}, den{1};     // outputs per input (prefix "other" only)
    int nin{1};              // number of input channels
    bool cplx_in{false};
    double scale{1};         // exact mode: output * scale is an integer
    bool fft_round{false};   // exact mode: output is rounded (FFT based)
    double tol_h2{0};        // ||h||_2 for fft_round tolerance
    int fftlen{0};
};
using Factory = std::function<Unit()>;

// ---------------------------------------------------------------- helpers to build coefficient sets
static std::vector<long> rand_ints(vh::Rng& r, int n, int lo, int hi) {
    std::vector<long> v(n);
    for (auto& x : v) {
        x = r.range(lo, hi);
    }
    return v;
}
// symmetric integer taps with power-of-two sum S (so that h/sum(h) is exact)
static std::vector<long> sym_taps(vh::Rng& r, int n, long* Sout) {
    std::vector<long> h(n);
    for (int i = 0; i < (n + 1) / 2; ++i) {
        h[i] = h[n - 1 - i] = r.range(-3, 6);
    }
    long sum = 0;
    for (long v : h) {
        sum += v;
    }
    long S = 16;
    while (S < 2 * std::labs(sum) + 8) {
        S *= 2;
    }
    const long need = S - sum;
    if (n % 2 == 1) {
        h[n / 2] += need;
    } else {
        if (need % 2 != 0) {   // make parity match by bumping a symmetric outer pair
            h[0] += 1;
            h[n - 1] += 1;
            sum += 2;
        }
        // recompute
        long s2 = 0;
        for (long v : h) {
            s2 += v;
        }
        long nd = S - s2;
        if (nd % 2 != 0) {
            h[n / 2 - 1] += 1, h[n / 2] += 1, nd -= 2;   // unreachable; keeps symmetry
        }
        h[n / 2 - 1] += nd / 2;
        h[n / 2] += nd / 2;
    }
    *Sout = S;
    return h;
}
static arr_real to_arr(const std::vector<long>& v) {
    arr_real a(v.size());
    for (size_t i = 0; i < v.size(); ++i) {
        a[i] = (double)v[i];
    }
    return a;
}

// ---------------------------------------------------------------- factories (exact-capable)
static Factory f_fir(std::vector<long> h) {
    return [h] {
        // every other instance gets its taps through the mutable coeffs() accessor after construction (same length):
        // c is "the coefficient vector" the object holds when process() is called
        static long alt = 0;
        std::shared_ptr<FirFilterR> f;
        if ((alt++) % 2) {
            arr_real other = to_arr(h);
            for (int i = 0; i < other.size(); ++i) {
                other[i] = 1.0 - other[i];
            }
            f = std::make_shared<FirFilterR>(other);
            f->coeffs() = to_arr(h);
        } else {
            f = std::make_shared<FirFilterR>(to_arr(h));
        }
        Unit u;
        u.proc = "fir";
        u.params = [h](Json& j) { j.arr("h", h).num("nh", h.size()); };
        u.run = [f](const Chans& in) { return Chans{S(f->process(R(in[0])))}; };
        return u;
    };
}
static Factory f_firc(std::vector<long> hr, std::vector<long> hi) {
    return [hr, hi] {
        arr_cmplx h(hr.size());
        for (size_t i = 0; i < hr.size(); ++i) {
            h[i] = cmplx_t(hr[i], hi[i]);
        }
        static long altc = 0;
        std::shared_ptr<FirFilterC> f;
        if ((altc++) % 2) {
            f = std::make_shared<FirFilterC>(h * cmplx_t(0, 1) + cmplx_t(1, 0));
            for (int i = 0; i < h.size(); ++i) {
                f->coeffs()[i] = h[i];   // element-wise, in place
            }
        } else {
            f = std::make_shared<FirFilterC>(h);
        }
        Unit u;
        u.proc = "firc";
        u.cplx_in = true;
        u.params = [hr, hi](Json& j) { j.arr("hr", hr).arr("hi", hi).num("nh", hr.size()); };
        u.run = [f](const Chans& in) { return Chans{S(f->process(C(in[0])))}; };
        return u;
    };
}
static Factory f_fftfir(std::vector<long> h) {
    return [h] {
        auto f = std::make_shared<FftFilter>(to_arr(h));
        Unit u;
        u.proc = "fftfir";
        u.fft_round = true;
        double h2 = 0;
        for (long v : h) {
            h2 += (double)v * v;
        }
        u.tol_h2 = std::sqrt(h2);
        u.fftlen = 1 << nextpow2(2 * (int)h.size());
        u.params = [h](Json& j) { j.arr("h", h).num("nh", h.size()); };
        u.run = [f](const Chans& in) { return Chans{S(f->process(R(in[0])))}; };
        u.num = 0;   // block structured
        return u;
    };
}
static Factory f_fftfirc(std::vector<long> hr, std::vector<long> hi) {
    return [hr, hi] {
        arr_cmplx h(hr.size());
        double h2 = 0;
        for (size_t i = 0; i < hr.size(); ++i) {
            h[i] = cmplx_t(hr[i], hi[i]);
            h2 += (double)hr[i] * hr[i] + (double)hi[i] * hi[i];
        }
        auto f = std::make_shared<FftFilter>(h);
        Unit u;
        u.proc = "fftfirc";
        u.cplx_in = true;
        u.fft_round = true;
        u.tol_h2 = std::sqrt(h2);
        u.fftlen = 1 << nextpow2(2 * (int)hr.size());
        u.params = [hr, hi](Json& j) { j.arr("hr", hr).arr("hi", hi).num("nh", hr.size()); };
        u.run = [f](const Chans& in) { return Chans{S(f->process(C(in[0])))}; };
        return u;
    };
}
static Factory f_ma(int n) {
    return [n] {
        auto f = std::make_shared<MAFilterR>(n);
        Unit u;
        u.proc = "ma";
        u.scale = n;
        u.params = [n](Json& j) { j.num("n", n); };
        u.run = [f](const Chans& in) { return Chans{S(f->process(R(in[0])))}; };
        return u;
    };
}
static Factory f_mac(int n) {
    return [n] {
        auto f = std::make_shared<MAFilterC>(n);
        Unit u;
        u.proc = "mac";
        u.scale = n;
        u.cplx_in = true;
        u.params = [n](Json& j) { j.num("n", n); };
        u.run = [f](const Chans& in) { return Chans{S(f->process(C(in[0])))}; };
        return u;
    };
}
static Factory f_delay(int d) {
    return [d] {
        auto f = std::make_shared<DelayReal>(d);
        Unit u;
        u.proc = "delay";
        u.params = [d](Json& j) { j.num("d", d); };
        u.run = [f](const Chans& in) { return Chans{S(f->process(R(in[0])))}; };
        return u;
    };
}
static Factory f_delayc(int d) {
    return [d] {
        auto f = std::make_shared<DelayCmplx>(d);
        Unit u;
        u.proc = "delayc";
        u.cplx_in = true;
        u.params = [d](Json& j) { j.num("d", d); };
        u.run = [f](const Chans& in) { return Chans{S(f->process(C(in[0])))}; };
        return u;
    };
}
static Factory f_median(int n, long init) {
    return [n, init] {
        auto f = std::make_shared<MedianFilter>(n, (double)init);
        Unit u;
        u.proc = "median";
        u.scale = 2;
        u.params = [n, init](Json& j) { j.num("n", n).num("init", init); };
        u.run = [f](const Chans& in) { return Chans{S(f->process(R(in[0])))}; };
        return u;
    };
}
// kind: 0 decim, 1 interp, 2 rate, 3 resampler
static Factory f_multi(int kind, int L, int M, std::vector<long> h, long Ssum) {
    return [kind, L, M, h, Ssum] {
        std::shared_ptr<IResampler> f;
        const char* nm = "";
        if (kind == 0) {
            f = std::make_shared<FIRDecimator>(M, to_arr(h)), nm = "decim";
        } else if (kind == 1) {
            f = std::make_shared<FIRInterpolator>(L, to_arr(h)), nm = "interp";
        } else if (kind == 2) {
            f = std::make_shared<FIRRateConverter>(L, M, to_arr(h)), nm = "rate";
        } else {
            f = std::make_shared<FIRResampler>(L, M, to_arr(h)), nm = "resampler";
        }
        Unit u;
        u.proc = nm;
        const int g = std::gcd(L, M);
        u.gran = M / g;
        u.num = L / g;
        u.den = M / g;
        u.scale = (double)Ssum;
        u.params = [L, M, h, Ssum, f](Json& j) {
            j.num("L", L).num("M", M).arr("h", h).num("S", Ssum).num("delay", f->delay())
              .num("irate", f->interp_rate()).num("drate", f->decim_rate());
        };
        u.run = [f](const Chans& in) { return Chans{S(f->process(R(in[0])))}; };
        return u;
    };
}

// ---------------------------------------------------------------- factories (prefix only)
template<class Mk>
static Factory f_other(const char* name, int gran, long num, long den, int nin, bool cplx_in, Mk mk) {
    std::string nm = name;
    return [=] {
        Unit u;
        u.proc = "other";
        u.name = nm;
        u.gran = gran;
        u.num = num;
        u.den = den;
        u.nin = nin;
        u.cplx_in = cplx_in;
        u.params = [=](Json& j) { j.str("name", nm).num("gran", gran).num("num", num).num("den", den); };
        u.run = mk();
        return u;
    };
}

static std::vector<Factory> prefix_factories(vh::Rng& rng, bool big) {
    std::vector<Factory> v;
    auto rtaps = [&](int n) {
        arr_real h(n);
        for (int i = 0; i < n; ++i) {
            h[i] = rng.gauss();
        }
        return h;
    };
    auto ctaps = [&](int n) {
        arr_cmplx h(n);
        for (int i = 0; i < n; ++i) {
            h[i] = cmplx_t(rng.gauss(), rng.gauss());
        }
        return h;
    };
    const int nh1 = big ? (int)rng.range(20, 300) : (int)rng.range(2, 9);
    const int nh2 = big ? (int)rng.range(2, 40) : (int)rng.range(2, 5);
    {
        auto h = rtaps(nh1);
        v.push_back(f_other("FirFilterR", 1, 1, 1, 1, false, [h] {
            auto f = std::make_shared<FirFilterR>(h);
            return [f](const Chans& in) { return Chans{S(f->process(R(in[0])))}; };
        }));
        auto hc = ctaps(nh2);
        v.push_back(f_other("FirFilterC", 1, 1, 1, 1, true, [hc] {
            auto f = std::make_shared<FirFilterC>(hc);
            return [f](const Chans& in) { return Chans{S(f->process(C(in[0])))}; };
        }));
        const int B = (1 << nextpow2(2 * nh1)) - nh1 + 1;
        v.push_back(f_other("FftFilterR", 1, 0, B, 1, false, [h] {
            auto f = std::make_shared<FftFilter>(h);
            return [f](const Chans& in) { return Chans{S(f->process(R(in[0])))}; };
        }));
        const int B2 = (1 << nextpow2(2 * nh2)) - nh2 + 1;
        v.push_back(f_other("FftFilterC", 1, 0, B2, 1, true, [hc] {
            auto f = std::make_shared<FftFilter>(hc);
            return [f](const Chans& in) { return Chans{S(f->process(C(in[0])))}; };
        }));
    }
    {
        const int M = (int)rng.range(2, 12), L = (int)rng.range(2, 12);
        v.push_back(f_other("FIRDecimator.default", M, 1, M, 1, false, [M] {
            auto f = std::make_shared<FIRDecimator>(M);
            return [f](const Chans& in) { return Chans{S(f->process(R(in[0])))}; };
        }));
        v.push_back(f_other("FIRInterpolator.default", 1, L, 1, 1, false, [L] {
            auto f = std::make_shared<FIRInterpolator>(L);
            return [f](const Chans& in) { return Chans{S(f->process(R(in[0])))}; };
        }));
        int L2 = L, M2 = M;
        while (std::gcd(L2, M2) != 1) {
            ++M2;
        }
        if (M2 == 1) {
            M2 = L2 + 1;
        }
        v.push_back(f_other("FIRRateConverter.default", M2, L2, M2, 1, false, [L2, M2] {
            auto f = std::make_shared<FIRRateConverter>(L2, M2);
            return [f](const Chans& in) { return Chans{S(f->process(R(in[0])))}; };
        }));
        static const int audio[][2] = {{160, 441}, {147, 160}, {441, 160}, {160, 147}, {320, 147}, {48000, 44100},
                                       {8000, 16000}, {48000, 16000}, {44100, 44100}};
        const auto& a = audio[rng.range(0, 8)];
        const int g = std::gcd(a[0], a[1]);
        const int o = a[0], i = a[1];
        v.push_back(f_other("FIRResampler.default", i / g, o / g, i / g, 1, false, [o, i] {
            auto f = std::make_shared<FIRResampler>(o, i);
            return [f](const Chans& in) { return Chans{S(f->process(R(in[0])))}; };
        }));
    }
    {
        const int d = (int)rng.range(1, big ? 100 : 6);
        v.push_back(f_other("DelayReal", 1, 1, 1, 1, false, [d] {
            auto f = std::make_shared<DelayReal>(d);
            return [f](const Chans& in) { return Chans{S(f->process(R(in[0])))}; };
        }));
        v.push_back(f_other("DelayCmplx", 1, 1, 1, 1, true, [d] {
            auto f = std::make_shared<DelayCmplx>(d);
            return [f](const Chans& in) { return Chans{S(f->process(C(in[0])))}; };
        }));
        const int n = (int)rng.range(3, big ? 33 : 7);
        const double init = rng.coin() ? 0.0 : rng.gauss();
        v.push_back(f_other("MedianFilter", 1, 1, 1, 1, false, [n, init] {
            auto f = std::make_shared<MedianFilter>(n, init);
            return [f](const Chans& in) { return Chans{S(f->process(R(in[0])))}; };
        }));
        const int nm = (int)rng.range(1, big ? 64 : 6);
        v.push_back(f_other("MAFilterR", 1, 1, 1, 1, false, [nm] {
            auto f = std::make_shared<MAFilterR>(nm);
            return [f](const Chans& in) { return Chans{S(f->process(R(in[0])))}; };
        }));
        v.push_back(f_other("MAFilterC", 1, 1, 1, 1, true, [nm] {
            auto f = std::make_shared<MAFilterC>(nm);
            return [f](const Chans& in) { return Chans{S(f->process(C(in[0])))}; };
        }));
    }
    {
        const int fl = big ? (int)rng.range(31, 201) : (int)rng.range(7, 15);
        const double tw = 0.01 + 0.05 * rng.unif();
        v.push_back(f_other("HilbertFilter", 1, 1, 1, 1, false, [fl, tw] {
            auto f = std::make_shared<HilbertFilter>(fl, tw);
            return [f](const Chans& in) { return Chans{S(f->process(R(in[0])))}; };
        }));
        const int fs = (int)rng.range(big ? 8 : 3, big ? 5000 : 6);   // small: the stream is longer than fs samples
        const double fr = rng.coin() ? (double)rng.range(-fs / 2, fs / 2) : (rng.unif() - 0.5) * (fs - 1);
        v.push_back(f_other("Tuner", 1, 1, 1, 1, true, [fs, fr] {
            auto f = std::make_shared<Tuner>(fs, fr);
            return [f](const Chans& in) { return Chans{S(f->process(C(in[0])))}; };
        }));
    }
    {
        const double target = std::pow(10.0, rng.unif() * 2 - 1);
        const int al = (int)rng.range(1, big ? 200 : 5);
        v.push_back(f_other("Agc.real", 1, 1, 1, 1, false, [target, al] {
            auto f = std::make_shared<Agc>(target, 40.0, al, 0.05, 0.02);
            return [f](const Chans& in) {
                auto r = f->process(R(in[0]));
                return Chans{S(r.out), S(r.gain)};
            };
        }));
        v.push_back(f_other("Agc.cmplx", 1, 1, 1, 1, true, [target, al] {
            auto f = std::make_shared<Agc>(target, 40.0, al, 0.05, 0.02);
            return [f](const Chans& in) {
                auto r = f->process(C(in[0]));
                return Chans{S(r.out), S(r.gain)};
            };
        }));
        const int fs = 8000;
        const double thr = -30 + 25 * rng.unif();
        const int ratio = (int)rng.range(1, 20);
        const double knee = rng.coin() ? 0.0 : 10 * rng.unif();
        const double at = rng.coin() ? 0.0 : 0.002 * rng.unif(), rt = rng.coin() ? 0.0 : 0.01 * rng.unif();
        v.push_back(f_other("Compressor", 1, 1, 1, 1, false, [=] {
            auto f = std::make_shared<Compressor>(fs, thr, ratio, knee, at, rt);
            return [f](const Chans& in) {
                auto r = f->process(R(in[0]));
                return Chans{S(r.out), S(r.gain)};
            };
        }));
        v.push_back(f_other("Limiter", 1, 1, 1, 1, false, [=] {
            auto f = std::make_shared<Limiter>(fs, thr, knee, at, rt);
            return [f](const Chans& in) {
                auto r = f->process(R(in[0]));
                return Chans{S(r.out), S(r.gain)};
            };
        }));
        const double ht = 0.001 * rng.unif();
        v.push_back(f_other("NoiseGate", 1, 1, 1, 1, false, [=] {
            auto f = std::make_shared<NoiseGate>(fs, thr, at, rt, ht);
            return [f](const Chans& in) {
                auto r = f->process(R(in[0]));
                return Chans{S(r.out), S(r.gain)};
            };
        }));
    }
    {
        const int len = (int)rng.range(2, big ? 16 : 4);
        const double mu = 0.01 + 0.05 * rng.unif();
        const double leak = rng.coin() ? 1.0 : 0.99;
        for (int nl = 0; nl < 2; ++nl) {
            const auto ty = nl ? LmsType::NLMS : LmsType::LMS;
            v.push_back(f_other(nl ? "NlmsFilterR" : "LmsFilterR", 1, 1, 1, 2, false, [=] {
                auto f = std::make_shared<LmsFilterR>(len, nl ? 0.5 : mu, ty, leak);
                return [f](const Chans& in) {
                    auto r = f->process(R(in[0]), R(in[1]));
                    return Chans{S(r.y), S(r.e)};
                };
            }));
            v.push_back(f_other(nl ? "NlmsFilterC" : "LmsFilterC", 1, 1, 1, 2, true, [=] {
                auto f = std::make_shared<LmsFilterC>(len, nl ? 0.5 : mu, ty, leak);
                return [f](const Chans& in) {
                    auto r = f->process(C(in[0]), C(in[1]));
                    return Chans{S(r.y), S(r.e)};
                };
            }));
        }
        const double lam = 0.9 + 0.1 * rng.unif();
        v.push_back(f_other("RlsFilterR", 1, 1, 1, 2, false, [=] {
            auto f = std::make_shared<RlsFilterR>(len, lam, 10.0);
            return [f](const Chans& in) {
                auto r = f->process(R(in[0]), R(in[1]));
                return Chans{S(r.y), S(r.e)};
            };
        }));
        v.push_back(f_other("RlsFilterC", 1, 1, 1, 2, true, [=] {
            auto f = std::make_shared<RlsFilterC>(len, lam, 10.0);
            return [f](const Chans& in) {
                auto r = f->process(C(in[0]), C(in[1]));
                return Chans{S(r.y), S(r.e)};
            };
        }));
    }
    return v;
}

// ---------------------------------------------------------------- running
static int g_next_id = 0;

static void emit_new(Json& js, int id, const Unit& u, const char* mode, long phi_hint = -1) {
    js.begin("New").num("id", id).str("proc", u.proc).str("mode", mode).num("phi_hint", phi_hint);
    u.params(js);
    js.end();
}

static Sig int_stream(vh::Rng& rng, size_t n, bool cplx, int amp) {
    Sig s;
    s.cplx = cplx;
    for (size_t i = 0; i < n; ++i) {
        s.re.push_back((double)rng.range(-amp, amp));
        if (cplx) {
            s.im.push_back((double)rng.range(-amp, amp));
        }
    }
    return s;
}
static Sig real_stream(vh::Rng& rng, size_t n, bool cplx) {
    Sig s;
    s.cplx = cplx;
    // bursts, silence and steps so that gates / compressors change regime
    // ... and stretches of constant magnitude (square wave, DC), where a smoothed gain stops moving
    double level = 1;
    int shape = 0, half = 1;
    // long streams: every other one contains a pause of 150..1500 samples of digital silence
    const size_t quiet_len = (n >= 600 && rng.coin()) ? (size_t)rng.range(150, (long)std::min<size_t>(n / 2, 1500)) : 0;
    const size_t quiet_at = quiet_len ? (size_t)rng.range(1, (long)(n - quiet_len - 1)) : 0;
    for (size_t i = 0; i < n; ++i) {
        if (i == 0 || rng.range(0, 40) == 0) {
            level = std::pow(10.0, -3 + 3.3 * rng.unif());
            if (rng.range(0, 5) == 0) {
                level = 0;
            }
            const int q = (int)rng.range(0, 9);
            shape = q == 0 ? 1 : q == 1 ? 2 : 0, half = (int)rng.range(1, 12);
        }
        if (quiet_len > 0 && i >= quiet_at && i < quiet_at + quiet_len) {   // one long pause (adaptive filters starve, gains wind up)
            s.re.push_back(0.0);
            if (cplx) {
                s.im.push_back(0.0);
            }
            continue;
        }
        const double sq = ((i / half) % 2) ? -level : level;
        s.re.push_back(shape == 1 ? sq : shape == 2 ? level : level * rng.gauss());
        if (cplx) {
            s.im.push_back(shape == 1 ? -sq : shape == 2 ? 0.5 * level : level * rng.gauss());
        }
    }
    return s;
}

// one Process call in exact mode
static void process_exact(Json& js, int id, Unit& u, const Sig& frame, double x2_so_far) {
    std::vector<long> fr, fi;
    for (double v : frame.re) {
        fr.push_back(vh::as_int(v));
    }
    for (double v : frame.im) {
        fi.push_back(vh::as_int(v));
    }
    Chans out;
    const char* o = vh::outcome([&] { out = u.run(Chans{frame}); });
    std::vector<long> yr, yi;
    bool exact = true;
    if (!out.empty()) {
        const double tol = u.fft_round ? 64 * 2.22e-16 * std::log2((double)u.fftlen) * u.tol_h2 * std::sqrt(x2_so_far) + 1e-300
                                       : 0.0;
        auto conv = [&](double v) {
            double s = v * u.scale;
            double r = std::nearbyint(s);
            if (u.fft_round) {
                if (!(std::fabs(s - r) <= tol)) {
                    exact = false;
                }
            } else if (!(std::fabs(s - r) <= 1e-9 * std::max(1.0, std::fabs(r)))) {
                exact = false;
            }
            return vh::as_int(r);
        };
        for (double v : out[0].re) {
            yr.push_back(conv(v));
        }
        for (double v : out[0].im) {
            yi.push_back(conv(v));
        }
    }
    js.begin("Process").num("id", id).arr("fr", fr);
    if (frame.cplx) {
        js.arr("fi", fi);
    }
    js.str("o", o).arr("yr", yr);
    if (frame.cplx) {
        js.arr("yi", yi);
    }
    js.boolean("exact", exact).end();
}

// all compositions of k granules, exact mode
static void run_exact(Json& js, const Factory& fac, vh::Rng& rng, int k, int amp) {
    Unit probe = fac();
    const int g = probe.gran;
    const Sig stream = int_stream(rng, (size_t)k * g, probe.cplx_in, amp);
    for (unsigned mask = 0; mask < (1u << (k - 1)); ++mask) {
        Unit u = fac();
        const int id = ++g_next_id;
        emit_new(js, id, u, "exact");
        size_t a = 0;
        double x2 = 0;
        for (int i = 0; i < k; ++i) {
            if (i == k - 1 || (mask >> i) & 1) {
                const size_t b = (size_t)(i + 1) * g;
                Sig fr = stream.sub(a, b);
                for (size_t q = a; q < b; ++q) {
                    x2 += stream.re[q] * stream.re[q] + (stream.cplx ? stream.im[q] * stream.im[q] : 0);
                }
                process_exact(js, id, u, fr, x2);
                a = b;
            }
        }
        // a frame that is not a multiple of the granule must be rejected and leave the state alone
        if (g > 1 && (mask % 7) == 3) {
            Sig bad = int_stream(rng, (size_t)g + 1 + (mask % (g - 1 ? g - 1 : 1)) % (g - 1 ? g - 1 : 1), probe.cplx_in, amp);
            if (bad.size() % g != 0) {
                process_exact(js, id, u, bad, x2);
            }
            Sig more = int_stream(rng, (size_t)g, probe.cplx_in, amp);
            process_exact(js, id, u, more, x2 + 1e6);
        }
        js.begin("Drop").num("id", id).end();
    }
}

// compare produced output with reference; returns first differing index or -1
struct Ref
{
    Chans out;
};
static long first_diff(const Chans& got, const Chans& ref, size_t off, double tol, bool* bit) {
    long fd = -1;
    for (size_t c = 0; c < got.size(); ++c) {
        for (int part = 0; part < (got[c].cplx ? 2 : 1); ++part) {
            const auto& g = part ? got[c].im : got[c].re;
            const auto& r = part ? ref[c].im : ref[c].re;
            for (size_t i = 0; i < g.size(); ++i) {
                const double a = g[i];
                const double b = (off + i < r.size()) ? r[off + i] : 1e300;
                if (std::memcmp(&a, &b, sizeof(double)) != 0) {
                    *bit = false;
                }
                const bool same = (a == b) || (std::fabs(a - b) <= tol) || (std::isnan(a) && std::isnan(b));
                if (!same && (fd < 0 || (long)i < fd)) {
                    fd = (long)i;
                }
            }
        }
    }
    return fd;
}
static double rms_of(const Chans& c) {
    long double s = 0;
    size_t n = 0;
    for (auto& ch : c) {
        for (double v : ch.re) {
            if (std::isfinite(v)) {
                s += (long double)v * v, ++n;
            }
        }
        for (double v : ch.im) {
            if (std::isfinite(v)) {
                s += (long double)v * v, ++n;
            }
        }
    }
    return n ? std::sqrt((double)(s / n)) : 0;
}

struct Live
{
    int id;
    Unit u;
    Chans stream;   // input channels (whole)
    Chans ref;      // whole-stream reference output
    size_t pos{0}, prod{0};
    double tol{0};
    bool bit{true};
};

static Live start_prefix(Json& js, const Factory& fac, vh::Rng& rng, size_t ngran) {
    Live L;
    L.u = fac();
    Unit refu = fac();   // separately constructed instance for the one-call reference
    const size_t n = ngran * L.u.gran;
    for (int c = 0; c < L.u.nin; ++c) {
        L.stream.push_back(real_stream(rng, n, L.u.cplx_in));
    }
    L.ref = refu.run(L.stream);
    L.tol = 1e-9 * rms_of(L.ref) + 1e-300;
    L.id = ++g_next_id;
    emit_new(js, L.id, L.u, "prefix");
    return L;
}

static bool step_prefix(Json& js, Live& L, size_t flen, bool deliberate_bad = false) {
    Chans fr;
    for (auto& ch : L.stream) {
        fr.push_back(ch.sub(L.pos, L.pos + flen));
    }
    Chans out;
    const char* o = vh::outcome([&] { out = L.u.run(fr); });
    long fd = -1;
    size_t olen = 0;
    bool bit = true;
    if (!out.empty()) {
        olen = out[0].size();
        fd = first_diff(out, L.ref, L.prod, L.tol, &bit);
        for (auto& ch : out) {
            if (ch.size() != olen) {
                fd = 0;
            }
        }
    }
    if (std::string(o) == "ret") {
        L.pos += flen;
        L.prod += olen;
    }
    L.bit = L.bit && bit;
    js.begin("Process").num("id", L.id).num("flen", flen).str("o", o).num("olen", olen)
      .num("firstdiff", fd < 0 ? -1 : (long)fd).boolean("bitident", bit).end();
    if (std::string(o) != "ret" && !deliberate_bad) {
        L.pos = L.stream[0].size();   // a valid frame was refused (the event above is judged by the trace spec): do not loop on it
        return false;
    }
    return true;
}

static void run_prefix_all(Json& js, const Factory& fac, vh::Rng& rng, int k) {
    Unit probe = fac();
    const int g = probe.gran;
    (void)g;
    // same stream for all framings: build reference once by reusing start_prefix per framing would redraw
    vh::Rng srng(rng.next());
    for (unsigned mask = 0; mask < (1u << (k - 1)); ++mask) {
        vh::Rng r2 = srng;   // identical stream for every framing
        Live L = start_prefix(js, fac, r2, k);
        size_t a = 0;
        for (int i = 0; i < k; ++i) {
            if (i == k - 1 || (mask >> i) & 1) {
                const size_t b = (size_t)(i + 1) * L.u.gran;
                step_prefix(js, L, b - a);
                a = b;
            }
        }
        js.begin("Drop").num("id", L.id).end();
    }
    // twins: two separately constructed instances with identical parameters, different streams, interleaved
    // calls with small irregular frames ("separately constructed instances never influence one another")
    for (int rep = 0; rep < 2; ++rep) {
        Live A = start_prefix(js, fac, rng, (size_t)k * 6);
        Live B = start_prefix(js, fac, rng, (size_t)k * 6);
        while (A.pos < A.stream[0].size() || B.pos < B.stream[0].size()) {
            for (Live* L : {&A, &B}) {
                const size_t total = L->stream[0].size();
                if (L->pos >= total) {
                    continue;
                }
                const size_t left = (total - L->pos) / L->u.gran;
                const size_t fg = std::min<size_t>(left, (size_t)rng.range(1, rep ? 7 : 2));
                step_prefix(js, *L, fg * L->u.gran);
            }
        }
        js.begin("Drop").num("id", A.id).end();
        js.begin("Drop").num("id", B.id).end();
    }
}

// long streams, heavy-tailed frame sizes, several interleaved instances
static void run_long(Json& js, vh::Rng& rng, long budget, size_t maxlen) {
    long events = 0;
    while (events < budget) {
        auto facs = prefix_factories(rng, true);
        std::vector<Live> live;
        const int ninst = (int)rng.range(2, 4);
        for (int i = 0; i < ninst; ++i) {
            const auto& fac = facs[rng.range(0, facs.size() - 1)];
            Unit probe = fac();
            size_t n = (size_t)std::pow(10.0, 2 + rng.unif() * std::log10((double)maxlen / 100.0));
            size_t ngran = std::max<size_t>(4, n / probe.gran);
            live.push_back(start_prefix(js, fac, rng, ngran));
        }
        bool any = true;
        while (any) {
            any = false;
            for (auto& L : live) {
                const size_t total = L.stream[0].size();
                if (L.pos >= total) {
                    continue;
                }
                any = true;
                if (rng.range(0, 2) == 0) {
                    continue;   // interleave unevenly
                }
                const size_t left = (total - L.pos) / L.u.gran;
                double t = rng.unif();
                size_t fg = (size_t)std::pow(4096.0, t * t * t);   // heavy tail toward 1
                fg = std::max<size_t>(1, std::min(fg, left));
                if (L.u.gran > 1 && rng.range(0, 30) == 0) {
                    // a non-multiple frame: must be rejected without touching the state
                    size_t bad = fg * L.u.gran - 1;
                    if (bad > 0 && bad % L.u.gran != 0 && L.pos + bad <= total) {
                        step_prefix(js, L, bad, true);
                        ++events;
                    }
                }
                step_prefix(js, L, fg * L.u.gran);
                ++events;
            }
        }
        for (auto& L : live) {
            js.begin("Drop").num("id", L.id).end();
        }
    }
}

// one call far beyond 65535 samples against the same stream in frames of at most 8192 granules: index arithmetic of the
// filters and converters must not depend on the call length
static void run_huge(Json& js, vh::Rng& rng, long budget) {
    for (long t = 0; t < budget; ++t) {
        auto facs = prefix_factories(rng, true);
        for (const auto& fac : facs) {
            Unit probe = fac();
            if (probe.name.rfind("FIR", 0) != 0 && probe.name.rfind("Fir", 0) != 0 && probe.name.rfind("Fft", 0) != 0) {
                continue;
            }
            const size_t n = (size_t)rng.range(70000, 140000);
            Live L = start_prefix(js, fac, rng, std::max<size_t>(4, n / probe.gran));
            const size_t total = L.stream[0].size();
            while (L.pos < total) {
                const size_t left = (total - L.pos) / L.u.gran;
                const size_t fg = std::max<size_t>(1, std::min<size_t>(left, (size_t)rng.range(1, 8192)));
                step_prefix(js, L, fg * L.u.gran);
            }
            js.begin("Drop").num("id", L.id).end();
        }
    }
}


// ================================================================ C07 / C08 specific modes
static std::vector<long> struct_taps(vh::Rng& rng, int n, int kind, int amp) {
    std::vector<long> h(n, 0);
    switch (kind) {
    case 0:   // random
        h = rand_ints(rng, n, -amp, amp);
        break;
    case 1:   // symmetric
        for (int i = 0; i < (n + 1) / 2; ++i) {
            h[i] = h[n - 1 - i] = rng.range(-amp, amp);
        }
        break;
    case 2:   // sparse
        for (int i = 0; i < n; ++i) {
            h[i] = rng.range(0, 3) == 0 ? rng.range(-amp, amp) : 0;
        }
        break;
    case 3:   // single tap at the first position
        h[0] = rng.range(1, amp);
        break;
    default:   // single tap at the last position
        h[n - 1] = -rng.range(1, amp);
    }
    return h;
}

// one-shot and framed runs of the FIR family on integer data with structured taps (C07)
static void run_fir7(Json& js, vh::Rng& rng, int sets, int k) {
    for (int s = 0; s < sets; ++s) {
        for (int kind = 0; kind < 5; ++kind) {
            const int nh = (int)rng.range(2, 9);
            auto h = struct_taps(rng, nh, kind, 4);
            auto hi = struct_taps(rng, nh, kind, 3);
            std::vector<Factory> facs = {f_fir(h), f_firc(h, hi), f_fftfir(h), f_fftfirc(h, hi),
                                         f_ma((int)rng.range(1, 9)), f_mac((int)rng.range(1, 6))};
            for (auto& fac : facs) {
                run_exact(js, fac, rng, k, 3);
                // a longer one-shot stream: several FFT blocks, impulse and random content
                Unit u = fac();
                const int id = ++g_next_id;
                emit_new(js, id, u, "exact");
                Sig x = int_stream(rng, 40 + (size_t)rng.range(0, 30), u.cplx_in, 3);
                if (rng.coin()) {
                    for (auto& v : x.re) {
                        v = 0;
                    }
                    x.re[rng.range(0, 5)] = 1;
                }
                double x2 = 0;
                for (size_t i = 0; i < x.size(); ++i) {
                    x2 += x.re[i] * x.re[i] + (x.cplx ? x.im[i] * x.im[i] : 0);
                }
                process_exact(js, id, u, x, x2);
                js.begin("Drop").num("id", id).end();
            }
        }
    }
}

// FftFilter vs FirFilter on arbitrary data, long taps (T1m) and FirFilter vs long-double definition (T3)
static void run_equiv(Json& js, vh::Rng& rng, long budget, bool big) {
    for (long t = 0; t < budget; ++t) {
        int nh = (int)(big ? rng.range(2, 1024) : rng.range(2, 200));
        if (t % 5 == 4) {   // tap counts at and around powers of two and their multiples (tiled / unrolled kernels)
            static const int SP[] = {64, 128, 256, 512, 768, 1024, 255, 257, 384};
            nh = SP[rng.range(0, big ? 8 : 2)] + (rng.range(0, 3) == 0 ? (int)rng.range(-1, 1) : 0);
        }
        const int n = (int)rng.range(0, big ? 20000 : 3000);
        const bool cplx = rng.coin();
        const int kind = (int)rng.range(0, 4);
        const bool dyn = rng.range(0, 3) == 0;   // large dynamic range content
        const bool gated = rng.range(0, 2) == 0;  // impulsive content: bursts and digital silence
        auto gen = [&](double sc) { return dyn ? sc * std::pow(10.0, rng.range(-150, 150) * 1.0 * (rng.range(0, 9) == 0)) * rng.gauss() : rng.gauss(); };
        long fd = -1, olen = 0;
        int block = 0;
        double worst = 0;
        if (!cplx) {
            arr_real h(nh), x(n);
            for (int i = 0; i < nh; ++i) {
                h[i] = (kind == 3) ? (i == 0) : (kind == 4) ? (i == nh - 1) : (kind == 2 && rng.range(0, 3)) ? 0.0 : rng.gauss();
            }
            for (int i = 0; i < n; ++i) {
                x[i] = gen(1.0);
            }
            // every fourth real case: taps at a very small (or large) absolute scale with data at the opposite one - the sums are
            // ordinary numbers, only the coefficients are far from unit scale
            if (t % 4 == 1) {
                static const double HS[] = {1e-17, 1e-18, 3e-16, 1e-30, 1e12};
                const double hs = HS[rng.range(0, 4)];
                for (int i = 0; i < nh; ++i) {
                    h[i] *= hs;
                }
                for (int i = 0; i < n; ++i) {
                    x[i] /= hs;
                }
            }
            if (gated) {   // bursts separated by stretches of exact zeros, several blocks long
                for (int i = 0; i < n;) {
                    const int on = (int)rng.range(1, 2 * nh + 3), off = (int)rng.range(2 * nh, 9 * nh + 40);
                    i += on;
                    for (int j = 0; j < off && i < n; ++j, ++i) {
                        x[i] = 0;
                    }
                }
            }
            FirFilterR f1(h);
            FftFilter f2(h);
            block = f2.block_size();
            const arr_real y1 = n ? f1.process(x) : arr_real();
            const arr_real y2 = f2.process(x);
            olen = y2.size();
            long double hn = 0, xn = 0;
            for (int i = 0; i < nh; ++i) { hn += (long double)h[i] * h[i]; }
            for (int i = 0; i < n; ++i) { xn += (long double)x[i] * x[i]; }
            const double tol = 64 * 2.22e-16 * std::log2(2.0 * (nh + block)) * std::sqrt((double)hn) * std::sqrt((double)xn) + 1e-300;
            for (int i = 0; i < y2.size() && i < y1.size(); ++i) {
                if (!(std::fabs(y1[i] - y2[i]) <= tol) && fd < 0) {
                    fd = i;
                }
            }
            // T3: direct filter against the long-double defining sum at sampled positions
            for (int q = 0; q < 40 && n > 0; ++q) {
                const int i = (int)rng.range(0, n - 1);
                long double acc = 0, mag = 0;
                for (int k = 0; k < nh && k <= i; ++k) {
                    acc += (long double)h[k] * x[i - k];
                    mag += std::fabs((long double)h[k] * x[i - k]);
                }
                const double bound = 4.0 * nh * 2.22e-16 * (double)mag + 1e-300;
                worst = std::max(worst, std::fabs((double)(acc - y1[i])) / bound);
            }
        } else {
            arr_cmplx h(nh), x(n);
            for (int i = 0; i < nh; ++i) {
                h[i] = cmplx_t(rng.gauss(), rng.gauss());
            }
            const bool realin = (t % 3 == 2);   // complex taps driven through the real-input overload
            for (int i = 0; i < n; ++i) {
                x[i] = cmplx_t(gen(1.0), realin ? 0.0 : gen(1.0));
            }
            if (gated) {
                for (int i = 0; i < n;) {
                    const int on = (int)rng.range(1, 2 * nh + 3), off = (int)rng.range(2 * nh, 9 * nh + 40);
                    i += on;
                    for (int j = 0; j < off && i < n; ++j, ++i) {
                        x[i] = cmplx_t(0, 0);
                    }
                }
            }
            FirFilterC f1(h);
            FftFilter f2(h);
            block = f2.block_size();
            const arr_cmplx y1 = n ? f1.process(x) : arr_cmplx();
            arr_cmplx y2;
            arr_cmplx y1c = y1;
            if (realin) {
                // the real-input overload returns the real part of the filter's output
                y2 = complex(f2.process(real(x)));
                for (int i = 0; i < y1c.size(); ++i) {
                    y1c[i].im = 0;
                }
            } else {
                y2 = f2.process(x);
            }
            olen = y2.size();
            long double hn = 0, xn = 0;
            for (int i = 0; i < nh; ++i) { hn += (long double)abs2(h[i]); }
            for (int i = 0; i < n; ++i) { xn += (long double)abs2(x[i]); }
            const double tol = 64 * 2.22e-16 * std::log2(2.0 * (nh + block)) * std::sqrt((double)hn) * std::sqrt((double)xn) + 1e-300;
            for (int i = 0; i < y2.size() && i < y1.size(); ++i) {
                if (!(abs(y1c[i] - y2[i]) <= tol) && fd < 0) {
                    fd = i;
                }
            }
            for (int q = 0; q < 40 && n > 0; ++q) {
                const int i = (int)rng.range(0, n - 1);
                long double ar = 0, ai = 0, mag = 0;
                for (int k = 0; k < nh && k <= i; ++k) {
                    // conj(h[k]) * x[i-k]
                    ar += (long double)h[k].re * x[i - k].re + (long double)h[k].im * x[i - k].im;
                    ai += (long double)h[k].re * x[i - k].im - (long double)h[k].im * x[i - k].re;
                    mag += std::sqrt((long double)abs2(h[k]) * abs2(x[i - k]));
                }
                const double bound = 8.0 * nh * 2.22e-16 * (double)mag + 1e-300;
                worst = std::max(worst, (double)std::sqrt((ar - y1[i].re) * (ar - y1[i].re) + (ai - y1[i].im) * (ai - y1[i].im)) / bound);
            }
        }
        js.begin("Equiv").num("nh", nh).num("n", n).boolean("cplx", cplx).num("kind", kind).boolean("dyn", dyn)
          .num("block", block).num("olen", olen).num("firstdiff", fd).end();
        js.begin("Resid").str("clause", "C07.fir-vs-longdouble").num("nh", nh).num("n", n).boolean("cplx", cplx)
          .num("err_milli", (long)std::min(1e9, worst * 1000)).end();
        // moving average = FIR with n equal taps 1/n on large-dynamic-range content: one huge outlier in unit-level data, one
        // long array call.  Judged from 2n samples after the outlier on (a running sum may carry the outlier's rounding residue
        // until it is rebuilt; the documented design rebuilds it every n samples), against the window mean in long double.
        {
            static const int NS[] = {2, 3, 4, 16, 100};
            const int nm = rng.range(0, 2) ? NS[rng.range(0, 4)] : (int)rng.range(2, 64);
            const int len = 8 * nm + (int)rng.range(0, 300), at = (int)rng.range(0, 2 * nm);
            arr_real xm(len);
            for (int i = 0; i < len; ++i) {
                xm[i] = rng.gauss();
            }
            xm[at] = std::pow(10.0, (double)rng.range(9, 15)) * (rng.coin() ? 1 : -1);
            MAFilterR ma(nm);
            const arr_real ym = ma.process(xm);
            double w2 = 0;
            for (int i = at + 2 * nm; i < len; ++i) {
                long double acc = 0, mag = 0;
                for (int k = 0; k < nm; ++k) {
                    acc += xm[i - k];
                }
                // the running sum carries the rounding of everything added since it was last rebuilt (up to n samples before
                // the window): the scale of the error is that of the last 2n samples, not of the window alone (the first
                // version of this bound raised a false alarm in the thorough tier for n = 2 with two small values in the
                // window after larger ones)
                for (int k = 0; k < 2 * nm; ++k) {
                    mag += std::fabs((long double)xm[i - k]);
                }
                w2 = std::max(w2, std::fabs((double)(acc / nm - ym[i])) / (16.0 * nm * 2.22e-16 * (double)(mag / nm) + 1e-300));
            }
            js.begin("Resid").str("clause", "C07.ma-dynrange").num("nh", nm).num("n", len).boolean("cplx", false)
              .num("err_milli", (long)std::min(1e9, w2 * 1000)).end();
        }
    }
}

static void emit_xcorr(Json& js, const std::vector<long>& ar, const std::vector<long>& ai, const std::vector<long>& br,
                       const std::vector<long>& bi, bool cplx, bool onearg = false) {
    const int n1 = ar.size(), n2 = br.size();
    std::vector<long> yr, yi;
    bool exact = true;
    long double na = 0, nb = 0;
    for (int i = 0; i < n1; ++i) { na += (long double)ar[i] * ar[i] + (long double)ai[i] * ai[i]; }
    for (int i = 0; i < n2; ++i) { nb += (long double)br[i] * br[i] + (long double)bi[i] * bi[i]; }
    const double tol = 64 * 2.22e-16 * std::log2(2.0 * (n1 + n2)) * std::sqrt((double)na) * std::sqrt((double)nb) + 1e-300;
    auto conv = [&](double v) {
        double r = std::nearbyint(v);
        if (!(std::fabs(v - r) <= tol)) {
            exact = false;
        }
        return vh::as_int(r);
    };
    const char* o;
    if (cplx) {
        arr_cmplx a(n1), b(n2), y;
        for (int i = 0; i < n1; ++i) { a[i] = cmplx_t(ar[i], ai[i]); }
        for (int i = 0; i < n2; ++i) { b[i] = cmplx_t(br[i], bi[i]); }
        o = vh::outcome([&] { y = onearg ? xcorr(a) : xcorr(a, b); });
        for (int i = 0; i < y.size(); ++i) {
            yr.push_back(conv(y[i].re));
            yi.push_back(conv(y[i].im));
        }
    } else {
        arr_real y;
        o = vh::outcome([&] { y = onearg ? xcorr(to_arr(ar)) : xcorr(to_arr(ar), to_arr(br)); });
        for (int i = 0; i < y.size(); ++i) {
            yr.push_back(conv(y[i]));
            yi.push_back(0);
        }
    }
    js.begin("Xcorr").boolean("cplx", cplx).arr("ar", ar).arr("ai", ai).arr("br", br).arr("bi", bi).str("o", o)
      .arr("yr", yr).arr("yi", yi).boolean("exact", exact).end();
}

static void run_xcorr(Json& js, vh::Rng& rng, int nmax, long sampled, int shard, int nshards) {
    long idx = 0;
    for (int n1 = 1; n1 <= nmax; ++n1) {
        for (int n2 = 1; n2 <= nmax; ++n2, ++idx) {
            if (idx % nshards != shard) {
                continue;
            }
            const bool cplx = (n1 + n2) % 2 == 0;
            auto ar = rand_ints(rng, n1, -3, 3), br = rand_ints(rng, n2, -3, 3);
            std::vector<long> ai(n1, 0), bi(n2, 0);
            if (cplx) {
                ai = rand_ints(rng, n1, -3, 3), bi = rand_ints(rng, n2, -3, 3);
            }
            emit_xcorr(js, ar, ai, br, bi, cplx);
            if (n1 <= 12 && n2 <= 12) {   // small pairs: the other overload as well
                if (cplx) {
                    emit_xcorr(js, ar, std::vector<long>(n1, 0), br, std::vector<long>(n2, 0), false);
                } else {
                    emit_xcorr(js, ar, rand_ints(rng, n1, -3, 3), br, rand_ints(rng, n2, -3, 3), true);
                }
            }
            if (n1 == n2) {   // autocorrelation overloads (one argument)
                emit_xcorr(js, ar, std::vector<long>(n1, 0), ar, std::vector<long>(n1, 0), false, true);
                emit_xcorr(js, ar, ai, ar, ai, true, true);
            }
        }
    }
    for (long t = 0; t < sampled; ++t) {   // sampled larger pairs: sparse content keeps TLC's sums cheap
        const int n1 = (int)rng.range(49, 5000), n2 = (int)rng.range(1, 60);
        std::vector<long> ar(n1, 0), ai(n1, 0), br = rand_ints(rng, n2, -2, 2), bi(n2, 0);
        for (int q = 0; q < 6; ++q) {
            ar[rng.range(0, n1 - 1)] = rng.range(-3, 3);
        }
        if (rng.coin()) {
            std::swap(ar, br), std::swap(ai, bi);
        }
        (void)t;
        // TLC evaluates every lag of the defining sum: keep the total work bounded
        if (ar.size() > 340) {
            ar.resize(340), ai.resize(340);
        }
        if (br.size() > 340) {
            br.resize(340), bi.resize(340);
        }
        emit_xcorr(js, ar, ai, br, bi, false);
    }
}

// C08: exhaustive ratio grid on integer data: impulses at every position modulo L*M and random streams
static void run_multi8(Json& js, vh::Rng& rng, int lmmax, bool audio, int shard, int nshards) {
    std::vector<std::pair<int, int>> ratios;
    for (int L = 1; L <= lmmax; ++L) {
        for (int M = 1; M <= lmmax; ++M) {
            if (std::gcd(L, M) == 1) {   // (1, 1) too: the classes accept the trivial ratio
                ratios.emplace_back(L, M);
            }
        }
    }
    if (audio) {
        for (auto p : {std::make_pair(160, 441), std::make_pair(441, 160), std::make_pair(147, 160), std::make_pair(160, 147),
                       std::make_pair(320, 147)}) {
            ratios.push_back(p);
        }
    }
    long idx = 0;
    for (auto [L, M] : ratios) {
        if ((idx++) % nshards != shard) {
            continue;
        }
        const int mx = std::max(L, M);
        const bool huge = mx > 40;
        for (int rep = 0; rep < (huge ? 1 : 3); ++rep) {
            long Ssum = 0;
            int nh = huge ? (int)rng.range(2, mx + 10) : (int)rng.range(2, std::min(40 * mx, 3 * mx + 6));
            if (rep == 2 && !huge) {
                nh = (int)rng.range(2, 5);   // very short filters: shorter than the rate change
            }
            auto h = sym_taps(rng, nh, &Ssum);
            if (rep == 1 && !huge) {   // the same shape with negative polarity: the prototype is normalised by its (signed) DC gain
                for (auto& v : h) {
                    v = -v;
                }
                Ssum = -Ssum;
            }
            const int kind = (L == 1 && M == 1) ? rep % 3 : (L == 1) ? 0 : (M == 1) ? 1 : 2;
            for (int wrap = 0; wrap < 2; ++wrap) {   // the class itself and the FIRResampler wrapper (unreduced ratio)
                const int mul = wrap ? (int)rng.range(1, 3) : 1;
                Factory fac = f_multi(wrap ? 3 : kind, L * mul, M * mul, h, Ssum);
                // impulse at a position modulo L*M (identifies the (tap, sample) pair of each output)
                const size_t ngran = (size_t)std::max<long>(3, (nh / std::max(1, M * L) + 2) * (huge ? 1 : L)) ;
                const size_t n = std::min<size_t>(ngran * M, huge ? (size_t)2 * M : 400 / M * M + M);
                for (int imp = (huge ? 1 : 0); imp < 2; ++imp) {   // audio ratios: random data only (a short response can fall between the kept samples)
                    Unit u = fac();
                    const int id = ++g_next_id;
                    Sig x = int_stream(rng, n, false, imp ? 2 : 0);
                    if (!imp) {
                        // audio ratios: early enough for the response to show in the recorded outputs
                        x.re[rng.range(0, huge ? std::max(0, M - 3) : (long)std::min<size_t>(n - 1, (size_t)L * M))] = 1;
                    }
                    // audio ratios have tens of thousands of candidate phases: the driver proposes the phase (found by brute force
                    // on a twin instance fed the whole stream in one call); TLC does not search, it verifies the proposal against the
                    // textbook chain on every recorded output.  -2: no phase in range reproduces the outputs.
                    long hint = -1;
                    if (huge) {
                        Unit twin = fac();
                        const Chans out = twin.run(Chans{x});
                        const int g2 = std::gcd(L * mul, M * mul);
                        const long Lr = L * mul / g2, Mr = M * mul / g2;
                        hint = -2;
                        const std::vector<double>& yv = out[0].re;
                        for (long phi = 0; phi <= (long)nh + 2 * Lr * Mr && hint < 0; ++phi) {
                            bool ok = true;
                            for (size_t j = 0; j < yv.size() && ok; ++j) {
                                long acc = 0;
                                for (int t = 0; t < nh; ++t) {
                                    const long q = (long)j * Mr + phi - t;   // index into the zero-stuffed stream
                                    if (q >= 0 && q % Lr == 0 && (size_t)(q / Lr) < x.re.size()) {
                                        acc += h[t] * (long)x.re[q / Lr];
                                    }
                                }
                                ok = (double)(Lr * acc) == yv[j] * u.scale;
                            }
                            if (ok) {
                                hint = phi;
                            }
                        }
                    }
                    emit_new(js, id, u, "exact", hint);
                    // two frames (first one granule) to cross a call boundary
                    process_exact(js, id, u, x.sub(0, M), 0);
                    if (n > (size_t)M) {
                        process_exact(js, id, u, x.sub(M, n), 0);
                    }
                    js.begin("Drop").num("id", id).end();
                }
            }
        }
    }
}

// resample(): length rule, identity for p = q, alignment of a band-limited probe (C08)
static void run_resample(Json& js, vh::Rng& rng, long budget, int pqmax) {
    for (long t = 0; t < budget; ++t) {
        int p = (int)rng.range(1, pqmax), q = (int)rng.range(1, pqmax);
        if (rng.range(0, 9) == 0) {
            q = p;
        }
        if (rng.range(0, 7) == 0) {
            static const int au[][2] = {{160, 441}, {441, 160}, {147, 160}, {160, 147}, {320, 147}, {2, 1}, {1, 2}, {3, 2}, {2, 3}};
            const auto& a = au[rng.range(0, 8)];
            p = a[0], q = a[1];
        }
        const int mul = (int)rng.range(1, 3);
        const int len = (int)rng.range(1, 1200);
        const int g = std::gcd(p, q);
        const int pr = p / g, qr = q / g;
        // probe: a Gaussian pulse (no carrier) in the middle of the signal: band-limited well inside both
        // Nyquist bands (spectrum exp(-(pi f w)^2) is < 1e-38 at fmax) and with a single, unambiguous peak
        const double fmax = 0.2 * std::min(1.0, (double)pr / qr);
        const double wdt = 3.0 / fmax * (1 + 0.5 * rng.unif());
        const double t0 = len / 2.0 + rng.unif();
        auto probe = [&](double tt) {
            const double u = (tt - t0) / wdt;
            return std::exp(-u * u);
        };
        arr_real x(len);
        for (int i = 0; i < len; ++i) {
            x[i] = probe(i);
        }
        arr_real y;
        // pure interpolation: every third case passes its own linear-phase prototype, a Hann-windowed sinc with m taps per
        // branch (m odd or even, length an exact multiple of L), instead of the library-designed one
        int custom = 0;
        arr_real hc;
        if (qr == 1 && pr >= 2 && pr <= 16 && rng.range(0, 2) == 0) {
            custom = (int)rng.range(5, 12);
            const int nt = custom * pr;
            hc = arr_real(nt);
            for (int i = 0; i < nt; ++i) {
                const double u = (i - (nt - 1) / 2.0) / pr;
                const double sc = (std::fabs(u) < 1e-12) ? 1.0 : std::sin(M_PI * u) / (M_PI * u);
                hc[i] = sc * (0.5 - 0.5 * std::cos(2 * M_PI * (i + 1) / (nt + 1)));
            }
        }
        const char* o = vh::outcome([&] { y = custom ? resample(x, p * mul, q * mul, hc) : resample(x, p * mul, q * mul); });
        bool same = (y.size() == x.size());
        bool finite = true;
        for (int i = 0; i < y.size(); ++i) {
            same = same && (i < x.size() && y[i] == x[i]);
            finite = finite && std::isfinite(y[i]);
        }
        // alignment: best integer shift s (output samples) of y against the analytically resampled probe
        bool useprobe = (pr != qr) && len >= 400 && y.size() >= 200 && wdt * 12 < len;
        long shift = 0;
        double besterr = 1e300, err0 = 0;
        if (useprobe) {
            const int a = y.size() / 8, b = y.size() - y.size() / 8;   // interior, away from the zero-padded edges
            for (int s = -40; s <= 40; ++s) {
                long double e = 0;
                for (int i = a; i < b; ++i) {
                    const double ref = probe((double)(i + s) * qr / pr);
                    e += (long double)(y[i] - ref) * (y[i] - ref);
                }
                if ((double)e < besterr) {
                    besterr = (double)e, shift = s;
                }
                if (s == 0) {
                    err0 = (double)e;
                }
            }
            (void)err0;
        }
        // resample() is a function of its arguments: a second call at the same ratio (and prototype) on other data - half of them
        // a whole number of q-blocks long - returns the same samples whether it follows the first call directly or a call at
        // another ratio
        bool hist = true;
        if (pr != qr) {
            const int len2 = rng.coin() ? q * mul * (int)rng.range(1, 40) : (int)rng.range(1, 600);
            arr_real x2(len2);
            for (int i = 0; i < len2; ++i) {
                x2[i] = rng.gauss();
            }
            arr_real ya, yb;
            vh::outcome([&] {
                ya = custom ? resample(x2, p * mul, q * mul, hc) : resample(x2, p * mul, q * mul);
                (void)resample(x2, p * mul + 1, q * mul + 2);
                yb = custom ? resample(x2, p * mul, q * mul, hc) : resample(x2, p * mul, q * mul);
            });
            hist = ya.size() == yb.size();
            for (int i = 0; hist && i < ya.size(); ++i) {
                hist = std::memcmp(&ya[i], &yb[i], sizeof(double)) == 0;
            }
        }
        js.begin("Resample").num("p", p * mul).num("q", q * mul).num("len", len).str("o", o).num("outlen", y.size())
          .boolean("same", same).boolean("finite", finite).boolean("probe", useprobe).num("shift", shift).num("custom", custom)
          .boolean("hist", hist).end();
        // band-limiting: content between the new and the old Nyquist frequency must not come through.  Only where that band is
        // much wider than the default design's transition (rate reduced to 2/3 or less) and away from its lower edge; the
        // unchanged tree attenuates such tones by 59 dB or more, 40 dB is required.
        if (3 * pr <= 2 * qr && !custom && t % 3 == 0) {
            const double nyq = 0.5 * pr / qr;
            const double f = nyq + (0.5 + 0.3 * rng.unif()) * (0.5 - nyq);
            const int n2 = 4000;
            arr_real xt(n2);
            for (int i = 0; i < n2; ++i) {
                xt[i] = std::sin(2 * M_PI * f * i + 0.3);
            }
            const arr_real yt = resample(xt, p * mul, q * mul);
            long double pw = 0;
            const int a = yt.size() / 4, b = 3 * yt.size() / 4;
            for (int i = a; i < b; ++i) {
                pw += (long double)yt[i] * yt[i];
            }
            const double amp = std::sqrt((double)(pw / std::max(1, b - a)) / 0.5);
            js.begin("Resid").str("clause", "C08.antialias").num("nh", pr).num("n", qr).boolean("cplx", false)
              .num("err_milli", (long)std::min(1e9, std::ceil(amp / 0.01 * 1000))).end();
        }
        // size helpers
        const int size = (int)rng.range(0, 5000);
        js.begin("Sizes").num("L", p).num("M", q).num("size", size).num("next", IResampler::next_size(size, p, q))
          .num("prev", IResampler::prev_size(size, p, q)).end();
    }
}

int main(int argc, char** argv) {
    const std::string mode = vh::arg(argc, argv, "--mode", "exact");
    const int k = std::atoi(vh::arg(argc, argv, "--k", "6"));
    const long seed = std::atol(vh::arg(argc, argv, "--seed", "1"));
    const int sets = std::atoi(vh::arg(argc, argv, "--sets", "1"));
    const long budget = std::atol(vh::arg(argc, argv, "--budget", "2000"));
    const size_t maxlen = (size_t)std::atol(vh::arg(argc, argv, "--maxlen", "20000"));
    const std::string only = vh::arg(argc, argv, "--proc", "");
    FILE* f = vh::open_out(vh::arg(argc, argv, "--out", "/dev/stdout"));
    Json js(f);
    js.flush_each = false;
    vh::Rng rng(seed);

    if (mode == "exact") {
        for (int s = 0; s < sets; ++s) {
            std::vector<std::pair<std::string, Factory>> facs;
            const int nh = (int)rng.range(2, 7);
            facs.emplace_back("fir", f_fir(rand_ints(rng, nh, -4, 4)));
            facs.emplace_back("firc", f_firc(rand_ints(rng, nh, -3, 3), rand_ints(rng, nh, -3, 3)));
            const int nf = (int)rng.range(2, 5);
            facs.emplace_back("fftfir", f_fftfir(rand_ints(rng, nf, -4, 4)));
            facs.emplace_back("fftfirc", f_fftfirc(rand_ints(rng, nf, -3, 3), rand_ints(rng, nf, -3, 3)));
            facs.emplace_back("ma", f_ma(1 << rng.range(0, 3)));
            facs.emplace_back("ma", f_ma((int)rng.range(3, 7)));
            facs.emplace_back("mac", f_mac((int)rng.range(1, 5)));
            facs.emplace_back("delay", f_delay((int)rng.range(1, 7)));
            facs.emplace_back("delayc", f_delayc((int)rng.range(1, 5)));
            facs.emplace_back("median", f_median((int)rng.range(3, 8), rng.coin() ? 0 : rng.range(-2, 2)));
            for (int kind = 0; kind < 4; ++kind) {
                int L = (int)rng.range(1, 5), M = (int)rng.range(1, 5);
                if (kind == 0) {
                    L = 1, M = std::max(M, 2);
                }
                if (kind == 1) {
                    M = 1, L = std::max(L, 2);
                }
                if (kind == 2) {
                    L = std::max(L, 2), M = std::max(M, 2);
                    while (std::gcd(L, M) != 1) {
                        ++M;
                    }
                }
                if (kind == 3 && rng.range(0, 3) == 0) {
                    L *= 2, M *= 2;   // unreduced ratio
                }
                long Ssum = 0;
                const int nhm = (int)rng.range(2, (rng.coin() ? 3 : 8) * std::max(L, M) + 2);   // also histories longer than a frame
                auto h = sym_taps(rng, nhm, &Ssum);
                static const char* names[] = {"decim", "interp", "rate", "resampler"};
                facs.emplace_back(names[kind], f_multi(kind, L, M, h, Ssum));
            }
            for (auto& pf : facs) {
                if (!only.empty() && only != pf.first) {
                    continue;
                }
                run_exact(js, pf.second, rng, k, 3);
            }
        }
    } else if (mode == "prefix") {
        for (int s = 0; s < sets; ++s) {
            auto facs = prefix_factories(rng, s % 2 == 1);
            for (auto& fac : facs) {
                run_prefix_all(js, fac, rng, k);
            }
            // rivals: two instances of the SAME class with DIFFERENT parameters, fed the SAME samples alternately in frames of
            // one granule (whatever one instance remembers about "the last sample" must not be visible to the other)
            auto facs2 = prefix_factories(rng, s % 2 == 1);
            for (size_t i = 0; i < facs.size() && i < facs2.size(); ++i) {
                Unit pa = facs[i](), pb = facs2[i]();
                if (pa.name != pb.name || pa.nin != pb.nin || pa.cplx_in != pb.cplx_in) {
                    continue;
                }
                const vh::Rng srng(rng.next());
                vh::Rng r1 = srng, r2 = srng;
                Live A = start_prefix(js, facs[i], r1, (size_t)k * 4 * std::max(1, pb.gran));
                Live B = start_prefix(js, facs2[i], r2, (size_t)k * 4 * std::max(1, pa.gran));
                while (A.pos < A.stream[0].size() || B.pos < B.stream[0].size()) {
                    for (Live* L : {&A, &B}) {
                        if (L->pos < L->stream[0].size()) {
                            step_prefix(js, *L, L->u.gran);
                        }
                    }
                }
                js.begin("Drop").num("id", A.id).end();
                js.begin("Drop").num("id", B.id).end();
            }
        }
    } else if (mode == "long") {
        run_long(js, rng, budget, maxlen);
    } else if (mode == "huge") {
        run_huge(js, rng, budget);
    } else if (mode == "fir7") {
        run_fir7(js, rng, sets, k);
    } else if (mode == "equiv") {
        run_equiv(js, rng, budget, maxlen > 50000);
    } else if (mode == "xcorr") {
        run_xcorr(js, rng, k, budget, std::atoi(vh::arg(argc, argv, "--shard", "0")), std::atoi(vh::arg(argc, argv, "--nshards", "1")));
    } else if (mode == "multi8") {
        run_multi8(js, rng, k, sets > 0, std::atoi(vh::arg(argc, argv, "--shard", "0")), std::atoi(vh::arg(argc, argv, "--nshards", "1")));
    } else if (mode == "resample") {
        run_resample(js, rng, budget, k);
    } else {
        std::fprintf(stderr, "unknown mode\n");
        return 3;
    }
    js.flush();
    std::fclose(f);
    return 0;
}
