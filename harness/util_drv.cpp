// Conformance driver for Trace_Util.tla (growth beyond the listed properties): from_file decoding,
// interleaved real <-> complex conversions, findpeaks, small predicates (sign, issorted, anynan, anyinf).
//   util_drv --out t --mode codec --seed S --budget N --tmp DIR
//   util_drv --out t --mode small                      exhaustive small files / arrays
#include "common.h"
#include <dsplib.h>
#include <limits>
#include <algorithm>
using namespace dsplib;
using vh::Json;

static const char* TYPES[] = {"int16", "uint16", "int32", "uint32"};
static const dtype DT[] = {dtype::int16, dtype::uint16, dtype::int32, dtype::uint32};

static void write_file(const std::string& path, const std::vector<long>& bytes) {
    FILE* f = std::fopen(path.c_str(), "wb");
    if (!f) {
        std::fprintf(stderr, "cannot write %s\n", path.c_str());
        std::exit(3);
    }
    for (long b : bytes) {
        std::fputc((int)b, f);
    }
    std::fclose(f);
}

// value = hi * 65536 + lo with 0 <= lo < 65536 (floor semantics), exact for any integer-valued double < 2^40
static void split(double v, long& hi, long& lo, bool& ok) {
    const double h = std::floor(v / 65536.0);
    const double l = v - h * 65536.0;
    ok = ok && (v == std::floor(v)) && std::fabs(v) < 1e12;
    hi = ok ? (long)h : (1L << 30);
    lo = ok ? (long)l : (1L << 30);
}

static void ev_decode(Json& js, const std::string& path, const std::vector<long>& bytes, int t, bool big, long offset, long count,
                      bool count_default, bool missing = false) {
    if (!missing) {
        write_file(path, bytes);
    }
    arr_real y;
    const char* o = vh::outcome([&] {
        y = count_default ? from_file(path, DT[t], big ? endian::big : endian::little, offset)
                          : from_file(path, DT[t], big ? endian::big : endian::little, offset, count);
    });
    std::vector<long> hi, lo;
    bool ok = true;
    for (int i = 0; i < y.size(); ++i) {
        long h, l;
        split(y[i], h, l, ok);
        hi.push_back(h);
        lo.push_back(l);
    }
    js.begin("Decode").arr("bytes", bytes).str("t", TYPES[t]).str("ord", big ? "big" : "little").num("offset", offset)
      .num("count", count_default ? -1 : count).boolean("missing", missing).str("o", o).arr("hi", hi).arr("lo", lo).boolean("integral", ok).end();
}

template<class T>
static void ev_interleave(Json& js, const char* tn, const std::vector<long>& v) {
    std::vector<T> in(v.begin(), v.end());
    arr_cmplx z;
    const char* o = vh::outcome([&] { z = to_complex(in); });
    std::vector<long> re, im, back;
    for (int i = 0; i < z.size(); ++i) {
        re.push_back(vh::as_int(z[i].re));
        im.push_back(vh::as_int(z[i].im));
    }
    const std::vector<T> b = from_complex<T>(z);
    for (const T& e : b) {
        back.push_back(vh::as_int((double)e));
    }
    const arr_real r = to_real(in);
    const std::vector<T> rb = from_real<T>(r);
    bool real_ok = (size_t)r.size() == v.size() && rb.size() == v.size();
    for (size_t i = 0; real_ok && i < v.size(); ++i) {
        real_ok = (r[i] == (double)v[i]) && ((double)rb[i] == (double)v[i]);
    }
    js.begin("Interleave").str("t", tn).arr("v", v).str("o", o).arr("re", re).arr("im", im).arr("back", back).boolean("real_ok", real_ok).end();
}

static void ev_peaks(Json& js, const std::vector<long>& x, int npeaks) {
    arr_real a(x.size());
    for (size_t i = 0; i < x.size(); ++i) {
        a[i] = (double)x[i];
    }
    const arr_real keep = a;
    PeakList p;
    const char* o = vh::outcome([&] { p = findpeaks(a, npeaks); });
    std::vector<long> locs, pks, wds;
    for (size_t i = 0; i < p.locs.size(); ++i) {
        locs.push_back(vh::as_int(p.locs[i]));
        pks.push_back(vh::as_int(p.pks[i]));
        wds.push_back(vh::as_int(p.wds[i]));
    }
    bool same = true;
    for (int i = 0; i < a.size(); ++i) {
        same = same && a[i] == keep[i];
    }
    js.begin("Peaks").arr("x", x).num("k", npeaks).str("o", o).arr("locs", locs).arr("pks", pks).arr("wds", wds).boolean("x_same", same).end();
}

static void ev_preds(Json& js, const std::vector<long>& x, int special, int at) {
    // special: 0 none, 1 NaN, 2 +Inf, 3 -Inf placed at index `at` (real) / in the imaginary part (complex)
    arr_real a(x.size());
    for (size_t i = 0; i < x.size(); ++i) {
        a[i] = (double)x[i];
    }
    std::vector<long> sg;
    for (long v : x) {
        sg.push_back(sign((real_t)v));
    }
    const bool asc = issorted(a), desc = issorted(a, Direction::Descend);
    arr_cmplx c = a * cmplx_t(1, 0);
    const double sp = special == 1 ? std::numeric_limits<double>::quiet_NaN()
                                   : (special == 2 ? HUGE_VAL : (special == 3 ? -HUGE_VAL : 0.0));
    if (special && !x.empty()) {
        a[at] = sp;
        c[at].im = sp;
    }
    js.begin("Preds").arr("x", x).num("special", x.empty() ? 0 : special).arr("sign", sg).boolean("asc", asc).boolean("desc", desc)
      .boolean("nan_r", anynan(a)).boolean("inf_r", anyinf(a)).boolean("nan_c", anynan(c)).boolean("inf_c", anyinf(c)).end();
}

int main(int argc, char** argv) {
    const std::string mode = vh::arg(argc, argv, "--mode", "small");
    const long seed = std::atol(vh::arg(argc, argv, "--seed", "1"));
    const long budget = std::atol(vh::arg(argc, argv, "--budget", "200"));
    const std::string tmp = vh::arg(argc, argv, "--tmp", ".");
    FILE* f = vh::open_out(vh::arg(argc, argv, "--out", "/dev/stdout"));
    Json js(f);
    js.flush_each = false;
    vh::Rng rng(seed);
    const std::string path = tmp + "/codec-" + std::to_string((long)getpid()) + ".bin";
    const long B[] = {0, 1, 127, 128, 255};

    if (mode == "small") {
        // every file over 3 byte values up to 5 bytes (16 bit) / chosen patterns (32 bit), offsets around the ends
        for (int n = 0; n <= 5; ++n) {
            long total = 1;
            for (int i = 0; i < n; ++i) {
                total *= 3;
            }
            for (long cnum = 0; cnum < total; ++cnum) {
                std::vector<long> bytes(n);
                long q = cnum;
                for (int i = 0; i < n; ++i, q /= 3) {
                    bytes[i] = (q % 3 == 0) ? 1 : (q % 3 == 1 ? 128 : 255);
                }
                const int t = (int)(cnum % 2);
                ev_decode(js, path, bytes, t, (cnum / 2) % 2, (long)(cnum % 7) - 1, (long)(cnum % 5) - 1, false);
            }
        }
        for (int n = 0; n <= 9; ++n) {
            for (int rep = 0; rep < 12; ++rep) {
                std::vector<long> bytes(n);
                for (int i = 0; i < n; ++i) {
                    bytes[i] = B[rng.range(0, 4)];
                }
                for (int t = 0; t < 4; ++t) {
                    ev_decode(js, path, bytes, t, rep & 1, (long)(rep % 4) - 1, 0, true);
                    ev_decode(js, path, bytes, t, !(rep & 1), n - (rep % 5), (rep % 3) - 1, false);
                }
            }
        }
        ev_decode(js, tmp + "/no-such-file.bin", {}, 0, false, 0, 0, true, true);
        // interleaving: every length 0..7
        for (int n = 0; n <= 7; ++n) {
            std::vector<long> v(n);
            for (int i = 0; i < n; ++i) {
                v[i] = rng.range(-120, 120);
            }
            ev_interleave<int16_t>(js, "int16", v);
            ev_interleave<int32_t>(js, "int32", v);
            ev_interleave<float>(js, "float", v);
            ev_interleave<double>(js, "double", v);
        }
        // findpeaks: every array over {0,1,2,3} up to length 5, npeaks 0..3
        for (int n = 1; n <= 5; ++n) {
            long total = 1L << (2 * n);
            for (long cnum = 0; cnum < total; ++cnum) {
                std::vector<long> x(n);
                for (int i = 0; i < n; ++i) {
                    x[i] = (cnum >> (2 * i)) & 3;
                }
                ev_peaks(js, x, (int)(cnum % 4));
            }
        }
        // predicates: every array over {-1,0,1} up to length 4
        for (int n = 0; n <= 4; ++n) {
            long total = 1;
            for (int i = 0; i < n; ++i) {
                total *= 3;
            }
            for (long cnum = 0; cnum < total; ++cnum) {
                std::vector<long> x(n);
                long q = cnum;
                for (int i = 0; i < n; ++i, q /= 3) {
                    x[i] = q % 3 - 1;
                }
                ev_preds(js, x, (int)(cnum % 4), n ? (int)(cnum % n) : 0);
            }
        }
    } else {
        for (long it = 0; it < budget; ++it) {
            const int n = (int)rng.range(0, 64);
            std::vector<long> bytes(n);
            for (int i = 0; i < n; ++i) {
                bytes[i] = rng.coin() ? B[rng.range(0, 4)] : rng.range(0, 255);
            }
            const int t = (int)rng.range(0, 3);
            const bool dflt = rng.range(0, 3) == 0;
            ev_decode(js, path, bytes, t, rng.coin(), rng.range(-2, n + 3), dflt ? 0 : rng.range(-1, n / 2 + 2), dflt);
            std::vector<long> x((size_t)rng.range(1, 24));
            for (auto& v : x) {
                v = rng.range(0, 9) < 3 ? rng.range(-5, 5) : rng.range(0, 40);
            }
            ev_peaks(js, x, (int)rng.range(0, 6));
            std::vector<long> v((size_t)rng.range(0, 20));
            for (auto& e : v) {
                e = rng.range(-30000, 30000);
            }
            ev_interleave<int16_t>(js, "int16", v);
            ev_interleave<double>(js, "double", v);
            ev_preds(js, std::vector<long>(v.begin(), v.begin() + std::min<size_t>(v.size(), 8)), (int)rng.range(0, 3),
                     v.empty() ? 0 : (int)rng.range(0, (long)std::min<size_t>(v.size(), 8) - 1));
        }
    }
    std::remove(path.c_str());
    std::fclose(f);
    return 0;
}
