// Common helpers for conformance drivers: NDJSON event writer, deterministic PRNG,
// exception-capturing call wrapper. No dependency on dsplib.
#pragma once
#include <cstdint>
#include <cstdio>
#include <cstdlib>
#include <cstring>
#include <cmath>
#include <exception>
#include <string>
#include <vector>
#include <functional>
#include <unistd.h>
#include <cstdarg>

namespace vh {

// ---------------------------------------------------------------- PRNG (splitmix64)
struct Rng
{
    uint64_t s;
    explicit Rng(uint64_t seed)
      : s(seed * 0x9E3779B97F4A7C15ull + 0x1234567ull) {
    }
    uint64_t next() {
        uint64_t z = (s += 0x9E3779B97F4A7C15ull);
        z = (z ^ (z >> 30)) * 0xBF58476D1CE4E5B9ull;
        z = (z ^ (z >> 27)) * 0x94D049BB133111EBull;
        return z ^ (z >> 31);
    }
    // uniform integer in [lo, hi]
    long range(long lo, long hi) {
        if (hi <= lo) {   // an empty or single-value range never yields anything but lo (and still consumes one draw)
            next();
            return lo;
        }
        return lo + (long)(next() % (uint64_t)(hi - lo + 1));
    }
    double unif() {
        return (next() >> 11) * (1.0 / 9007199254740992.0);
    }
    double gauss() {
        double u1 = unif() + 1e-300, u2 = unif();
        return std::sqrt(-2 * std::log(u1)) * std::cos(6.283185307179586 * u2);
    }
    bool coin() {
        return next() & 1;
    }
};

// ---------------------------------------------------------------- NDJSON writer
class Json
{
public:
    explicit Json(FILE* f)
      : f_(f) {
    }
    Json& begin(const char* ev) {
        std::fputc('{', f_);
        first_ = true;
        str("e", ev);
        return *this;
    }
    Json& num(const char* k, long v) {
        key(k);
        std::fprintf(f_, "%ld", clamp(v));
        return *this;
    }
    // no clamping: for values known to fit TLC's 32-bit signed integers (|v| < 2^31)
    Json& raw(const char* k, long v) {
        key(k);
        std::fprintf(f_, "%ld", v);
        return *this;
    }
    Json& boolean(const char* k, bool v) {
        key(k);
        std::fputs(v ? "true" : "false", f_);
        return *this;
    }
    Json& str(const char* k, const std::string& v) {
        key(k);
        std::fputc('"', f_);
        for (char c : v) {
            if (c == '"' || c == '\\') {
                std::fputc('\\', f_);
            }
            if ((unsigned char)c < 0x20) {
                c = ' ';
            }
            std::fputc(c, f_);
        }
        std::fputc('"', f_);
        return *this;
    }
    template<class It>
    Json& arr(const char* k, It b, It e) {
        key(k);
        std::fputc('[', f_);
        bool fst = true;
        for (; b != e; ++b) {
            if (!fst) {
                std::fputc(',', f_);
            }
            fst = false;
            std::fprintf(f_, "%ld", clamp((long)(*b)));
        }
        std::fputc(']', f_);
        return *this;
    }
    Json& arr(const char* k, const std::vector<long>& v) {
        return arr(k, v.begin(), v.end());
    }
    Json& arr(const char* k, const std::vector<int>& v) {
        return arr(k, v.begin(), v.end());
    }
    void end() {
        std::fputs("}\n", f_);
        ++count_;
        if (flush_each) {
            std::fflush(f_);   // a crash inside the next library call must not lose this event
        }
    }
    bool flush_each{true};
    long count() const {
        return count_;
    }
    void flush() {
        std::fflush(f_);
    }
    // TLC integers are 32-bit: clamp so that an absurd observation stays an (unequal) int
    static long clamp(long v) {
        const long L = 1L << 30;
        return v > L ? L : (v < -L ? -L : v);
    }

private:
    void key(const char* k) {
        if (!first_) {
            std::fputc(',', f_);
        }
        first_ = false;
        std::fprintf(f_, "\"%s\":", k);
    }
    FILE* f_;
    bool first_{true};
    long count_{0};
};

// exact conversion of a double that is supposed to hold an integer; anything else → sentinel
inline long as_int(double v) {
    if (!(v == v) || std::fabs(v) > 1e9) {
        return (1L << 30);
    }
    double r = std::nearbyint(v);
    if (r != v) {
        return (1L << 30) - 1;   // not an integer: cannot equal any expected integer
    }
    return (long)r;
}

// scaled exact: v * scale must be an integer
inline long as_scaled(double v, double scale) {
    return as_int(v * scale);
}

// outcome of a call: "ret" or "throw"
template<class F>
inline const char* outcome(F&& f) {
    try {
        f();
        return "ret";
    } catch (const std::exception&) {
        return "throw";
    }
}

inline FILE* open_out(const char* path) {
    FILE* f = std::fopen(path, "w");
    if (!f) {
        std::fprintf(stderr, "cannot open %s\n", path);
        std::exit(3);
    }
    static char buf[1 << 20];
    std::setvbuf(f, buf, _IOFBF, sizeof(buf));
    return f;
}

inline const char* arg(int argc, char** argv, const char* name, const char* def) {
    for (int i = 1; i + 1 < argc; ++i) {
        if (std::strcmp(argv[i], name) == 0) {
            return argv[i + 1];
        }
    }
    return def;
}

}   // namespace vh
