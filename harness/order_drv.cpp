// Conformance driver for Trace_Order.tla (C16): sort, median, medfilt, MedianFilter (large orders), corr.
//   order_drv --out trace --mode perms --nmax N            all permutation pairs (corr) / all small arrays (sort, median)
//   order_drv --out trace --mode random --seed S --budget N --maxlen L
#include "common.h"
#include <map>
#include <dsplib.h>
#include <algorithm>
#include <numeric>

using namespace dsplib;
using vh::Json;

static arr_real to_arr(const std::vector<long>& v) {
    arr_real a(v.size());
    for (size_t i = 0; i < v.size(); ++i) {
        a[i] = (double)v[i];
    }
    return a;
}
static std::vector<long> ints(const arr_real& a, double scale = 1) {
    std::vector<long> r;
    for (int i = 0; i < a.size(); ++i) {
        r.push_back(vh::as_scaled(a[i], scale));
    }
    return r;
}

static void ev_sort(Json& js, const std::vector<long>& x, bool asc) {
    const arr_real a = to_arr(x);
    std::vector<long> sorted, idx;
    const char* o = vh::outcome([&] {
        auto [s, ix] = sort(a, asc ? Direction::Ascend : Direction::Descend);
        sorted = ints(s);
        for (int i = 0; i < ix.size(); ++i) {
            idx.push_back(ix[i]);
        }
    });
    js.begin("Sort").arr("x", x).boolean("asc", asc).str("o", o).arr("sorted", sorted).arr("idx", idx).end();
}
static void ev_median(Json& js, const std::vector<long>& x) {
    double m = 0;
    const char* o = vh::outcome([&] { m = median(to_arr(x)); });
    js.begin("Median").arr("x", x).str("o", o).num("m2", vh::as_scaled(m, 2)).end();
}
static void ev_medfilt(Json& js, const std::vector<long>& x, int n) {
    arr_real a = to_arr(x);
    std::vector<long> y2;
    const char* o = vh::outcome([&] { y2 = ints(medfilt(a, n), 2); });
    js.begin("Medfilt").num("n", n).arr("x", x).str("o", o).arr("y2", y2).arr("x_after", ints(a)).end();
}
// MedianFilter with larger orders, a few framings
static void ev_medianfilter(Json& js, vh::Rng& rng, int n, long init, const std::vector<long>& x) {
    // every third stream is expressed in a very small or a very large unit (a power of two, so nothing is rounded): the median
    // of the window does not depend on the unit, distinct samples stay distinct however close they are in absolute terms
    static long cnt = 0;
    const double unit = (++cnt % 3 == 0) ? std::ldexp(1.0, (cnt % 2) ? -70 : 60) : 1.0;
    MedianFilter f(n, (double)init * unit);
    std::vector<long> y2;
    size_t pos = 0;
    while (pos < x.size()) {
        size_t fl = std::min<size_t>(x.size() - pos, (size_t)rng.range(1, 2 * n));
        std::vector<long> fr(x.begin() + pos, x.begin() + pos + fl);
        auto y = ints(f.process(to_arr(fr) * unit) / unit, 2);
        y2.insert(y2.end(), y.begin(), y.end());
        pos += fl;
    }
    js.begin("MedianFilter").num("n", n).num("init", init).arr("x", x).arr("y2", y2).end();
}

static void ev_corr(Json& js, const std::vector<long>& x, const std::vector<long>& y, long double pearson_ref) {
    const arr_real a = to_arr(x), b = to_arr(y);
    const int n = (int)x.size();
    const double kd = n * (n - 1) / 2.0, sd = (double)n * ((double)n * n - 1);
    double k = 0, s = 0, p = 0, k2 = 0, s2 = 0, p2 = 0;
    const char* o = vh::outcome([&] {
        k = corr(a, b, Correlation::Kendall), s = corr(a, b, Correlation::Spearman), p = corr(a, b, Correlation::Pearson);
        k2 = corr(b, a, Correlation::Kendall), s2 = corr(b, a, Correlation::Spearman), p2 = corr(b, a, Correlation::Pearson);
    });
    auto q = [](double v, double den, bool* exact) {
        const double t = v * den, r = std::nearbyint(t);
        *exact = *exact && std::fabs(t - r) <= 1e-9 * std::max(1.0, den);
        return vh::as_int(r);
    };
    bool ex = true;
    // the same data through work buffers that are refilled in place from one call to the next (one pair per length): the
    // coefficients are functions of the contents, wherever they live
    {
        static std::map<int, std::pair<arr_real, arr_real>> work;
        auto it = work.find(n);
        if (it == work.end()) {
            it = work.emplace(n, std::make_pair(arr_real(n), arr_real(n))).first;
        }
        arr_real& wa = it->second.first;
        arr_real& wb = it->second.second;
        for (int i = 0; i < n; ++i) {
            wa[i] = a[i], wb[i] = b[i];
        }
        double s3 = 0, k3 = 0, p3 = 0;
        vh::outcome([&] {
            s3 = corr(wa, wb, Correlation::Spearman), k3 = corr(wa, wb, Correlation::Kendall), p3 = corr(wa, wb, Correlation::Pearson);
        });
        ex = ex && (s3 == s || (std::isnan(s3) && std::isnan(s))) && (k3 == k || (std::isnan(k3) && std::isnan(k)))
             && (p3 == p || (std::isnan(p3) && std::isnan(p)));
    }
    const long kq = q(k, kd, &ex), sq = q(s, sd, &ex), kq2 = q(k2, kd, &ex), sq2 = q(s2, sd, &ex);
    const double ptol = 1e-12;
    const bool psym = std::fabs(p - p2) <= ptol, prange = std::fabs(p) <= 1 + ptol;
    const double perr = std::fabs(p - (double)pearson_ref);
    js.begin("Corr").arr("x", x).arr("y", y).str("o", o).num("kq", kq).num("sq", sq).num("kq2", kq2).num("sq2", sq2)
      .boolean("exact", ex).boolean("psym", psym).boolean("prange", prange)
      .num("perr_milli", (long)std::min(1e9, perr / (64 * n * 2.22e-16) * 1000)).end();
}
static long double pearson_ld(const std::vector<long>& x, const std::vector<long>& y) {
    const int n = (int)x.size();
    long double mx = 0, my = 0;
    for (int i = 0; i < n; ++i) {
        mx += x[i], my += y[i];
    }
    mx /= n, my /= n;
    long double sxy = 0, sxx = 0, syy = 0;
    for (int i = 0; i < n; ++i) {
        sxy += (x[i] - mx) * (y[i] - my), sxx += (x[i] - mx) * (x[i] - mx), syy += (y[i] - my) * (y[i] - my);
    }
    return sxy / std::sqrt(sxx * syy);
}

int main(int argc, char** argv) {
    const std::string mode = vh::arg(argc, argv, "--mode", "perms");
    const int nmax = std::atoi(vh::arg(argc, argv, "--nmax", "5"));
    const long seed = std::atol(vh::arg(argc, argv, "--seed", "1"));
    const long budget = std::atol(vh::arg(argc, argv, "--budget", "100"));
    const int maxlen = std::atoi(vh::arg(argc, argv, "--maxlen", "300"));
    FILE* f = vh::open_out(vh::arg(argc, argv, "--out", "/dev/stdout"));
    Json js(f);
    js.flush_each = false;
    vh::Rng rng(seed);

    if (mode == "perms") {
        // every array over {0,1,2} up to length nmax (repeated values) for sort / median
        for (int n = 1; n <= nmax; ++n) {
            long total = 1;
            for (int i = 0; i < n; ++i) {
                total *= 3;
            }
            for (long c = 0; c < total; ++c) {
                std::vector<long> x(n);
                long t = c;
                for (int i = 0; i < n; ++i, t /= 3) {
                    x[i] = t % 3 - 1;
                }
                ev_sort(js, x, true);
                ev_sort(js, x, false);
                ev_median(js, x);
                if (n >= 3) {
                    for (int ord = 3; ord <= std::min(n + 1, 6); ++ord) {
                        ev_medfilt(js, x, ord);
                    }
                }
                if (n <= 4 || c % 7 == 0) {   // windows longer than the signal (mostly padding), odd and even orders
                    for (int ord = std::max(3, n + 2); ord <= 2 * n + 3; ++ord) {
                        ev_medfilt(js, x, ord);
                    }
                }
            }
        }
        // every pair of permutations of length 2..nmax for the rank correlations (tie-free data)
        for (int n = 2; n <= nmax; ++n) {
            std::vector<long> x(n), y(n);
            std::iota(x.begin(), x.end(), 1);
            do {
                std::iota(y.begin(), y.end(), 1);
                do {
                    ev_corr(js, x, y, pearson_ld(x, y));
                } while (std::next_permutation(y.begin(), y.end()));
            } while (std::next_permutation(x.begin(), x.end()));
        }
    } else if (mode == "random") {
        for (long t = 0; t < budget; ++t) {
            const int n = (int)rng.range(1, maxlen);
            const int kind = (int)rng.range(0, 7);
            std::vector<long> x(n);
            const int run = n / 2 + 1 + (int)rng.range(0, std::max(0, n / 3));   // length of an ordered leading run
            for (int i = 0; i < n; ++i) {
                x[i] = kind == 0 ? rng.range(-1000, 1000) : kind == 1 ? rng.range(-3, 3) : kind == 2 ? i - n / 2 : kind == 3 ? n - i
                     : kind == 4 ? 7
                     : kind == 5 ? (i < run ? 3 * i : rng.range(-50, 3 * n))            // ascending run, then an unordered tail
                     : kind == 6 ? (i < run ? 3 * (n - i) : rng.range(-50, 3 * n))      // descending run, then an unordered tail
                                 : (i == 0 ? rng.range(-5, 3 * n) : 3 * i);             // sorted except for the first element
            }
            ev_sort(js, x, true);
            ev_sort(js, x, false);
            ev_median(js, x);
            if (n >= 3) {
                ev_medfilt(js, x, (int)rng.range(3, std::min(n, 64)));
                ev_medianfilter(js, rng, (int)rng.range(3, 64), rng.coin() ? 0 : rng.range(-5, 5), x);
            }
            // tie-free pairs: x a random permutation scaled, y a permutation, n <= 40 (TLC pair sums are O(n^2))
            const int m = (int)rng.range(2, std::min(40, maxlen));
            std::vector<long> px(m), py(m);
            std::iota(px.begin(), px.end(), 1);
            std::iota(py.begin(), py.end(), 1);
            for (int i = m - 1; i > 0; --i) {
                std::swap(px[i], px[rng.range(0, i)]);
                std::swap(py[i], py[rng.range(0, i)]);
            }
            if (rng.range(0, 5) == 0) {
                py = px;   // strictly increasing relation
            } else if (rng.range(0, 5) == 0) {
                for (int i = 0; i < m; ++i) {
                    py[i] = m + 1 - px[i];   // strictly decreasing relation
                }
            }
            for (auto& v : px) {
                v = v * 3 - 7;   // not just ranks
            }
            ev_corr(js, px, py, pearson_ld(px, py));
        }
        // larger samples: one exact event (n <= 1000 keeps n(n^2-1) and 6*sum d^2 inside 31 bits for TLC) and
        // residuals against O(n^2) long-double definitions up to the full length
        for (int rep = 0; rep < 3; ++rep) {
            // rep 2: long and strictly decreasing, the relation with the largest sum of squared rank differences
            // (n^3/3 passes 2^31 above n = 1861: integer accumulators in a closed-form rho)
            const bool longdec = rep == 2 && maxlen >= 2000;
            const int m = rep == 0 ? (int)rng.range(300, 1000) : longdec ? (int)rng.range(1900, 3000) : (int)rng.range(2, std::max(2, maxlen));
            std::vector<long> px(m), py(m);
            std::iota(px.begin(), px.end(), 1);
            std::iota(py.begin(), py.end(), 1);
            for (int i = m - 1; i > 0; --i) {
                std::swap(px[i], px[rng.range(0, i)]);
                std::swap(py[i], py[rng.range(0, i)]);
            }
            if (longdec) {
                for (int i = 0; i < m; ++i) {
                    py[i] = m + 1 - px[i];
                }
            }
            if (rep == 0) {
                // Kendall's pair count is O(n^2) in TLC as well; only Spearman is checked exactly here
                const arr_real a = to_arr(px), b = to_arr(py);
                const double sd = (double)m * ((double)m * m - 1);
                const double s1 = corr(a, b, Correlation::Spearman), s2 = corr(b, a, Correlation::Spearman);
                const double t1 = s1 * sd, r1 = std::nearbyint(t1), t2 = s2 * sd, r2 = std::nearbyint(t2);
                js.begin("Spearman").arr("x", px).arr("y", py).num("sq", vh::as_int(r1)).num("sq2", vh::as_int(r2))
                  .boolean("exact", std::fabs(t1 - r1) <= 1e-6 * sd && std::fabs(t2 - r2) <= 1e-6 * sd).end();
            }
            // long-double definitions
            long double d2 = 0;
            std::vector<int> rx(m), ry(m);
            for (int i = 0; i < m; ++i) {
                rx[i] = (int)px[i], ry[i] = (int)py[i];   // permutations of 1..m: the rank is the value
                d2 += (long double)(rx[i] - ry[i]) * (rx[i] - ry[i]);
            }
            const long double rho = 1 - 6 * d2 / ((long double)m * ((long double)m * m - 1));
            long long nc = 0, nd = 0;
            for (int i = 0; i < m; ++i) {
                for (int k = i + 1; k < m; ++k) {
                    ((px[i] < px[k]) == (py[i] < py[k]) ? nc : nd) += 1;
                }
            }
            const long double tau = (long double)(nc - nd) / (long double)(nc + nd);
            const arr_real a = to_arr(px), b = to_arr(py);
            const double s = corr(a, b, Correlation::Spearman), k = corr(a, b, Correlation::Kendall), p = corr(a, b, Correlation::Pearson);
            const double tol = 64.0 * m * 2.22e-16;
            const double worst = std::max({std::fabs(s - (double)rho), std::fabs(k - (double)tau), std::fabs(p - (double)rho)}) / tol;
            js.begin("CorrBig").num("n", m).boolean("range", std::fabs(s) <= 1 + 1e-12 && std::fabs(k) <= 1 + 1e-12 && std::fabs(p) <= 1 + 1e-12)
              .num("err_milli", (long)std::min(1e9, worst * 1000)).end();
        }
    } else {
        return 3;
    }
    js.flush();
    std::fclose(f);
    return 0;
}
