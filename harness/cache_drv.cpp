// Conformance driver for PlanCache.tla (C10; confinement part of C09).
// Runs request sequences, each in a fresh thread, and logs the cache hook events
// plus, per request, whether the result equals the fresh-thread result.
//
//   cache_drv --out trace --mode seqs --family C|R --maxlen L --cap CAP
//   cache_drv --out trace --mode random --budget N --seed S --cap CAP
#include "common.h"
#include <dsplib.h>
#include <dsplib/verif_hooks.h>
#include <thread>
#include <map>
#include <mutex>

using namespace dsplib;
using vh::Json;

static Json* g_js = nullptr;
static thread_local int t_tid = 0;
static std::map<const void*, int> g_cids;
static std::mutex g_mu;

static void on_access(int kind, int n, bool hit, const int* keys, int nkeys, int map_size, const void* cid) {
    std::lock_guard<std::mutex> lk(g_mu);
    auto it = g_cids.find(cid);
    if (it == g_cids.end()) {
        it = g_cids.emplace(cid, (int)g_cids.size() + 1).first;
    }
    g_js->begin("Access").num("tid", t_tid).str("kind", kind == 0 ? "C" : "R").num("n", n).boolean("hit", hit)
      .arr("keys", keys, keys + nkeys).num("mapsize", map_size).num("cid", it->second).end();
}

enum Api
{
    FFT_C = 0,
    IFFT = 1,
    PLAN_C = 2,
    FFT_PAD = 3,
    RFFT = 10,
    IRFFT = 11,
    PLAN_R = 12,
    IRFFT_HALF = 13,
    IRFFT_ODD = 14,
    RFFT_PAD1 = 15,
    RFFT_PAD5 = 16,
    FFT_PAD5 = 4,
    CZT_A = 5,
    FFT_TINY = 6,
    XCORR = 20,
    HILBERT = 21,
    FFTFILT = 22,
    CZT = 23,
};

static const char* api_name(int a) {
    switch (a) {
    case FFT_C: return "fft";
    case IFFT: return "ifft";
    case PLAN_C: return "FftPlan";
    case FFT_PAD: return "fft_pad";
    case RFFT: return "rfft";
    case IRFFT: return "irfft";
    case PLAN_R: return "FftPlanR";
    case IRFFT_HALF: return "irfft_half";
    case XCORR: return "xcorr";
    case HILBERT: return "hilbert";
    case FFTFILT: return "FftFilter";
    case IRFFT_ODD: return "irfft_odd";
    case RFFT_PAD1: return "rfft_pad1";
    case RFFT_PAD5: return "rfft_pad5";
    case FFT_PAD5: return "fft_pad5";
    case CZT_A: return "czt_a";
    case FFT_TINY: return "fft_tiny";
    case CZT: return "czt";
    }
    return "?";
}

static arr_cmplx cinput(int n) {
    vh::Rng r(1000 + n);
    arr_cmplx x(n);
    for (int i = 0; i < n; ++i) {
        x[i] = cmplx_t(r.gauss(), r.gauss());
    }
    return x;
}
static arr_real rinput(int n) {
    vh::Rng r(5000 + n);
    arr_real x(n);
    for (int i = 0; i < n; ++i) {
        x[i] = r.gauss();
    }
    return x;
}
// conjugate-symmetric spectrum of a real signal, built without the library's FFT
static arr_cmplx hsym(int n) {
    arr_real x = rinput(n);
    arr_cmplx X(n);
    for (int k = 0; k < n; ++k) {
        long double re = 0, im = 0;
        for (int m = 0; m < n; ++m) {
            long double ph = -2.0L * 3.14159265358979323846264338327950288L * ((long long)m * k % n) / n;
            re += x[m] * std::cos(ph);
            im += x[m] * std::sin(ph);
        }
        X[k] = cmplx_t((double)re, (double)im);
    }
    return X;
}

// result of a request flattened to doubles
static std::vector<double> flat(const arr_cmplx& y) {
    std::vector<double> r;
    for (int i = 0; i < y.size(); ++i) {
        r.push_back(y[i].re);
        r.push_back(y[i].im);
    }
    return r;
}
static std::vector<double> flat(const arr_real& y) {
    return std::vector<double>(y.begin(), y.end());
}

static std::vector<double> do_request(int api, int n) {
    switch (api) {
    case FFT_C: return flat(fft(cinput(n)));
    case IFFT: return flat(ifft(cinput(n)));
    case PLAN_C: { FftPlan p(n); return flat(p(cinput(n))); }
    case FFT_PAD: return flat(fft(cinput(n > 2 ? n - 2 : n), n));
    // the same transform on data in the subnormal range: nothing an earlier call did (plans built, processor modes touched)
    // changes how such numbers are treated
    case FFT_TINY: { arr_cmplx x = cinput(n); for (int i = 0; i < n; ++i) { x[i] = x[i] * 1e-310; } return flat(fft(x)); }
    case RFFT: return flat(rfft(rinput(n)));
    // zero padding to the same n from inputs of different lengths (the longer one first leaves more behind, if anything is kept)
    case RFFT_PAD1: return flat(fft(rinput(std::max(1, n - 1)), n));
    case RFFT_PAD5: return flat(rfft(rinput(std::max(1, n - 5)), n));
    case FFT_PAD5: return flat(fft(cinput(std::max(1, n - 5)), n));
    case IRFFT: return (n % 2 == 0) ? flat(irfft(hsym(n), n)) : flat(fft(rinput(n)));
    case IRFFT_HALF: {
        if (n % 2) { return flat(fft(rinput(n))); }
        arr_cmplx X = hsym(n);
        return flat(irfft(arr_cmplx(X.slice(0, n / 2 + 1)), n));
    }
    case IRFFT_ODD: {   // an odd length is rejected; the request itself must leave nothing behind
        bool threw = false;
        try {
            (void)irfft(hsym(n + 1), n + 1);
        } catch (const std::exception&) {
            threw = true;
        }
        return {threw ? 1.0 : 0.0};
    }
    case PLAN_R: { FftPlanR p(n); return flat(p(rinput(n))); }
    case XCORR: return flat(xcorr(rinput(n), rinput(n + 3)));
    case HILBERT: return flat(hilbert(rinput(n)));
    case FFTFILT: { FftFilter f(rinput(std::max(2, n / 4))); return flat(f.process(rinput(4 * n))); }
    case CZT: return flat(czt(cinput(n), n, expj(-2 * pi / n)));
    // the same contour spacing as the DFT of length n, but a start point off the unit circle: shares n, m and w with the
    // chirp-z plan inside a prime-length FFT, and nothing else
    case CZT_A: return flat(czt(cinput(n), n, expj(-2 * pi / n), cmplx_t(0.9 * std::cos(0.3), 0.9 * std::sin(0.3))));
    }
    return {};
}

struct Cmp
{
    bool eq, bit, finite;
};
static Cmp compare(const std::vector<double>& a, const std::vector<double>& ref, int n) {
    Cmp c{true, true, true};
    if (a.size() != ref.size()) {
        return {false, false, true};
    }
    long double nr = 0;
    for (double v : ref) {
        nr += (long double)v * v;
    }
    const double tol = 4.0 * std::max(n, 2) * 2.220446049250313e-16 * std::sqrt((double)nr) + 1e-300;
    for (size_t i = 0; i < a.size(); ++i) {
        if (!std::isfinite(a[i])) {
            c.finite = false;
        }
        if (std::memcmp(&a[i], &ref[i], sizeof(double)) != 0) {
            c.bit = false;
        }
        if (!(std::fabs(a[i] - ref[i]) <= tol)) {
            c.eq = false;
        }
    }
    return c;
}

static std::map<std::pair<int, int>, std::vector<double>> g_ref;
static const std::vector<double>& reference(int api, int n) {
    auto key = std::make_pair(api, n);
    auto it = g_ref.find(key);
    if (it != g_ref.end()) {
        return it->second;
    }
    std::vector<double> r;
    auto saved = verif::on_cache_access;
    verif::on_cache_access = nullptr;   // the fresh reference thread is not part of the trace
    std::thread th([&] { r = do_request(api, n); });
    th.join();
    verif::on_cache_access = saved;
    return g_ref.emplace(key, std::move(r)).first->second;
}

static long g_bitdiff = 0;
static void call(Json& js, int api, int n) {
    const auto& ref = reference(api, n);
    auto got = do_request(api, n);
    Cmp c = compare(got, ref, n);
    g_bitdiff += c.bit ? 0 : 1;
    std::lock_guard<std::mutex> lk(g_mu);
    js.begin("Call").num("tid", t_tid).str("api", api_name(api)).num("n", n).boolean("eqfresh", c.eq)
      .boolean("bitident", c.bit).boolean("finite", c.finite).end();
}

static void dump_keys(Json& js) {
    auto kc = verif::fft_cache_keys();
    auto kr = verif::rfft_cache_keys();
    std::lock_guard<std::mutex> lk(g_mu);
    js.begin("Keys").num("tid", t_tid).str("kind", "C").arr("keys", kc).end();
    js.begin("Keys").num("tid", t_tid).str("kind", "R").arr("keys", kr).end();
}

static int g_next_tid = 0;
template<class F>
static void in_fresh_thread(Json& js, F&& body) {
    const int tid = ++g_next_tid;
    {
        std::lock_guard<std::mutex> lk(g_mu);
        js.begin("Reset").num("tid", tid).end();
    }
    std::thread th([&] {
        t_tid = tid;
        body();
        dump_keys(js);
    });
    th.join();
    {
        std::lock_guard<std::mutex> lk(g_mu);
        js.begin("Exit").num("tid", tid).end();
    }
}

int main(int argc, char** argv) {
    const std::string mode = vh::arg(argc, argv, "--mode", "seqs");
    const std::string family = vh::arg(argc, argv, "--family", "C");
    const int maxlen = std::atoi(vh::arg(argc, argv, "--maxlen", "4"));
    const int cap = std::atoi(vh::arg(argc, argv, "--cap", "4"));
    const long seed = std::atol(vh::arg(argc, argv, "--seed", "1"));
    const long budget = std::atol(vh::arg(argc, argv, "--budget", "1000"));
    const int shard = std::atoi(vh::arg(argc, argv, "--shard", "0"));
    const int nshards = std::atoi(vh::arg(argc, argv, "--nshards", "1"));
    FILE* f = vh::open_out(vh::arg(argc, argv, "--out", "/dev/stdout"));
    Json js(f);
    g_js = &js;
    verif::on_cache_access = on_access;
    js.begin("Config").num("cap", cap).end();

    // pow2, composites sharing prime sub-plans (3, 5, 7), a small prime, a Bluestein prime: more than the cache holds
    const std::vector<int> alphaC = {6, 12, 15, 16, 21, 43};
    const std::vector<int> alphaR = {12, 15, 30, 32, 42, 86};
    // second pair of alphabets: Bluestein primes that share a padded chirp length (43, 47, 61 -> 128) with their doubles and a
    // power of two; real lengths chained by n/2 + 1 = m (a full spectrum of m bins is as long as a half spectrum of n)
    const std::vector<int> alphaC2 = {43, 47, 61, 86, 94, 64};
    const std::vector<int> alphaR2 = {4, 6, 10, 18, 34, 86};

    if (mode == "seqs") {
        const auto& alpha = (family == "C") ? alphaC : (family == "R") ? alphaR : (family == "C2") ? alphaC2 : alphaR2;
        const int A = (int)alpha.size();
        long seqno = 0;
        for (int len = 1; len <= maxlen; ++len) {
            long total = 1;
            for (int i = 0; i < len; ++i) {
                total *= A;
            }
            for (long code = 0; code < total; ++code, ++seqno) {
                if (seqno % nshards != shard) {
                    continue;
                }
                in_fresh_thread(js, [&] {
                    long c = code;
                    for (int i = 0; i < len; ++i, c /= A) {
                        const int n = alpha[c % A];
                        int api;
                        if (family == "C2") {
                            const int v = (int)((seqno + i) % 4);
                            api = v == 0 ? CZT_A : v == 1 ? FFT_C : v == 2 ? CZT : PLAN_C;
                        } else if (family[0] == 'C') {
                            const int v = (int)((seqno + i) % 6);
                            api = v == 0 ? FFT_C : v == 1 ? IFFT : v == 2 ? PLAN_C : v == 3 ? FFT_PAD : v == 4 ? FFT_PAD5 : FFT_TINY;
                        } else if (family == "R") {
                            const int v = (int)((seqno + i) % 6);
                            api = v == 0 ? RFFT : v == 1 ? IRFFT : v == 2 ? PLAN_R : v == 3 ? IRFFT_HALF : v == 4 ? RFFT_PAD1 : RFFT_PAD5;
                        } else {
                            const int v = (int)((seqno / 3 + i) % 3);   // full spectrum, half spectrum, and a rejected odd length in between
                            api = v == 0 ? IRFFT : v == 1 ? IRFFT_HALF : IRFFT_ODD;
                        }
                        call(js, api, n);
                    }
                });
            }
        }
    } else if (mode == "random") {
        vh::Rng rng(seed);
        std::vector<int> lens;
        for (int n : {5, 6, 7, 9, 10, 11, 12, 13, 14, 15, 16, 18, 20, 21, 22, 24, 25, 27, 30, 32, 33, 35, 42, 43, 45,
                      47, 48, 49, 53, 60, 63, 64, 86, 94, 100, 106, 127, 128, 129, 210}) {
            lens.push_back(n);
        }
        const std::vector<int> apis = {FFT_C, IFFT, PLAN_C, FFT_PAD, FFT_PAD5, CZT_A, FFT_TINY, RFFT, RFFT_PAD1, RFFT_PAD5, IRFFT, PLAN_R, IRFFT_HALF, IRFFT_ODD, XCORR, HILBERT,
                                       FFTFILT, CZT};
        long done = 0;
        while (done < budget) {
            in_fresh_thread(js, [&] {
                struct HeldC { int n; FftPlan p; };
                struct HeldR { int n; FftPlanR p; };
                struct HeldI { int n; IfftPlan p; };
                struct HeldIR { int n; IfftPlanR p; };
                std::vector<HeldC> hc;
                std::vector<HeldR> hr;
                std::vector<HeldI> hi;
                std::vector<HeldIR> hir;
                const long chunk = std::min<long>(budget - done, 50 + rng.range(0, 400));
                for (long k = 0; k < chunk; ++k, ++done) {
                    const int n = lens[rng.range(0, lens.size() - 1)];
                    const int what = (int)rng.range(0, 9);
                    if (what == 0 && hc.size() < 6) {
                        hc.push_back({n, FftPlan(n)});
                    } else if (what == 1 && hr.size() < 6) {
                        hr.push_back({n, FftPlanR(n)});
                    } else if (what == 2 && hi.size() < 4) {
                        hi.push_back({n, IfftPlan(n)});
                    } else if (what == 3 && hir.size() < 4 && n % 2 == 0) {
                        hir.push_back({n, IfftPlanR(n)});
                    } else if (what == 4 && (!hc.empty() || !hr.empty() || !hi.empty() || !hir.empty())) {
                        // use a long-lived plan: must still give the fresh result
                        std::vector<double> got;
                        int hn = 0, api = 0;
                        const char* nm = "";
                        const int which = (int)rng.range(0, 3);
                        if (which == 0 && !hc.empty()) {
                            auto& h = hc[rng.range(0, hc.size() - 1)];
                            got = flat(h.p(cinput(h.n))); hn = h.n; api = FFT_C; nm = "FftPlan";
                        } else if (which == 1 && !hr.empty()) {
                            auto& h = hr[rng.range(0, hr.size() - 1)];
                            got = flat(h.p(rinput(h.n))); hn = h.n; api = RFFT; nm = "FftPlanR";
                        } else if (which == 2 && !hi.empty()) {
                            auto& h = hi[rng.range(0, hi.size() - 1)];
                            got = flat(h.p(cinput(h.n))); hn = h.n; api = IFFT; nm = "IfftPlan";
                        } else if (!hir.empty()) {
                            auto& h = hir[rng.range(0, hir.size() - 1)];
                            got = flat(h.p(hsym(h.n))); hn = h.n; api = IRFFT; nm = "IfftPlanR";
                        } else {
                            continue;
                        }
                        Cmp c = compare(got, reference(api, hn), hn);
                        g_bitdiff += c.bit ? 0 : 1;
                        std::lock_guard<std::mutex> lk(g_mu);
                        js.begin("Held").num("tid", t_tid).str("plan", nm).num("n", hn).boolean("eqfresh", c.eq)
                          .boolean("bitident", c.bit).boolean("finite", c.finite).end();
                    } else {
                        call(js, apis[rng.range(0, apis.size() - 1)], n);
                    }
                }
            });
        }
    } else {
        std::fprintf(stderr, "unknown mode\n");
        return 3;
    }
    js.begin("Stat").num("bitdiff", g_bitdiff).end();
    js.flush();
    std::fclose(f);
    return 0;
}
