// Conformance driver for Trace_Adaptive.tla (C12): LMS / NLMS / RLS.
//   adapt_drv --out t --mode exact    --seed S --budget N    integer LMS, random lock schedules and framings
//   adapt_drv --out t --mode general  --seed S --budget N    LMS/NLMS/RLS real+complex: e = d - y, lock, a-priori outputs
//   adapt_drv --out t --mode converge --seed S --budget N    NLMS/RLS identification, RLS = regularised weighted LS
#include "common.h"
#include <dsplib.h>
#include <complex>
#include <functional>
#include <memory>
using namespace dsplib;
using vh::Json;
using LD = long double;
using LC = std::complex<long double>;
static const double EPS = 2.220446049250313e-16;
static long milli(double err, double bound) {
    return (long)std::min(1e9, std::ceil(err / bound * 1000.0));
}

template<class T>
struct Tr;
template<>
struct Tr<real_t>
{
    static real_t mk(double re, double) { return re; }
    static double re(real_t v) { return v; }
    static double im(real_t) { return 0; }
    static constexpr bool cplx = false;
};
template<>
struct Tr<cmplx_t>
{
    static cmplx_t mk(double re, double im) { return cmplx_t(re, im); }
    static double re(cmplx_t v) { return v.re; }
    static double im(cmplx_t v) { return v.im; }
    static constexpr bool cplx = true;
};
template<class T>
static bool bit_equal(const base_array<T>& a, const base_array<T>& b) {
    return a.size() == b.size() && (a.size() == 0 || std::memcmp(a.data(), b.data(), a.size() * sizeof(T)) == 0);
}
template<class T>
static void put_arr(Json& js, const char* kr, const char* ki, const base_array<T>& a) {
    std::vector<long> r, i;
    for (int k = 0; k < a.size(); ++k) {
        r.push_back(vh::as_int(Tr<T>::re(a[k])));
        i.push_back(vh::as_int(Tr<T>::im(a[k])));
    }
    js.arr(kr, r).arr(ki, i);
}

static int g_id = 0;

template<class T>
static void exact_run(Json& js, vh::Rng& rng) {
    const int len = (int)rng.range(2, 3);
    const int mu = (int)rng.range(1, 2);
    LmsFilter<T> f(len, (double)mu, LmsType::LMS, 1.0);
    const int id = ++g_id;
    js.begin("New").num("id", id).str("kind", Tr<T>::cplx ? "lmsc" : "lms").num("len", len).num("mu", mu).boolean("exact", true).end();
    int total = 0;
    while (total < 7) {
        if (rng.range(0, 2) == 0) {
            const bool v = rng.coin();
            f.set_lock_coeffs(v);
            js.begin("Lock").num("id", id).boolean("v", v).boolean("reported", f.coeffs_locked()).end();
        }
        const int fl = (int)rng.range(1, 3);
        base_array<T> x(fl), d(fl);
        for (int i = 0; i < fl; ++i) {
            x[i] = Tr<T>::mk((double)rng.range(-2, 2), Tr<T>::cplx ? (double)rng.range(-1, 1) : 0.0);
            d[i] = Tr<T>::mk((double)rng.range(-2, 2), Tr<T>::cplx ? (double)rng.range(-2, 2) : 0.0);
        }
        const auto before = f.coeffs();
        const auto r = f.process(x, d);
        const auto after = f.coeffs();
        bool e_exact = true, big = false;
        for (int i = 0; i < fl; ++i) {
            const T want = d[i] - r.y[i];
            e_exact = e_exact && std::memcmp(&want, &r.e[i], sizeof(T)) == 0;
        }
        for (int i = 0; i < after.size(); ++i) {
            big = big || std::fabs(Tr<T>::re(after[i])) > 2e5 || std::fabs(Tr<T>::im(after[i])) > 2e5;
        }
        js.begin("Proc").num("id", id);
        put_arr(js, "xr", "xi", x);
        put_arr(js, "dr", "di", d);
        put_arr(js, "yr", "yi", r.y);
        put_arr(js, "er", "ei", r.e);
        put_arr(js, "cr", "ci", after);
        js.boolean("e_exact", e_exact).boolean("same", bit_equal(before, after)).end();
        total += fl;
        if (big) {
            break;   // keep the numbers inside TLC's integers
        }
    }
    js.begin("Drop").num("id", id).end();
}

// generic filter wrapper
template<class T>
struct Flt
{
    std::function<std::pair<base_array<T>, base_array<T>>(const base_array<T>&, const base_array<T>&)> proc;
    std::function<base_array<T>()> coeffs;
    std::function<void(bool)> lock;
    std::function<bool()> locked;
    std::string name;
    int len;
};
template<class T>
static Flt<T> make_filter(vh::Rng& rng, int kind, int len) {
    Flt<T> F;
    F.len = len;
    if (kind == 0 || kind == 1) {
        const double mu = kind == 0 ? 0.002 + 0.03 * rng.unif() : 0.1 + 1.4 * rng.unif();
        const double leak = rng.coin() ? 1.0 : 1.0 - 0.01 * rng.unif();
        auto f = std::make_shared<LmsFilter<T>>(len, mu, kind == 0 ? LmsType::LMS : LmsType::NLMS, leak);
        F.proc = [f](const base_array<T>& x, const base_array<T>& d) { auto r = f->process(x, d); return std::make_pair(r.y, r.e); };
        F.coeffs = [f] { return f->coeffs(); };
        F.lock = [f](bool v) { f->set_lock_coeffs(v); };
        F.locked = [f] { return f->coeffs_locked(); };
        F.name = kind == 0 ? "lms" : "nlms";
    } else {
        const double lam = 0.9 + 0.1 * rng.unif();
        const double load = std::pow(10.0, -2 + 6 * rng.unif());
        auto f = std::make_shared<RlsFilter<T>>(len, lam, load);
        F.proc = [f](const base_array<T>& x, const base_array<T>& d) { auto r = f->process(x, d); return std::make_pair(r.y, r.e); };
        F.coeffs = [f] { return base_array<T>(f->coeffs()); };
        F.lock = [f](bool v) { f->set_lock_coeffs(v); };
        F.locked = [f] { return f->coeffs_locked(); };
        F.name = "rls";
    }
    return F;
}

template<class T>
static void general_run(Json& js, vh::Rng& rng) {
    const int kind = (int)rng.range(0, 2);
    const int len = (int)rng.range(2, 16);
    Flt<T> F = make_filter<T>(rng, kind, len);
    const int id = ++g_id;
    js.begin("New").num("id", id).str("kind", F.name + (Tr<T>::cplx ? "c" : "")).num("len", len).num("mu", 0).boolean("exact", false).end();
    std::vector<T> hist;   // whole input so far
    const int calls = (int)rng.range(4, 14);
    for (int c = 0; c < calls; ++c) {
        if (rng.range(0, 2) == 0) {
            const bool v = rng.coin();
            F.lock(v);
            js.begin("Lock").num("id", id).boolean("v", v).boolean("reported", F.locked()).end();
        }
        const int fl = rng.coin() ? 1 : (int)rng.range(1, 40);
        base_array<T> x(fl), d(fl);
        for (int i = 0; i < fl; ++i) {
            x[i] = Tr<T>::mk(rng.gauss(), Tr<T>::cplx ? rng.gauss() : 0.0);
            d[i] = Tr<T>::mk(rng.gauss(), Tr<T>::cplx ? rng.gauss() : 0.0);
        }
        const auto before = F.coeffs();
        const bool was_locked = F.locked();
        const auto r = F.proc(x, d);
        const auto after = F.coeffs();
        bool e_exact = true;
        for (int i = 0; i < fl; ++i) {
            const T want = d[i] - r.first[i];
            e_exact = e_exact && std::memcmp(&want, &r.second[i], sizeof(T)) == 0;
        }
        for (int i = 0; i < fl; ++i) {
            hist.push_back(x[i]);
        }
        // plain FIR with the coefficients read before the call: valid for every sample when locked, and for the
        // first sample of the call otherwise (a-priori: the output uses the coefficients held before the update)
        double worst_locked = 0, apriori = 0;
        const size_t base = hist.size() - fl;
        for (int i = 0; i < fl; ++i) {
            if (!was_locked && i > 0) {
                break;
            }
            LC acc = 0;
            LD mag = 0;
            for (int j = 0; j < len; ++j) {
                const long idx = (long)(base + i) - j;
                if (idx < 0) {
                    break;
                }
                const LC cj(Tr<T>::re(before[j]), Tr<T>::im(before[j])), xj(Tr<T>::re(hist[idx]), Tr<T>::im(hist[idx]));
                acc += cj * xj;
                mag += std::abs(cj * xj);
            }
            const LC got(Tr<T>::re(r.first[i]), Tr<T>::im(r.first[i]));
            const double rel = (double)(std::abs(got - acc) / (mag + 1e-300L));
            if (was_locked) {
                worst_locked = std::max(worst_locked, rel);
            }
            if (i == 0) {
                apriori = rel;
            }
        }
        js.begin("ProcN").num("id", id).num("n", fl).boolean("e_exact", e_exact).boolean("same", bit_equal(before, after))
          .num("locked_fir_milli", milli(worst_locked, 16.0 * len * EPS)).num("apriori_milli", milli(apriori, 16.0 * len * EPS)).end();
    }
    js.begin("Drop").num("id", id).end();
}

// identification of an unknown FIR system, noise free
template<class T>
static void converge_run(Json& js, vh::Rng& rng) {
    const int len = (int)rng.range(2, 64);
    const int hlen = (int)rng.range(1, len);
    std::vector<LC> h(len, LC(0, 0));
    for (int i = 0; i < hlen; ++i) {
        h[i] = LC(rng.gauss(), Tr<T>::cplx ? rng.gauss() : 0.0);
    }
    const bool rls = rng.coin();
    long N;
    std::function<std::pair<base_array<T>, base_array<T>>(const base_array<T>&, const base_array<T>&)> proc;
    std::function<base_array<T>()> coeffs;
    double p1 = 0, p2 = 0;
    if (!rls) {
        const double mu = 0.1 + 1.4 * rng.unif();
        p1 = mu;
        auto f = std::make_shared<LmsFilter<T>>(len, mu, LmsType::NLMS, 1.0);
        proc = [f](const base_array<T>& x, const base_array<T>& d) { auto r = f->process(x, d); return std::make_pair(r.y, r.e); };
        coeffs = [f] { return f->coeffs(); };
        N = (long)(40.0 * len / (mu * (2 - mu))) + 2000;
    } else {
        const double lam = (rng.range(0, 2) == 0) ? 0.9 + 0.03 * rng.unif() : 0.9 + 0.099 * rng.unif(), load = std::pow(10.0, -2 + 6 * rng.unif());
        p1 = lam, p2 = load;
        auto f = std::make_shared<RlsFilter<T>>(len, lam, load);
        proc = [f](const base_array<T>& x, const base_array<T>& d) { auto r = f->process(x, d); return std::make_pair(r.y, r.e); };
        coeffs = [f] { return base_array<T>(f->coeffs()); };
        // the regulariser lambda^k / load must have decayed: lambda^N / load <= 1e-9
        N = (long)((std::log(1e9 / std::min(load, 1.0)) + 5) / -std::log(lam)) + 60 * len;
        if (lam < 0.93 && len <= 16) {
            N = 12000;   // a long uninterrupted adaptation with strong forgetting: lambda^-k leaves the double range, the filter must not
        }
    }
    N = std::min<long>(N, 60000);
    // NLMS normalises by the input power: the level of the (white) input is free, -120 dB .. +40 dB
    const double amp = rls ? 1.0 : std::pow(10.0, -6 + 8 * rng.unif());
    std::vector<T> xs;
    long done = 0;
    while (done < N) {
        const int fl = (int)std::min<long>(N - done, rng.range(1, 500));
        base_array<T> x(fl), d(fl);
        for (int i = 0; i < fl; ++i) {
            x[i] = Tr<T>::mk(amp * rng.gauss(), Tr<T>::cplx ? amp * rng.gauss() : 0.0);
            xs.push_back(x[i]);
            LC acc = 0;
            for (int j = 0; j < hlen; ++j) {
                const long idx = (long)xs.size() - 1 - j;
                if (idx >= 0) {
                    acc += h[j] * LC(Tr<T>::re(xs[idx]), Tr<T>::im(xs[idx]));
                }
            }
            d[i] = Tr<T>::mk((double)acc.real(), (double)acc.imag());
        }
        proc(x, d);
        done += fl;
    }
    const auto c = coeffs();
    LD num = 0, den = 0;
    for (int j = 0; j < len; ++j) {
        num += std::norm(LC(Tr<T>::re(c[j]), Tr<T>::im(c[j])) - h[j]);
        den += std::norm(h[j]);
    }
    const double mis = (double)(num / den);
    js.begin("Resid").str("clause", "C12.converge").str("kind", rls ? "rls" : "nlms").boolean("cplx", Tr<T>::cplx).num("len", len)
      .num("p1_milli", (long)(p1 * 1000)).num("p2_milli", (long)std::min(1e9, p2 * 1000)).num("N", N)
      .num("err_milli", milli(mis, 1e-6)).end();
}

// LMS / NLMS against the textbook recursion carried in long double, sample by sample over a short horizon, with random
// framings and random lock / unlock phases (locked samples still move the delay line but must not touch the weights or
// anything the later updates depend on):
//   y = w^T u;  e = d - y;  LMS: w <- leak w + mu e conj(u);  NLMS: w <- leak w + mu e conj(u) / (u^H u + eps)
template<class T>
static void ref_run(Json& js, vh::Rng& rng) {
    const int len = (int)rng.range(2, 16);
    const bool nlms = rng.range(0, 2) != 0;
    static const double LEAK[] = {1.0, 1.0, 0.999, 0.95};
    const double leak = LEAK[rng.range(0, 3)];
    const double scale = std::pow(10.0, rng.range(-7, 3));   // signal level: 200 dB of range, adaptation does not care
    const double mu = nlms ? 0.1 + 1.3 * rng.unif() : (0.02 + 0.2 * rng.unif()) / (len * scale * scale * (Tr<T>::cplx ? 2 : 1));
    LmsFilter<T> f(len, mu, nlms ? LmsType::NLMS : LmsType::LMS, leak);
    std::vector<LC> w(len, LC(0, 0)), u(len, LC(0, 0));   // u[0] newest
    const long N = rng.range(60, 300);
    long done = 0, locked_samples = 0;
    bool locked = false;
    double worst_w = 0, worst_y = 0;
    if (rng.range(0, 3) == 0) {   // locked from the very first sample
        locked = true;
        f.set_lock_coeffs(true);
    }
    while (done < N) {
        if (rng.range(0, 3) == 0) {
            locked = !locked;
            f.set_lock_coeffs(locked);
        }
        const int fl = (int)std::min<long>(N - done, rng.range(1, 40));
        base_array<T> x(fl), d(fl);
        for (int i = 0; i < fl; ++i) {
            x[i] = Tr<T>::mk(scale * rng.gauss(), Tr<T>::cplx ? scale * rng.gauss() : 0.0);
            d[i] = Tr<T>::mk(scale * rng.gauss(), Tr<T>::cplx ? scale * rng.gauss() : 0.0);
        }
        const auto r = f.process(x, d);
        LD ymax = 0;
        double fy = 0;
        for (int k = 0; k < fl; ++k) {
            for (int i = len - 1; i > 0; --i) {
                u[i] = u[i - 1];
            }
            u[0] = LC(Tr<T>::re(x[k]), Tr<T>::im(x[k]));
            LC y = 0;
            LD pu = 0;
            for (int i = 0; i < len; ++i) {
                y += w[i] * u[i];
                pu += std::norm(u[i]);
            }
            const LC e = LC(Tr<T>::re(d[k]), Tr<T>::im(d[k])) - y;
            ymax = std::max<LD>(ymax, std::abs(y));
            fy = std::max(fy, (double)std::abs(LC(Tr<T>::re(r.y[k]), Tr<T>::im(r.y[k])) - y));
            if (locked) {
                ++locked_samples;
                continue;
            }
            const LD norm = nlms ? pu + (LD)eps() : 1.0L;
            for (int i = 0; i < len; ++i) {
                w[i] = w[i] * (LD)leak + (LD)mu * e * std::conj(u[i]) / norm;
            }
        }
        // the coefficients are read after some frames only (reading them must not be what keeps them current), always at the end
        if (rng.coin() || done + fl >= N) {
            const auto c = f.coeffs();   // c[0] weighs the newest sample
            LD wmax = 1e-300L;
            for (int i = 0; i < len; ++i) {
                wmax = std::max<LD>(wmax, std::abs(w[i]));
            }
            for (int i = 0; i < len; ++i) {
                worst_w = std::max(worst_w, (double)(std::abs(LC(Tr<T>::re(c[i]), Tr<T>::im(c[i])) - w[i]) / wmax));
            }
        }
        worst_y = std::max(worst_y, fy / (double)std::max<LD>(ymax, scale));
        done += fl;
    }
    js.begin("Resid").str("clause", "C12.ref-recursion").str("kind", nlms ? "nlms" : "lms").boolean("cplx", Tr<T>::cplx).num("len", len)
      .num("p1_milli", (long)std::min(1e9, mu * 1000)).num("p2_milli", (long)(leak * 1000)).num("N", N).num("locked", locked_samples)
      .num("err_milli", milli(std::max(worst_w, worst_y), 1e-8)).end();
}

// real RLS = exponentially weighted, diagonally regularised least squares (P(0) = load * I)
static void rls_ls_run(Json& js, vh::Rng& rng) {
    const int len = (int)rng.range(2, 8);
    const double lam = 0.9 + 0.1 * rng.unif(), load = std::pow(10.0, -2 + 6 * rng.unif());
    RlsFilterR f(len, lam, load);
    const int K = (int)rng.range(1, 3 * len + 4);
    const int silent_head = rng.range(0, 2) == 0 ? (int)rng.range(1, len + 2) : 0;
    const int gap_at = rng.range(0, 2) == 0 ? (int)rng.range(1, std::max(1, K - 1)) : -1;
    const int quiet_d = rng.range(0, 2) == 0 ? (int)rng.range(1, len + 3) : 0;
    std::vector<double> xs, ds;
    // one run in three: the coefficients are locked for a stretch (whole frames).  Locked samples move the delay line and are
    // filtered, but they are no observations: they enter neither the normal equations nor the forgetting
    const int lock_at = rng.range(0, 2) == 0 ? (int)rng.range(0, K - 1) : -1;
    const int lock_len = (int)rng.range(1, 3 * len + 6);
    std::vector<char> lk;
    int done = 0;
    while (done < K) {
        const int fl = (int)std::min<long>(K - done, rng.range(1, 5));
        const bool lock_now = lock_at >= 0 && done >= lock_at && done < lock_at + lock_len;
        f.set_lock_coeffs(lock_now);
        lk.insert(lk.end(), fl, (char)lock_now);
        arr_real x(fl), d(fl);
        for (int i = 0; i < fl; ++i) {
            x[i] = rng.gauss(), d[i] = rng.gauss();
            if (silent_head > 0 && done + i < silent_head) {
                x[i] = 0;   // leading silence: all-zero regressors must still be forgotten with lambda
            }
            if (quiet_d > 0 && done + i < quiet_d) {
                d[i] = 0;   // the desired signal starts late (bulk delay): the a-priori error is exactly 0 while w = 0, the
                            // samples still enter the normal equations
            }
            if (gap_at >= 0 && done + i >= gap_at && done + i < gap_at + len + 1) {
                x[i] = 0;   // a silent gap at least as long as the filter
            }
            xs.push_back(x[i]);
            ds.push_back(d[i]);
        }
        f.process(x, d);
        done += fl;
    }
    // normal equations in long double
    std::vector<std::vector<LD>> A(len, std::vector<LD>(len + 1, 0));
    std::vector<int> after(K + 1, 0);   // observations (unlocked samples) after sample k
    for (int k = K - 1; k >= 0; --k) {
        after[k] = after[k + 1] + (lk[k] ? 0 : 1);
    }
    for (int i = 0; i < len; ++i) {
        A[i][i] = powl((LD)lam, after[0]) / (LD)load;
    }
    for (int k = 0; k < K; ++k) {
        if (lk[k]) {
            continue;
        }
        const LD wgt = powl((LD)lam, after[k + 1]);
        std::vector<LD> u(len, 0);
        for (int j = 0; j < len; ++j) {
            if (k - j >= 0) {
                u[j] = xs[k - j];
            }
        }
        for (int i = 0; i < len; ++i) {
            for (int j = 0; j < len; ++j) {
                A[i][j] += wgt * u[i] * u[j];
            }
            A[i][len] += wgt * u[i] * ds[k];
        }
    }
    for (int c = 0; c < len; ++c) {   // Gaussian elimination with partial pivoting
        int p = c;
        for (int r = c + 1; r < len; ++r) {
            if (fabsl(A[r][c]) > fabsl(A[p][c])) {
                p = r;
            }
        }
        std::swap(A[c], A[p]);
        for (int r = 0; r < len; ++r) {
            if (r != c) {
                const LD m = A[r][c] / A[c][c];
                for (int q = c; q <= len; ++q) {
                    A[r][q] -= m * A[c][q];
                }
            }
        }
    }
    const arr_real w = f.coeffs();
    LD num = 0, den = 0;
    for (int j = 0; j < len; ++j) {
        const LD ref = A[j][len] / A[j][j];
        num += (w[j] - ref) * (w[j] - ref);
        den += ref * ref;
    }
    const double err = den == 0 ? (double)sqrtl(num) : (double)sqrtl(num / den);
    js.begin("Resid").str("clause", "C12.rls-ls").num("len", len).num("K", K).num("p1_milli", (long)(lam * 1000))
      .num("p2_milli", (long)std::min(1e9, load * 1000)).num("err_milli", milli(err, 1e-6)).end();
}

int main(int argc, char** argv) {
    const std::string mode = vh::arg(argc, argv, "--mode", "exact");
    const long seed = std::atol(vh::arg(argc, argv, "--seed", "1"));
    const long budget = std::atol(vh::arg(argc, argv, "--budget", "50"));
    FILE* f = vh::open_out(vh::arg(argc, argv, "--out", "/dev/stdout"));
    Json js(f);
    js.flush_each = false;
    vh::Rng rng(seed);
    for (long t = 0; t < budget; ++t) {
        if (mode == "exact") {
            exact_run<real_t>(js, rng);
            exact_run<cmplx_t>(js, rng);
        } else if (mode == "general") {
            general_run<real_t>(js, rng);
            general_run<cmplx_t>(js, rng);
        } else if (mode == "converge") {
            if (t % 2) {
                converge_run<cmplx_t>(js, rng);
            } else {
                converge_run<real_t>(js, rng);
            }
            rls_ls_run(js, rng);
            rls_ls_run(js, rng);
            for (int q = 0; q < 6; ++q) {
                ref_run<real_t>(js, rng);
                ref_run<cmplx_t>(js, rng);
            }
        } else {
            return 3;
        }
    }
    js.flush();
    std::fclose(f);
    return 0;
}
