// Conformance driver for Trace_Design.tla (C11): fir1 and the window functions.
#include "common.h"
#include <dsplib.h>
using namespace dsplib;
using vh::Json;
using LD = long double;
static const LD PI_L = 3.14159265358979323846264338327950288L;
static const double EPS = 2.220446049250313e-16;
static long milli(double err, double bound) {
    return (long)std::min(1e9, std::ceil(err / bound * 1000.0));
}

static void fir_event(Json& js, const char* type, int n, int w1, int w2, const arr_real* custom, bool masks = true) {
    arr_real h;
    const FilterType ft = std::string(type) == "low" ? FilterType::Low : std::string(type) == "high" ? FilterType::High
                          : std::string(type) == "bandpass" ? FilterType::Bandpass : FilterType::Bandstop;
    const bool two = ft == FilterType::Bandpass || ft == FilterType::Bandstop;
    const char* o = vh::outcome([&] {
        if (custom) {
            h = two ? fir1(n, w1 / 1000.0, w2 / 1000.0, ft, *custom) : fir1(n, w1 / 1000.0, ft, *custom);
        } else {
            h = two ? fir1(n, w1 / 1000.0, w2 / 1000.0, ft) : fir1(n, w1 / 1000.0, ft);
        }
    });
    const int N = h.size();
    double peak = 0, asym = 0;
    LD dc = 0, nyq = 0;
    for (int i = 0; i < N; ++i) {
        peak = std::max(peak, std::fabs(h[i]));
        asym = std::max(asym, std::fabs(h[i] - h[N - 1 - i]));
        dc += h[i];
        nyq += (i % 2) ? -(LD)h[i] : (LD)h[i];
    }
    // magnitude response on a 4096-point grid, masks outside the transition regions of half-width 4/(n+1)
    const int hw = (4000 + n) / (n + 1);   // in 1/1000 of Nyquist, rounded up
    double pass_dev = 0, stop_max = 0;
    if (N > 0) {
        struct Band { int lo, hi, pass; };
        std::vector<Band> bands;
        const std::string ty = type;
        if (ty == "low") { bands = {{0, w1, 1}, {w1, 1000, 0}}; }
        if (ty == "high") { bands = {{0, w1, 0}, {w1, 1000, 1}}; }
        if (ty == "bandpass") { bands = {{0, w1, 0}, {w1, w2, 1}, {w2, 1000, 0}}; }
        if (ty == "bandstop") { bands = {{0, w1, 1}, {w1, w2, 0}, {w2, 1000, 1}}; }
        for (int g = 0; g <= 4096; ++g) {
            const LD fq = (LD)g / 4096;   // Nyquist = 1
            LD re = 0, im = 0;
            for (int i = 0; i < N; ++i) {
                re += h[i] * cosl(PI_L * fq * i);
                im -= h[i] * sinl(PI_L * fq * i);
            }
            const double mag = (double)sqrtl(re * re + im * im);
            for (auto& b : bands) {
                const LD lo = (b.lo == 0) ? 0 : (LD)(b.lo + hw) / 1000, hi = (b.hi == 1000) ? 1 : (LD)(b.hi - hw) / 1000;
                if (fq >= lo && fq <= hi) {
                    if (b.pass) {
                        pass_dev = std::max(pass_dev, std::fabs(mag - 1));
                    } else {
                        stop_max = std::max(stop_max, mag);
                    }
                }
            }
        }
    }
    int ftv = -1;
    if (N > 0) {
        ftv = (int)firtype(h);
    }
    js.begin("Fir").str("type", type).num("n", n).num("w1", w1).num("w2", w2).boolean("custom", custom != nullptr).boolean("masks", masks).str("o", o)
      .num("len", N).num("sym_milli", milli(asym, 4 * EPS * (peak + 1e-300))).num("firtype", ftv)
      .num("dc_milli", milli((double)fabsl(dc - 1), 64.0 * (n + 2) * EPS)).num("nyq_milli", milli(std::fabs((double)fabsl(nyq) - 1), 64.0 * (n + 2) * EPS))
      .num("hw", hw).num("pass_ppm", (long)std::min(1e9, pass_dev * 1e6)).num("stop_ppm", (long)std::min(1e9, stop_max * 1e6)).end();
}

static void run_fir(Json& js, vh::Rng& rng, int a, int b) {
    static const char* TY[] = {"low", "high", "bandpass", "bandstop"};
    for (int n = std::max(2, a); n < b; ++n) {
        for (int t = 0; t < 4; ++t) {
            for (int rep = 0; rep < 3; ++rep) {
                int w1 = (int)rng.range(20, 980), w2 = (int)rng.range(20, 980);
                if (rep == 0) {
                    w1 = 20 * (int)rng.range(1, 49);   // the 0.02 grid
                    w2 = 20 * (int)rng.range(1, 49);
                }
                if (t >= 2) {
                    if (w1 == w2) {
                        w2 = std::min(980, w1 + 40);
                        if (w1 == w2) { w1 -= 40; }
                    }
                    if (w1 > w2) {
                        std::swap(w1, w2);
                    }
                } else {
                    w2 = w1;
                }
                fir_event(js, TY[t], n, w1, w2, nullptr);
                if (rep == 2) {
                    // custom windows: right length (a Hann window) and wrong lengths
                    const int good = (n % 2 == 1 && (t == 1 || t == 3)) ? n + 2 : n + 1;
                    const arr_real wgood = window::hann(good);
                    fir_event(js, TY[t], n, w1, w2, &wgood);
                    // a window that is not symmetric about its centre (periodic variants): the design must stay linear phase
                    // and keep its unit gain; the Hamming masks are not claimed for it
                    const arr_real wper = (n % 2) ? window::hamming(good, false) : window::blackman(good, false);
                    fir_event(js, TY[t], n, w1, w2, &wper, false);
                    for (int dl : {-2, -1, 1, 2, 3}) {
                        const int wl = good + dl;
                        if (wl < 3) {
                            continue;
                        }
                        const arr_real wbad = window::hamming(wl);
                        arr_real h;
                        const FilterType ft = t == 0 ? FilterType::Low : t == 1 ? FilterType::High : t == 2 ? FilterType::Bandpass : FilterType::Bandstop;
                        const char* o = vh::outcome([&] {
                            h = (t >= 2) ? fir1(n, w1 / 1000.0, w2 / 1000.0, ft, wbad) : fir1(n, w1 / 1000.0, ft, wbad);
                        });
                        js.begin("FirWin").str("type", TY[t]).num("n", n).num("wl", wl).str("o", o).end();
                    }
                    js.begin("FirWin").str("type", TY[t]).num("n", n).num("wl", good).str("o", "ret").end();
                }
            }
        }
    }
}

// closed forms in long double
static LD bessel_i0(LD x) {
    LD term = 1, sum = 1;
    const LD q = (x / 2) * (x / 2);
    for (int k = 1; k < 2000; ++k) {
        term *= q / ((LD)k * k);
        sum += term;
        if (term < sum * 1e-22L) {
            break;
        }
    }
    return sum;
}
static LD closed(int kind, int N, int i, double par) {   // symmetric window of length N, sample i
    const LD x = (N > 1) ? (LD)i / (N - 1) : 0;
    switch (kind) {
    case 0: return 0.5L - 0.5L * cosl(2 * PI_L * x);
    case 1: return 0.54L - 0.46L * cosl(2 * PI_L * x);
    case 2: return 0.42L - 0.5L * cosl(2 * PI_L * x) + 0.08L * cosl(4 * PI_L * x);
    case 3: return 0.35875L - 0.48829L * cosl(2 * PI_L * x) + 0.14128L * cosl(4 * PI_L * x) - 0.01168L * cosl(6 * PI_L * x);
    case 4: {
        const LD t = ((LD)i - (LD)(N - 1) / 2) / ((LD)(N - 1) / 2);
        return expl(-0.5L * (par * t) * (par * t));
    }
    case 5: return sinl(PI_L * ((LD)i + 0.5L) / N);
    case 6: {   // tukey
        const LD r = par;
        if (r <= 0) { return 1; }
        if (r >= 1) { return 0.5L - 0.5L * cosl(2 * PI_L * x); }
        const LD xx = std::min(x, 1 - x);
        if (xx < r / 2) {
            return 0.5L * (1 + cosl(2 * PI_L / r * (xx - r / 2)));
        }
        return 1;
    }
    default: {
        const LD t = 2 * x - 1;
        const LD arg = 1 - t * t;
        return bessel_i0(par * sqrtl(arg < 0 ? 0 : arg)) / bessel_i0(par);
    }
    }
}
static arr_real call_win(int kind, int n, double par, bool sym) {
    switch (kind) {
    case 0: return window::hann(n, sym);
    case 1: return window::hamming(n, sym);
    case 2: return window::blackman(n, sym);
    case 3: return window::blackmanharris(n, sym);
    case 4: return window::gauss(n, par, sym);
    case 5: return window::cosine(n, sym);
    case 6: return window::tukey(n, par);
    default: return window::kaiser(n, par);
    }
}
static const char* WN[] = {"hann", "hamming", "blackman", "blackmanharris", "gauss", "cosine", "tukey", "kaiser"};

static void win_event(Json& js, int kind, int n, double par, bool sym) {
    arr_real w, wlong;
    const char* o = vh::outcome([&] {
        w = call_win(kind, n, par, sym);
        if (!sym) {
            wlong = call_win(kind, n + 1, par, true);
        }
    });
    const int N = w.size();
    const int NN = sym ? N : N + 1;   // length of the symmetric window it is sampled from
    double form = 0, asym = 0, prefix = 0;
    bool range_ok = true;
    for (int i = 0; i < N; ++i) {
        const LD ref = closed(kind, NN, i, par);
        form = std::max(form, (double)fabsl((LD)w[i] - ref));
        range_ok = range_ok && w[i] >= -4 * EPS && w[i] <= 1 + 4 * EPS;
        if (sym) {
            asym = std::max(asym, std::fabs(w[i] - w[N - 1 - i]));
        } else if (i < wlong.size()) {
            prefix = std::max(prefix, std::fabs(w[i] - wlong[i]));
        }
    }
    // 8 ulp of the window's scale (1); Kaiser goes through Bessel series with large intermediate sums: scale by I0 condition
    const double fb = (kind == 7) ? 16 * EPS * (1 + par) * 4 : (kind == 4 ? 16 * EPS * (1 + par * par) : 16 * EPS);
    js.begin("Win").str("kind", WN[kind]).num("n", n).num("par_milli", (long)(par * 1000)).boolean("sym", sym).str("o", o).num("len", N)
      .num("form_milli", milli(form, fb)).boolean("range_ok", range_ok).num("sym_milli", milli(asym, 4 * EPS))
      .num("prefix_milli", milli(prefix, 4 * EPS)).end();
}

static void run_win(Json& js, vh::Rng& rng, int a, int b, long sampled) {
    auto all_kinds = [&](int n) {
        for (int kind = 0; kind < 8; ++kind) {
            const double par = kind == 4 ? 0.5 + 5.5 * rng.unif() : kind == 6 ? -0.5 + 2 * rng.unif() : kind == 7 ? 40 * rng.unif() : 0;
            win_event(js, kind, n, par, true);
            if (kind <= 5) {
                win_event(js, kind, n, par, false);
            }
        }
    };
    for (int n = std::max(3, a); n < b; ++n) {
        all_kinds(n);
    }
    for (long t = 0; t < sampled; ++t) {
        all_kinds((int)std::pow(10.0, 2.7 + 2.3 * rng.unif()));
    }
    if (a <= 3) {   // the top of the sampled range (index products near 2^31, half lengths near 2^16): once per run
        all_kinds(100000);
        all_kinds((int)rng.range(92683, 99999));
        all_kinds(65537);
    }
    // parameter corners
    for (double r : {-0.5, 0.0, 1e-3, 0.5, 0.999, 1.0, 1.5}) {
        win_event(js, 6, (int)rng.range(3, 200), r, true);
    }
    for (double be : {0.0, 0.5, 5.0, 10.0, 20.0, 38.0, 40.0}) {
        win_event(js, 7, (int)rng.range(3, 300), be, true);
    }
    for (double al : {0.5, 2.5, 6.0}) {
        win_event(js, 4, (int)rng.range(3, 300), al, true);
        win_event(js, 4, (int)rng.range(3, 300), al, false);
    }
}

int main(int argc, char** argv) {
    const std::string mode = vh::arg(argc, argv, "--mode", "fir");
    const long seed = std::atol(vh::arg(argc, argv, "--seed", "1"));
    const long budget = std::atol(vh::arg(argc, argv, "--budget", "0"));
    const int a = std::atoi(vh::arg(argc, argv, "--a", "2"));
    const int b = std::atoi(vh::arg(argc, argv, "--b", "40"));
    FILE* f = vh::open_out(vh::arg(argc, argv, "--out", "/dev/stdout"));
    Json js(f);
    js.flush_each = false;
    vh::Rng rng(seed);
    const int slo = std::atoi(vh::arg(argc, argv, "--slo", "257"));
    if (mode == "fir") {
        run_fir(js, rng, a, b);
        for (long t = 0; t < budget; ++t) {   // sampled large orders
            const int n = (t % 2) ? (int)rng.range(slo, 2000) : (int)rng.range(slo, std::max(slo, 400));
            run_fir(js, rng, n, n + 1);
        }
    } else if (mode == "win") {
        run_win(js, rng, a, b, budget);
    } else {
        return 3;
    }
    js.flush();
    std::fclose(f);
    return 0;
}
