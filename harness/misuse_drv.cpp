// Conformance driver for Trace_Api.tla (C05): boundary-directed misuse of the public API.
// Every call case runs in a forked child (ASan+UBSan build with NDEBUG, or the rel build) under an alarm();
// the parent records the outcome: ret / throw / sanitizer / crash / timeout.
//   misuse_drv --out t --seed S [--only entry]
#include "common.h"
#include <dsplib.h>
#include "ma-filter.h"
#include "fft/factory.h"
#include <functional>
#include <sys/wait.h>
#include <csignal>
#include <climits>
#include <sstream>
#include <algorithm>

using namespace dsplib;
using vh::Json;

static unsigned g_timeout = 20;

static arr_real R(int n, int salt = 0) {
    arr_real a(std::max(0, n));
    for (int i = 0; i < n; ++i) {
        a[i] = 0.5 + ((i * 7 + salt * 3) % 11) - 5;
    }
    return a;
}
static arr_cmplx C(int n, int salt = 0) {
    arr_cmplx a(std::max(0, n));
    for (int i = 0; i < n; ++i) {
        a[i] = cmplx_t(0.5 + ((i * 5 + salt) % 7) - 3, ((i * 3 + salt) % 5) - 2.0);
    }
    return a;
}

// run one case in a child; returns outcome string
static std::string run_case(const std::function<void()>& f, std::string* detail) {
    int pfd[2];
    if (pipe(pfd) != 0) {
        return "error";
    }
    std::fflush(nullptr);
    const pid_t pid = fork();
    if (pid == 0) {
        close(pfd[0]);
        alarm(g_timeout);
        char res = 'r';
        try {
            f();
        } catch (const std::exception&) {
            res = 't';
        } catch (...) {
            res = 'u';
        }
        if (write(pfd[1], &res, 1) != 1) {
        }
        _exit(0);
    }
    close(pfd[1]);
    char res = 0;
    const ssize_t got = read(pfd[0], &res, 1);
    close(pfd[0]);
    int status = 0;
    waitpid(pid, &status, 0);
    if (got == 1 && WIFEXITED(status) && WEXITSTATUS(status) == 0) {
        return res == 'r' ? "ret" : res == 't' ? "throw" : "throw_nonstd";
    }
    if (WIFSIGNALED(status)) {
        const int sig = WTERMSIG(status);
        *detail = "signal " + std::to_string(sig);
        return sig == SIGALRM ? "timeout" : "crash";
    }
    if (WIFEXITED(status)) {
        *detail = "exit " + std::to_string(WEXITSTATUS(status));
        return (WEXITSTATUS(status) == 99 || WEXITSTATUS(status) == 98) ? "sanitizer" : "crash";
    }
    return "crash";
}

static Json* g_js = nullptr;
static std::string g_only;
static void CASE(const char* entry, std::vector<long> p, const std::function<void()>& f) {
    if (!g_only.empty() && g_only != entry) {
        return;
    }
    while (p.size() < 3) {
        p.push_back(0);
    }
    std::string detail;
    const std::string o = run_case(f, &detail);
    g_js->begin("Call").str("entry", entry).arr("p", p).str("o", o).str("detail", detail).end();
}

template<class T>
static void use(const T& v) {
    volatile size_t s = sizeof(v);
    (void)s;
}
static volatile double g_sink;
static void sink(const arr_real& a) {
    double s = 0;
    for (int i = 0; i < a.size(); ++i) {
        s += a[i];
    }
    g_sink = s;
}
static void sink(const arr_cmplx& a) {
    double s = 0;
    for (int i = 0; i < a.size(); ++i) {
        s += a[i].re + a[i].im;
    }
    g_sink = s;
}
static arr_real x2(const arr_real& x) {   // even length copy
    return x.size() % 2 == 0 ? x : arr_real(x | x);
}
static void sink(const std::vector<bool>& v) {
    g_sink = (double)std::count(v.begin(), v.end(), true);
}

int main(int argc, char** argv) {
    const long seed = std::atol(vh::arg(argc, argv, "--seed", "1"));
    g_only = vh::arg(argc, argv, "--only", "");
    g_timeout = (unsigned)std::atol(vh::arg(argc, argv, "--timeout", "20"));
    const int N = std::atoi(vh::arg(argc, argv, "--n", "7"));
    FILE* f = vh::open_out(vh::arg(argc, argv, "--out", "/dev/stdout"));
    Json js(f);
    g_js = &js;
    vh::Rng rng(seed);
    const std::vector<int> rel = {0, 1, 2, 3, N - 1, N, N + 1, 2 * N};

    // ---- element-wise operators, comparisons, pairwise functions: lengths (a, b)
    for (int a : rel) {
        for (int b : rel) {
            CASE("add", {a, b}, [=] { sink(R(a) + R(b, 1)); });
            CASE("sub", {a, b}, [=] { sink(R(a) - C(b, 1)); });
            CASE("mul", {a, b}, [=] { sink(C(a) * R(b, 1)); });
            CASE("div", {a, b}, [=] { sink(C(a) / C(b, 1)); });
            CASE("iadd", {a, b}, [=] { arr_real x = R(a); x += R(b, 1); sink(x); });
            CASE("isub", {a, b}, [=] { arr_cmplx x = C(a); x -= R(b, 1); sink(x); });
            CASE("imul", {a, b}, [=] { arr_cmplx x = C(a); x *= C(b, 1); sink(x); });
            CASE("idiv", {a, b}, [=] { arr_real x = R(a); x /= R(b, 1); sink(x); });
            CASE("gt", {a, b}, [=] { sink(R(a) > R(b, 1)); });
            CASE("lt", {a, b}, [=] { sink(R(a) < R(b, 1)); });
            CASE("eq", {a, b}, [=] { sink(R(a) == R(b, 1)); });
            CASE("ne", {a, b}, [=] { sink(R(a) != R(b, 1)); });
            CASE("cgt", {a, b}, [=] { sink(C(a) > C(b, 1)); });
            CASE("ceq", {a, b}, [=] { sink(C(a) == C(b, 1)); });
            CASE("dot", {a, b}, [=] { g_sink = dot(R(a), R(b, 1)); });
            CASE("cdot", {a, b}, [=] { g_sink = dot(C(a), C(b, 1)).re; });
            CASE("complex", {a, b}, [=] { sink(complex(R(a), R(b, 1))); });
            CASE("power_vv", {a, b}, [=] { sink(power(abs(R(a)) + 1, R(b, 1))); });
            CASE("cpower_vv", {a, b}, [=] { sink(power(C(a) + 1, R(b, 1))); });
            CASE("mask", {a, b}, [=] { std::vector<bool> m(b, true); sink(R(a)[m]); });
            CASE("concat", {a, b}, [=] { arr_real x = R(a); x |= R(b); sink(x | R(a)); });
            CASE("xcorr", {a, b}, [=] { if (a + b > 0) { sink(xcorr(R(std::max(a, 1)), R(std::max(b, 1), 1))); } });
            CASE("corr", {a, b}, [=] { g_sink = corr(R(a), R(b, 1), Correlation::Kendall) + corr(R(a), R(b, 1), Correlation::Spearman); });
            if (a > 0 && b > 0) {
                CASE("finddelay", {a, b}, [=] { g_sink = finddelay(R(a), R(b, 1)); });
                CASE("gccphat", {a, b}, [=] { g_sink = gccphat(R(a), R(b, 1)).tau; });
            }
            CASE("lms", {a, b}, [=] { LmsFilterR f(3, 0.1); auto r = f.process(R(a), R(b, 1)); sink(r.e); });
            CASE("rls", {a, b}, [=] { RlsFilterC f(2); auto r = f.process(C(a), C(b, 1)); sink(r.e); });
            CASE("nlms", {a, b}, [=] { LmsFilterR f(3, 0.5, LmsType::NLMS); auto r = f.process(R(a), R(b, 1)); sink(r.e); auto r2 = f.process(R(a), R(b, 1)); sink(r2.y); });
            CASE("nlms_c", {a, b}, [=] { LmsFilterC f(2, 0.5, LmsType::NLMS, 0.99); auto r = f.process(C(a), C(b, 1)); sink(r.e); });
            CASE("rls_r", {a, b}, [=] { RlsFilterR f(3, 0.95, 10.0); auto r = f.process(R(a), R(b, 1)); sink(r.e); auto r2 = f.process(R(a), R(b, 1)); sink(r2.y); });
            // plans applied to inputs of another length (plan length a >= 1)
            if (a >= 1) {
                CASE("FftPlan", {a, b}, [=] { FftPlan p(a); sink(p(C(b))); });
                CASE("FftPlanR", {a, b}, [=] { FftPlanR p(a); sink(p(R(b))); });
                CASE("IfftPlan", {a, b}, [=] { IfftPlan p(a); sink(p(C(b))); });
                CASE("IfftPlanR", {a, b}, [=] { IfftPlanR p(a); sink(p(C(b))); });
                CASE("CztPlan", {a, b}, [=] { CztPlan p(a, a + 1, expj(-0.3)); sink(p(C(b))); });
                CASE("plan_ptr_c", {a, b}, [=] {
                    auto p = create_fft_plan(a);
                    arr_cmplx x = C(b), y(b);
                    if (b > 0) { p->solve(x.data(), y.data(), b); }
                    else { throw std::runtime_error("nothing to solve"); }
                    sink(y);
                });
                CASE("irfft", {b, a}, [=] { sink(irfft(C(b), a)); });
                CASE("fft_n", {a, b}, [=] { if (b >= 1) { sink(fft(C(a), b)); } });
                CASE("rfft_n", {a, b}, [=] { if (b >= 1) { sink(rfft(R(a), b)); } });
                CASE("hilbert_n", {a, b}, [=] { if (b >= 1) { sink(hilbert(R(a), b)); } });
                CASE("zeropad", {a, b}, [=] { sink(zeropad(R(a), b)); });
                CASE("fir_process", {a, b}, [=] { if (a >= 2) { FirFilterR fl(R(a)); sink(fl.process(R(b))); } });
                CASE("fir_conv", {a, b}, [=] { sink(FirFilterR::conv(R(b), R(a))); });
                CASE("fftfilt", {a, b}, [=] { FftFilter fl(R(a)); sink(fl.process(R(b))); sink(fl.process(C(b))); });
                CASE("decim_frame", {std::max(a, 2), b}, [=] { FIRDecimator d(std::max(a, 2)); sink(d.process(R(b))); });
                CASE("rate_frame", {std::max(a, 2), b}, [=] { FIRRateConverter d(std::max(a, 2) + 1, std::max(a, 2)); sink(d.process(R(b))); });
                CASE("interp", {a, b}, [=] { FIRInterpolator d(std::max(a, 2)); sink(d.process(R(b))); });
                CASE("resample", {a, b}, [=] { if (b >= 1) { sink(resample(R(b), a, std::max(1, N - a + 1))); } });
                CASE("medfilt", {a, b}, [=] { arr_real x = R(b); sink(medfilt(x, a)); });
                CASE("mafilter", {a, b}, [=] { MAFilterR m(a); sink(m.process(R(b))); });
                CASE("delay", {a, b}, [=] { DelayReal d(a); sink(d.process(R(b))); sink(d.process(R(1))); });
                CASE("delayseq", {a, b}, [=] { sink(delayseq(R(a), b)); sink(delayseq(R(a), -b)); });
                CASE("downsample", {a, b}, [=] { if (b >= 1) { sink(downsample(R(a), b, b - 1)); sink(upsample(R(a), b, b - 1)); } });
                CASE("repelem", {a, b}, [=] { sink(repelem(R(a), b)); sink(repelem(C(a), b)); });
                CASE("fir1_win", {a + 1, std::max(b, 3)}, [=] { sink(fir1(a, 0.4, FilterType::Low, window::hamming(std::max(b, 3)))); });
                CASE("welch_overlap", {std::max(a, 3), b}, [=] { sink(welch(R(64), window::hann(std::max(a, 3)), b, 16).pxx); });
                CASE("welch_short", {a, b}, [=] { if (b >= 3) { sink(welch(R(a), window::hamming(b), b / 2, 16).pxx); } });
                CASE("mscohere_short", {a, b}, [=] { if (b >= 3) { sink(mscohere(R(a), R(a, 1), window::hamming(b), b / 2, 16)); } });
                CASE("stft_short", {a, b}, [=] { if (b >= 3) { auto y = stft(R(a), window::hann(std::min(b, 16), false), std::min(b, 16) / 2, 16); g_sink = (double)y.size(); } });
                CASE("peakloc", {a, b}, [=] { if (a >= 1 && b < a) { g_sink = peakloc(R(a), b, true) + peakloc(R(a), b, false) + peakloc(C(a), b, true); } });
                CASE("findpeaks", {a, b}, [=] { auto pk = findpeaks(R(a), b); g_sink = (double)pk.pks.size(); });
                CASE("agc", {a, b}, [=] { Agc g(1.0, 30, a); sink(g.process(R(b)).out); sink(g.process(C(b)).out); });
                CASE("dyn", {a, b}, [=] { Compressor c1; Limiter l1; NoiseGate g1; sink(c1.process(R(b)).out); sink(l1.process(R(b)).out); sink(g1.process(R(b)).out); });
                CASE("tuner", {a, b}, [=] { Tuner t1(std::max(a, 2), 0.5); sink(t1.process(C(b))); });
                CASE("hilbertflt", {a, b}, [=] { HilbertFilter h(a + 2, 0.05); sink(h.process(R(b))); });
                CASE("awgn", {a, b}, [=] { sink(awgn(R(b), 10.0)); sink(awgn(C(b), 10.0)); });
                CASE("snr_short", {a, b}, [=] { if (b >= 1) { g_sink = sinad(R(b)) + snr(R(b)) + thd(R(b)).value; } });
            }
        }
    }
    // ---- index lists: entries from -n..n+2 and empty lists; p = <<n, has_out_of_range, list length>>
    for (int n : {1, 2, 3, N}) {
        std::vector<std::vector<int>> lists = {{}, {0}, {n - 1}, {n}, {n + 2}, {-1}, {-n}, {0, n - 1, 0}, {0, -1}, {n - 1, n}, {-n - 2, 0}};
        for (auto& ix : lists) {
            bool bad = false;
            for (int v : ix) {
                bad = bad || v < 0 || v >= n;
            }
            CASE("idx", {n, bad, (long)ix.size()}, [=] { sink(R(n)[ix]); });
            CASE("cidx", {n, bad, (long)ix.size()}, [=] { sink(C(n)[ix]); });
            CASE("idx_arr", {n, bad, (long)ix.size()}, [=] { sink(R(n)[arr_int(ix)]); });
        }
    }
    // ---- slice right-hand sides of every length; p = <<count, rhs length>>
    for (int n : {1, 3, N}) {
        for (int cnt : {0, 1, n}) {
            for (int rl : rel) {
                if (cnt > n || rl > 16) {
                    continue;
                }
                CASE("slice_arr", {cnt, rl}, [=] { arr_real x = R(n); x.slice(0, cnt) = R(rl); sink(x); });
                CASE("slice_list", {cnt, rl}, [=] {
                    arr_real x = R(n);
                    switch (rl) {
                    case 0: x.slice(0, cnt) = std::initializer_list<real_t>{}; break;
                    case 1: x.slice(0, cnt) = {1.0}; break;
                    case 2: x.slice(0, cnt) = {1.0, 2.0}; break;
                    case 3: x.slice(0, cnt) = {1.0, 2.0, 3.0}; break;
                    case 6: x.slice(0, cnt) = {1.0, 2.0, 3.0, 4.0, 5.0, 6.0}; break;
                    case 7: x.slice(0, cnt) = {1.0, 2.0, 3.0, 4.0, 5.0, 6.0, 7.0}; break;
                    case 8: x.slice(0, cnt) = {1.0, 2.0, 3.0, 4.0, 5.0, 6.0, 7.0, 8.0}; break;
                    default: x.slice(0, cnt) = {1.0, 2.0, 3.0, 4.0, 5.0, 6.0, 7.0, 8.0, 9.0, 10.0, 11.0, 12.0, 13.0, 14.0}; break;
                    }
                    sink(x);
                });
                CASE("slice_neg", {cnt, rl}, [=] { arr_cmplx x = C(n); if (cnt > 0) { x.slice(cnt - 1, 0, -1) = C(rl); } sink(x); });
            }
        }
    }
    // ---- slice requests at the boundaries, read and written; p = <<n, i1, i2>> with the step carried in the entry name
    for (int n : {1, 2, N}) {
        const int ix[] = {-n - 1, -n, -1, 0, 1, n - 1, n, n + 1};
        for (int i1 : ix) {
            for (int i2 : ix) {
                CASE("slice_m1", {n, i1, i2}, [=] { arr_real x = R(n); sink(arr_real(x.slice(i1, i2, -1))); x.slice(i1, i2, -1) = 7.0; sink(x); });
                CASE("slice_m2", {n, i1, i2}, [=] { arr_cmplx x = C(n); sink(arr_cmplx(x.slice(i1, i2, -2))); x.slice(i1, i2, -2) = cmplx_t(7, 1); sink(x); });
                CASE("slice_p1", {n, i1, i2}, [=] { const arr_real x = R(n); sink(arr_real(x.slice(i1, i2, 1))); });
                CASE("slice_p2", {n, i1, i2}, [=] { arr_real x = R(n); x.slice(i1, i2, 2) = x.slice(i1, i2, 2); sink(x); });
            }
        }
    }
    for (int n : {0, 1, 2, 3}) {   // printing, incl. the empty array
        CASE("print", {n}, [=] { std::ostringstream os; os << R(n) << " " << C(n); g_sink = (double)os.str().size(); });
    }
    // ---- transforms on every small length and a few large ones; primes at the word boundaries
    for (int n : {1, 2, 3, 4, 5, 6, 7, 8, 9, 12, 16, 41, 43, 64, 100}) {
        CASE("fft", {n}, [=] { sink(fft(C(n))); });
        CASE("ifft", {n}, [=] { sink(ifft(C(n))); });
        CASE("rfft", {n}, [=] { sink(rfft(R(n))); });
        CASE("hilbert", {n}, [=] { sink(hilbert(R(n))); });
        CASE("czt", {n}, [=] { sink(czt(C(n), n + 2, expj(-0.1), cmplx_t(0.9, 0))); });
        CASE("windows", {n}, [=] {
            sink(window::hann(n)); sink(window::hamming(n, false)); sink(window::blackman(n)); sink(window::kaiser(n, 5));
            sink(window::gauss(n)); sink(window::tukey(n, 0.3)); sink(window::cosine(n, false)); sink(window::blackmanharris(n));
        });
        CASE("fir1", {n}, [=] { sink(fir1(n, 0.3)); sink(fir1(n, 0.3, FilterType::High)); sink(fir1(n, 0.2, 0.6)); sink(fir1(n, 0.2, 0.6, FilterType::Bandstop)); });
        CASE("firtype", {n}, [=] { g_sink = (double)firtype(R(n)); });
        CASE("median", {n}, [=] { g_sink = median(R(n)) + max(R(n)) + min(R(n)) + argmax(R(n)) + peak2peak(R(n)) + mean(R(n)) + stddev(R(n)) + rms(R(n)) + norm(R(n)); });
        CASE("sort", {n}, [=] { auto r = sort(R(n), Direction::Descend); sink(r.first); });
        CASE("medianfilter", {n}, [=] { MedianFilter m(std::max(3, n)); sink(m.process(R(n))); });
        CASE("detector", {n}, [=] { PreambleDetector d(C(n) + 1, 0.7); g_sink = d.frame_len(); auto r = d.process(C(d.frame_len())); d.reset(); });
        CASE("design_multirate", {n}, [=] { sink(design_multirate_fir(n, N)); sink(design_multirate_fir(N, n)); sink(design_multirate_fir(n, n)); });
        CASE("resampler_obj", {n}, [=] { FIRResampler r1(n, N), r2(N, n), r3(n, n); sink(r1.process(R(r1.decim_rate() * 3))); sink(r3.process(R(5))); g_sink = r2.delay() + r2.next_size(10) + r2.prev_size(10); });
    }
    // ---- non-finite sample values (NaN, +Inf, -Inf) are values of the declared element type: p = <<special, position class, n>>
    for (int special : {1, 2, 3}) {
        const double sp = special == 1 ? std::nan("") : (special == 2 ? HUGE_VAL : -HUGE_VAL);
        for (int n : {N, 24, 40}) {
            for (int pc : {0, 1, 2}) {   // first, middle, last sample
                const int at = pc == 0 ? 0 : (pc == 1 ? n / 2 : n - 1);
                auto X = [=](int salt = 0) { arr_real x = R(n, salt); x[at] = sp; return x; };
                auto Z = [=](int salt = 0) { arr_cmplx z = C(n, salt); z[at].im = sp; return z; };
                const std::vector<long> P = {special, pc, n};
                CASE("nf_medianfilter", P, [=] { MedianFilter m(5); sink(m.process(X())); sink(m.process(R(n))); sink(m.process(R(3))); MedianFilter m2(3, sp); sink(m2.process(R(n))); });
                CASE("nf_medfilt", P, [=] { arr_real x = X(); sink(medfilt(x, 3)); sink(medfilt(x, 5)); });
                CASE("nf_sort", P, [=] { sink(sort(X()).first); sink(sort(X(), Direction::Descend).first); g_sink = median(X()); });
                CASE("nf_minmax", P, [=] { g_sink = max(X()) + min(X()) + argmax(X()) + argmin(X()) + peak2peak(X()) + argmax(Z()) + argmin(Z()); });
                CASE("nf_reduce", P, [=] { g_sink = sum(X()) + mean(X()) + stddev(X()) + rms(X()) + norm(X()) + sum(Z()).re + rms(Z()); sink(cumsum(X())); });
                CASE("nf_findpeaks", P, [=] { auto pk = findpeaks(X(), 3); g_sink = (double)pk.pks.size(); g_sink = peakloc(X(), at, true) + peakloc(Z(), at, true); });
                CASE("nf_fir", P, [=] { FirFilterR f1(R(4)); sink(f1.process(X())); FftFilter f2(R(6)); sink(f2.process(X())); sink(f2.process(Z())); });
                CASE("nf_fft", P, [=] { sink(fft(Z())); sink(ifft(Z())); sink(rfft(X())); sink(fft(Z(), 47)); sink(czt(Z(), n + 2, expj(-0.1))); sink(hilbert(X())); });
                CASE("nf_xcorr", P, [=] { sink(xcorr(X(), R(n, 1))); g_sink = finddelay(X(), R(n, 1)) + gccphat(X(), R(n, 1)).tau; });
                CASE("nf_corr", P, [=] { g_sink = corr(X(), R(n, 1)) + corr(X(), R(n, 1), Correlation::Kendall) + corr(X(), R(n, 1), Correlation::Spearman); });
                CASE("nf_snr", P, [=] { g_sink = snr(X()) + sinad(X()) + thd(X()).value; });
                CASE("nf_spectrum", P, [=] { sink(welch(X(), window::hann(8), 4, 8).pxx); auto y = stft(X(), window::hann(8, false), 4, 8); g_sink = (double)y.size(); });
                CASE("nf_awgn", P, [=] { sink(awgn(X(), 10.0)); sink(awgn(Z(), 10.0)); });
                CASE("nf_dyn", P, [=] { Compressor c1; Limiter l1; NoiseGate g1; Agc a1(1.0, 30, 4); sink(c1.process(X()).out); sink(l1.process(X()).out); sink(g1.process(X()).out); sink(a1.process(X()).out); sink(c1.process(R(n)).out); sink(a1.process(R(n)).out); });
                CASE("nf_resample", P, [=] { sink(resample(X(), 3, 2)); FIRDecimator d(2); sink(d.process(x2(X()))); });
                CASE("nf_adapt", P, [=] { LmsFilterR f(3, 0.1); sink(f.process(X(), R(n, 1)).e); sink(f.process(R(n), R(n, 1)).e); RlsFilterR g(2); sink(g.process(X(), R(n, 1)).e); });
                CASE("nf_tuner", P, [=] { Tuner t1(8, 1.0); sink(t1.process(Z())); HilbertFilter h(7, 0.05); sink(h.process(X())); DelayReal d(3); sink(d.process(X())); MAFilterR m(4); sink(m.process(X())); });
                CASE("nf_detector", P, [=] { PreambleDetector d(C(9) + 1, 0.7); arr_cmplx z = C(d.frame_len() * 2); z[at].re = sp; auto r = d.process(z); });
                CASE("nf_math", P, [=] { sink(abs(Z())); sink(angle(Z())); sink(exp(X())); sink(log(abs(X()) + 1)); sink(power(X(), 2)); sink(round(X())); sink(pow2db(abs(X()))); sink(expj(X())); sink(tanh(X())); });
                CASE("nf_compare", P, [=] { sink(X() > R(n)); sink(X() == X()); sink(X()[X() > 0.0]); });
                CASE("nf_print", P, [=] { std::ostringstream os; os << X() << Z(); g_sink = (double)os.str().size(); });
            }
        }
    }
    // ---- remaining entry points at their boundaries
    for (int a : rel) {
        for (int b : rel) {
            CASE("mse", {a, b}, [=] { g_sink = mse(R(a), R(b, 1)) + mse(C(a), C(b, 1)); });
            CASE("concatenate", {a, b}, [=] { sink(concatenate(R(a), R(b), R(0), R(a), R(b))); sink(concatenate(C(b), C(0), C(a))); sink(flip(R(a))); sink(flip(C(b))); });
            if (a >= 1) {
                if (b < a) CASE("iscola", {a, b}, [=] { g_sink = iscola(window::hann(a, false), b) + iscola(window::hamming(a), b, OverlapMethod::Wola); });
                CASE("downsample_phase", {a, b}, [=] { if (b >= 1) { sink(downsample(R(a), b, b)); sink(downsample(R(a), b, a + 3)); sink(upsample(R(a), b, b)); sink(upsample(R(a), b, b + 5)); } });
                CASE("polyphase", {a, b}, [=] { if (b >= 1) { auto pp = IResampler::polyphase(R(a), b, 1.0, true); g_sink = (double)pp.size(); } });
                CASE("randgen", {a, b}, [=] { sink(randn(b)); sink(dsplib::rand(b)); auto ri = randi({-a, a}, b); g_sink = ri.size(); auto r2 = randi(a, b); g_sink += r2.size(); });
                CASE("to_complex", {a, b}, [=] { std::vector<double> v(b, 1.5); sink(to_complex(v)); sink(to_real(v)); g_sink = (double)from_complex<float>(C(a)).size() + from_real<int>(R(a)).size(); });
                CASE("arange_len", {a, b}, [=] { sink(arange(a, b, 1)); sink(arange(b, a, -1)); sink(arange((double)a, (double)b, 0.5)); sink(arange(b)); });
            }
        }
    }
    // (a zero step of arange and an overlap >= the window length for iscola are numeric parameters outside their documented
    // ranges - division by zero on the unchanged tree - and are not part of C05's precondition)
    CASE("arange_wrongway", {0}, [=] { sink(arange(0, 5, -1)); sink(arange(5.0, 0.0, 0.25)); });
    CASE("from_file_missing", {0}, [=] { sink(from_file("/nonexistent/dir/no-such-file.bin")); });
    // measurement functions on a precomputed (quantised, fixed-point style) spectrum: lobes with flat tops, plateaus, ties
    for (int shape = 0; shape < 6; ++shape) {
        for (int ty = 0; ty < 2; ++ty) {
            CASE("meas_quantised", {shape, ty}, [=] {
                const int n = 64;
                arr_real sp(n);
                for (int i = 0; i < n; ++i) {
                    const double l1 = 40.0 / (1.0 + (i - 9.5) * (i - 9.5));          // flat top between bins 9 and 10
                    const double l2 = 12.0 / (1.0 + (i - 19.5) * (i - 19.5));
                    const double l3 = 6.0 / (1.0 + (i - 29.0) * (i - 29.0));
                    double v = l1 + l2 + l3 + 0.6;
                    switch (shape) {
                    case 0: v = std::floor(v); break;                 // integer power units
                    case 1: v = std::floor(4 * v) / 4; break;
                    case 2: v = std::round(10 * std::log10(v + 1)); break;   // dB rounded
                    case 3: v = (i >= 8 && i <= 12) ? 7.0 : 1.0; break;      // a plateau
                    case 4: v = (i % 2) ? 3.0 : 3.0; break;                  // everything equal
                    default: v = (i == 9 || i == 10 || i == 40 || i == 41) ? 5.0 : 0.0;   // twin bins on a zero floor
                    }
                    sp[i] = v;
                }
                const auto st = ty ? SinadType::Power : SinadType::Psd;
                g_sink = sinad(sp, st);
                g_sink += thd(sp, 4, false, st).value;
                g_sink += snr(sp, 4, false, st);
                g_sink += thd(sp, 4, true, st).value;
            });
        }
    }
    CASE("medianfilter_small", {2}, [=] { MedianFilter m(2); });
    CASE("downsample0", {0}, [=] { sink(downsample(R(5), 0)); });
    CASE("upsample0", {0}, [=] { sink(upsample(R(5), 0)); });
    CASE("linspace0", {0}, [=] { sink(linspace(0, 1, 0)); });
    CASE("welch_nfft", {12}, [=] { sink(welch(R(64), window::hann(8), 4, 12).pxx); });
    CASE("istft_bins", {3}, [=] { std::vector<arr_cmplx> y = {C(3), C(3)}; sink(istft(y, window::hann(16, false), 8, 16)); });
    {
        PreambleDetector probe(C(9) + 1, 0.7);
        const int F = probe.frame_len();
        for (int len : {0, 1, F - 1, F, F + 1, 2 * F}) {
            CASE("detector_frame", {9, (len % F == 0) ? 1 : 0, len}, [=] { PreambleDetector d(C(9) + 1, 0.7); auto r = d.process(C(len)); });
        }
    }
    for (unsigned long v : {0ul, 1ul, 2ul, 3ul, 4ul, 65521ul, 65536ul, 4293001441ul, 4294967291ul, 4294967295ul, 2147483647ul, 2147483648ul, 4294836225ul}) {
        const long hi = (long)(v >> 16), lo = (long)(v & 0xFFFF);
        CASE("isprime", {hi, lo}, [=] { g_sink = isprime((uint32_t)v); });
        CASE("factor", {hi, lo}, [=] { auto r = factor((uint32_t)v); g_sink = r.size(); });
        if (v <= 4294967291ul) {
            CASE("nextprime", {hi, lo}, [=] { g_sink = nextprime((uint32_t)v); });
        }
    }
    for (unsigned v : {0u, 1u, 2u, 100u, 65537u}) {
        CASE("primes", {(long)v}, [=] { auto r = primes(v); g_sink = r.size(); });
    }
    for (int m : {1, 2, 3, 1023, 1024, 1025, 1 << 30, (1 << 30) + 1, INT_MAX}) {
        CASE("pow2", {m >> 16, m & 0xFFFF}, [=] { g_sink = nextpow2(m) + ispow2(m); });
    }
    js.flush();
    std::fclose(f);
    return 0;
}
