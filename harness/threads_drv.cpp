// Conformance driver for Trace_Threads.tla (C09): concurrent use of plans, free functions, caches and generators.
//   threads_drv --out t --mode sched  --seed S --budget N     forced interleavings at the DSPLIB_VERIF yield points
//   threads_drv --out t --mode stress --seed S --budget N --threads T   free-running threads from a barrier (also under TSan)
#include "common.h"
#include <sys/wait.h>
#include <unistd.h>
#include <complex>
#include <dsplib.h>
#include <dsplib/verif_hooks.h>
#include <atomic>
#include <chrono>
#include <condition_variable>
#include <map>
#include <mutex>
#include <thread>

using namespace dsplib;
using vh::Json;
static const double EPS = 2.220446049250313e-16;

// ---------------------------------------------------------------- cooperative scheduler
struct Sched
{
    std::mutex m;
    std::condition_variable cv;
    static const int NT = 4;
    long budget[NT] = {0, 0, 0, 0};
    bool blocked[NT] = {false, false, false, false};
    bool done[NT] = {false, false, false, false};
    bool diverged = false;
    int mask = 0;   // which yield points pause
};
static Sched* g_sched = nullptr;
static thread_local int t_slot = -1;

static void on_yield(int point, const void*) {
    Sched* s = g_sched;
    if (!s || t_slot < 0 || !(s->mask & (1 << (point == 1 ? 0 : point == 10 ? 1 : 2)))) {
        return;
    }
    std::unique_lock<std::mutex> lk(s->m);
    if (s->budget[t_slot] == 0) {
        s->blocked[t_slot] = true;
        s->cv.notify_all();
        s->cv.wait(lk, [&] { return s->budget[t_slot] > 0 || s->diverged; });
        s->blocked[t_slot] = false;
    }
    if (s->budget[t_slot] > 0) {
        --s->budget[t_slot];
    }
}
// let thread slot t pass `c` yield points (or finish); returns false on timeout (schedule diverged)
static bool advance(Sched& s, int t, long c) {
    std::unique_lock<std::mutex> lk(s.m);
    s.budget[t] += c;
    s.cv.notify_all();
    const bool ok = s.cv.wait_for(lk, std::chrono::seconds(60), [&] { return s.done[t] || (s.blocked[t] && s.budget[t] == 0); });
    if (!ok) {
        s.diverged = true;
        for (int i = 0; i < Sched::NT; ++i) {
            s.budget[i] = 1L << 40;
        }
        s.cv.notify_all();
    }
    return ok;
}
template<class F>
static std::thread spawn(Sched& s, int slot, F body) {
    return std::thread([&s, slot, body] {
        t_slot = slot;
        on_yield(-1, nullptr);   // never matches a mask: no-op
        {   // initial gate: wait for the first advance
            std::unique_lock<std::mutex> lk(s.m);
            s.blocked[slot] = true;
            s.cv.notify_all();
            s.cv.wait(lk, [&] { return s.budget[slot] > 0 || s.diverged; });
            s.blocked[slot] = false;
            if (s.budget[slot] > 0) {
                --s.budget[slot];
            }
        }
        body();
        std::unique_lock<std::mutex> lk(s.m);
        s.done[slot] = true;
        s.cv.notify_all();
    });
}
static void wait_gate(Sched& s, int t) {
    std::unique_lock<std::mutex> lk(s.m);
    s.cv.wait(lk, [&] { return s.blocked[t]; });
}

static arr_cmplx cin(int n, int salt) {
    vh::Rng r(100 + n * 7 + salt);
    arr_cmplx x(n);
    for (int i = 0; i < n; ++i) {
        x[i] = cmplx_t(r.gauss(), r.gauss());
    }
    return x;
}
static arr_real rin(int n, int salt) {
    vh::Rng r(900 + n * 7 + salt);
    arr_real x(n);
    for (int i = 0; i < n; ++i) {
        x[i] = r.gauss();
    }
    return x;
}
static bool close_c(const arr_cmplx& a, const arr_cmplx& b, int n) {
    if (a.size() != b.size()) {
        return false;
    }
    long double nr = 0;
    for (int i = 0; i < b.size(); ++i) {
        nr += abs2(b[i]);
    }
    const double tol = 4.0 * std::max(2, n) * EPS * std::sqrt((double)nr) + 1e-300;
    for (int i = 0; i < a.size(); ++i) {
        if (!(abs(a[i] - b[i]) <= tol)) {
            return false;
        }
    }
    return true;
}
static bool close_r(const arr_real& a, const arr_real& b, int n) {
    return close_c(complex(a), complex(b), n);
}

// ---------------------------------------------------------------- forced schedules
// two threads, one solve each on a shared composite-length plan; spec steps Mid(t) = run until the k_t-th scratch
// yield (scratch written), End(t) = run to completion.  Events are logged in executed order for Trace_Threads.
static void sched_factfft(Json& js, vh::Rng& rng) {
    static const int LENS[] = {6, 12, 15, 18, 24, 30, 36, 45, 60, 90, 120, 210};
    const int n = LENS[rng.range(0, 11)];
    FftPlan plan(n);   // shared
    const arr_cmplx x1 = cin(n, 1), x2 = cin(n, 2);
    const arr_cmplx r1 = plan(x1), r2 = plan(x2);   // sequential reference
    // count the yields of one solve
    Sched cnt;
    cnt.mask = 1;
    g_sched = &cnt;
    long K = 0;
    {
        Sched& s = cnt;
        std::thread th = spawn(s, 0, [&] { (void)plan(x1); });
        wait_gate(s, 0);
        advance(s, 0, 1);   // pass the gate
        while (true) {
            std::unique_lock<std::mutex> lk(s.m);
            if (s.done[0]) {
                break;
            }
            lk.unlock();
            advance(s, 0, 1);
            ++K;
        }
        th.join();
    }
    // the six orders of M1 E1 M2 E2 with M before E
    static const int ORD[6][4] = {{0, 1, 2, 3}, {0, 2, 1, 3}, {0, 2, 3, 1}, {2, 0, 1, 3}, {2, 0, 3, 1}, {2, 3, 0, 1}};   // 0=M1 1=E1 2=M2 3=E2
    for (int o = 0; o < 6; ++o) {
        const long k1 = K > 0 ? rng.range(1, K) : 1, k2 = K > 0 ? rng.range(1, K) : 1;
        Sched s;
        s.mask = 1;
        g_sched = &s;
        arr_cmplx y1, y2;
        std::thread t1 = spawn(s, 0, [&] { y1 = plan(x1); });
        std::thread t2 = spawn(s, 1, [&] { y2 = plan(x2); });
        wait_gate(s, 0);
        wait_gate(s, 1);
        js.begin("Reset").str("kind", "factfft").num("n", n).num("yields", K).num("k1", k1).num("k2", k2).end();
        js.begin("Step").num("t", 1).str("a", "Begin").str("plan", "a").end();
        js.begin("Step").num("t", 2).str("a", "Begin").str("plan", "a").end();
        for (int i = 0; i < 4; ++i) {
            const int st = ORD[o][i];
            const int t = st / 2;
            if (st % 2 == 0) {
                advance(s, t, 1 + (t == 0 ? k1 : k2));   // gate + k yields: now blocked right after writing the scratch
                js.begin("Step").num("t", t + 1).str("a", "Mid").str("plan", "a").end();
            } else {
                advance(s, t, 1L << 40);   // run to completion
                js.begin("Step").num("t", t + 1).str("a", "End").str("plan", "a").end();
            }
        }
        t1.join();
        t2.join();
        g_sched = nullptr;
        js.begin("Result").num("t", 1).boolean("ok", close_c(y1, r1, n)).boolean("diverged", s.diverged).end();
        js.begin("Result").num("t", 2).boolean("ok", close_c(y2, r2, n)).boolean("diverged", s.diverged).end();
    }
}

// generator calls of two threads interleaved call by call: seeding / drawing in one thread never changes the other's values
static void sched_rng(Json& js, vh::Rng& rng) {
    const int s1 = (int)rng.range(0, 50), s2 = (int)rng.range(51, 100);
    auto script = [](int seed, std::vector<double>& out) {
        dsplib::rng(seed);
        const arr_real a = randn(3);
        const arr_real b = dsplib::rand(2);
        const arr_int c = randi({-5, 5}, 2);
        out.assign(a.begin(), a.end());
        out.insert(out.end(), b.begin(), b.end());
        out.push_back(c[0]);
        out.push_back(c[1]);
    };
    // an unseeded thread draws the same default sequence whatever other threads seed meanwhile
    {
        std::vector<double> d0, d1;
        auto unseeded = [](std::vector<double>& out) {
            const arr_real a = randn(3);
            out.assign(a.begin(), a.end());
        };
        std::thread r([&] { unseeded(d0); });   // reference: an unseeded thread before the others seed
        r.join();
        Sched s;
        s.mask = 2;
        g_sched = &s;
        std::vector<double> junk;
        std::thread t1 = spawn(s, 0, [&] { script(s1, junk); });
        std::thread t2 = spawn(s, 1, [&] { unseeded(d1); });
        wait_gate(s, 0);
        wait_gate(s, 1);
        advance(s, 0, 1);
        advance(s, 0, 2);        // thread 1 has seeded and drawn once
        js.begin("Reset").str("kind", "rng").num("n", 0).num("yields", 1).num("k1", s1).num("k2", 0).end();
        js.begin("Step").num("t", 1).str("a", "Gen").str("plan", "-").end();
        advance(s, 1, 1L << 40);  // now the unseeded thread draws for the first time
        js.begin("Step").num("t", 2).str("a", "Gen").str("plan", "-").end();
        advance(s, 0, 1L << 40);
        t1.join();
        t2.join();
        g_sched = nullptr;
        js.begin("Result").num("t", 2).boolean("ok", d1 == d0).boolean("diverged", s.diverged).end();
    }
    std::vector<double> ref1, ref2;
    {
        std::thread a([&] { script(s1, ref1); });
        a.join();
        std::thread b([&] { script(s2, ref2); });
        b.join();
    }
    // every interleaving of 4 + 4 generator calls would be 70; sample them
    for (int rep = 0; rep < 8; ++rep) {
        std::vector<int> order;
        int c1 = 4, c2 = 4;
        while (c1 + c2 > 0) {
            const bool pick1 = c2 == 0 || (c1 > 0 && rng.coin());
            order.push_back(pick1 ? 1 : 2);
            (pick1 ? c1 : c2) -= 1;
        }
        Sched s;
        s.mask = 2;
        g_sched = &s;
        std::vector<double> o1, o2;
        std::thread t1 = spawn(s, 0, [&] { script(s1, o1); });
        std::thread t2 = spawn(s, 1, [&] { script(s2, o2); });
        wait_gate(s, 0);
        wait_gate(s, 1);
        advance(s, 0, 1);   // pass the gates: each now blocks at its first generator call
        advance(s, 1, 1);
        js.begin("Reset").str("kind", "rng").num("n", 0).num("yields", 4).num("k1", s1).num("k2", s2).end();
        for (int t : order) {
            advance(s, t - 1, 1);   // one generator call
            js.begin("Step").num("t", t).str("a", "Gen").str("plan", "-").end();
        }
        advance(s, 0, 1L << 40);
        advance(s, 1, 1L << 40);
        t1.join();
        t2.join();
        g_sched = nullptr;
        js.begin("Result").num("t", 1).boolean("ok", o1 == ref1).boolean("diverged", s.diverged).end();
        js.begin("Result").num("t", 2).boolean("ok", o2 == ref2).boolean("diverged", s.diverged).end();
    }
}

// two threads calling the free fft() on composite / prime lengths, interleaved at cache lookups and scratch yields
static void sched_cache(Json& js, vh::Rng& rng) {
    static const int LENS[] = {6, 12, 15, 21, 43, 86, 30, 47};
    const int n1 = LENS[rng.range(0, 7)], n2 = LENS[rng.range(0, 7)];
    const arr_cmplx x1 = cin(n1, 3), x2 = cin(n2, 4);
    arr_cmplx r1, r2;
    {
        std::thread a([&] { r1 = fft(x1); });
        a.join();
        std::thread b([&] { r2 = fft(x2); });
        b.join();
    }
    for (int rep = 0; rep < 4; ++rep) {
        Sched s;
        s.mask = 1 | 4;
        g_sched = &s;
        arr_cmplx y1, y2;
        std::thread t1 = spawn(s, 0, [&] { y1 = fft(x1); (void)fft(x2); y1 = fft(x1); });
        std::thread t2 = spawn(s, 1, [&] { y2 = fft(x2); (void)fft(x1); y2 = fft(x2); });
        wait_gate(s, 0);
        wait_gate(s, 1);
        js.begin("Reset").str("kind", "cache").num("n", n1).num("yields", 0).num("k1", n1).num("k2", n2).end();
        for (int i = 0; i < 400; ++i) {
            bool d0, d1;
            {
                std::unique_lock<std::mutex> lk(s.m);
                d0 = s.done[0], d1 = s.done[1];
            }
            if (d0 && d1) {
                break;
            }
            const int t = d0 ? 1 : d1 ? 0 : (int)rng.range(0, 1);
            advance(s, t, rng.range(1, 3));
            js.begin("Step").num("t", t + 1).str("a", "Run").str("plan", "-").end();
        }
        advance(s, 0, 1L << 40);
        advance(s, 1, 1L << 40);
        t1.join();
        t2.join();
        g_sched = nullptr;
        js.begin("Result").num("t", 1).boolean("ok", close_c(y1, r1, n1)).boolean("diverged", s.diverged).end();
        js.begin("Result").num("t", 2).boolean("ok", close_c(y2, r2, n2)).boolean("diverged", s.diverged).end();
    }
}

// ---------------------------------------------------------------- free-running stress
struct Barrier
{
    std::mutex m;
    std::condition_variable cv;
    int waiting = 0, total;
    explicit Barrier(int n)
      : total(n) {
    }
    void wait() {
        std::unique_lock<std::mutex> lk(m);
        if (++waiting == total) {
            cv.notify_all();
        } else {
            cv.wait(lk, [&] { return waiting >= total; });
        }
    }
};

static std::mutex g_cache_mu;
static std::map<const void*, std::thread::id> g_cache_owner;
static std::atomic<long> g_cache_shared{0};
static void on_cache(int, int, bool, const int*, int, int, const void* cid) {
    std::lock_guard<std::mutex> lk(g_cache_mu);
    auto it = g_cache_owner.find(cid);
    if (it == g_cache_owner.end()) {
        g_cache_owner[cid] = std::this_thread::get_id();
    } else if (it->second != std::this_thread::get_id()) {
        ++g_cache_shared;
    }
}

template<class Body>
static long run_threads(int T, Body body) {
    Barrier bar(T);
    std::atomic<long> bad{0};
    std::vector<std::thread> th;
    for (int t = 0; t < T; ++t) {
        th.emplace_back([&, t] {
            bar.wait();
            bad += body(t);
        });
    }
    for (auto& x : th) {
        x.join();
    }
    return bad.load();
}

static void stress_shared(Json& js, vh::Rng& rng, int T, int calls) {
    // shared plan objects of every kind
    static const int CL[] = {1, 2, 4, 8, 16, 64, 3, 5, 41, 43, 127, 6, 12, 60, 210, 1000, 45, 77};
    for (int n : CL) {
        {
            FftPlan plan(n);
            std::vector<arr_cmplx> xs, refs;
            for (int t = 0; t < T; ++t) {
                xs.push_back(cin(n, t));
                refs.push_back(plan(xs.back()));
            }
            const long bad = run_threads(T, [&](int t) {
                long b = 0;
                for (int c = 0; c < calls; ++c) {
                    b += close_c(plan(xs[t]), refs[t], n) ? 0 : 1;
                }
                return b;
            });
            js.begin("Stress").str("kind", "shared FftPlan").num("n", n).num("threads", T).num("calls", calls).num("mismatches", bad).end();
        }
        {
            FftPlanR plan(n);
            std::vector<arr_real> xs;
            std::vector<arr_cmplx> refs;
            for (int t = 0; t < T; ++t) {
                xs.push_back(rin(n, t));
                refs.push_back(plan(xs.back()));
            }
            const long bad = run_threads(T, [&](int t) {
                long b = 0;
                for (int c = 0; c < calls; ++c) {
                    b += close_c(plan(xs[t]), refs[t], n) ? 0 : 1;
                }
                return b;
            });
            js.begin("Stress").str("kind", "shared FftPlanR").num("n", n).num("threads", T).num("calls", calls).num("mismatches", bad).end();
        }
        {
            IfftPlan plan(n);
            std::vector<arr_cmplx> xs, refs;
            for (int t = 0; t < T; ++t) {
                xs.push_back(cin(n, t));
                refs.push_back(plan(xs.back()));
            }
            const long bad = run_threads(T, [&](int t) {
                long b = 0;
                for (int c = 0; c < calls; ++c) {
                    b += close_c(plan(xs[t]), refs[t], n) ? 0 : 1;
                }
                return b;
            });
            js.begin("Stress").str("kind", "shared IfftPlan").num("n", n).num("threads", T).num("calls", calls).num("mismatches", bad).end();
        }
        if (n % 2 == 0) {
            IfftPlanR plan(n);
            std::vector<arr_cmplx> xs;
            std::vector<arr_real> refs;
            for (int t = 0; t < T; ++t) {
                xs.push_back(fft(rin(n, t)));
                refs.push_back(plan(xs.back()));
            }
            const long bad = run_threads(T, [&](int t) {
                long b = 0;
                for (int c = 0; c < calls; ++c) {
                    b += close_r(plan(xs[t]), refs[t], n) ? 0 : 1;
                }
                return b;
            });
            js.begin("Stress").str("kind", "shared IfftPlanR").num("n", n).num("threads", T).num("calls", calls).num("mismatches", bad).end();
        }
        if (n >= 3) {
            CztPlan plan(n, n + 3, expj(-2 * pi / (n + 1)), cmplx_t(0.9, 0.1));
            std::vector<arr_cmplx> xs, refs;
            for (int t = 0; t < T; ++t) {
                xs.push_back(cin(n, t));
                refs.push_back(plan(xs.back()));
            }
            const long bad = run_threads(T, [&](int t) {
                long b = 0;
                for (int c = 0; c < calls; ++c) {
                    b += close_c(plan(xs[t]), refs[t], 2 * n) ? 0 : 1;
                }
                return b;
            });
            js.begin("Stress").str("kind", "shared CztPlan").num("n", n).num("threads", T).num("calls", calls).num("mismatches", bad).end();
        }
    }
    (void)rng;
}

// (a) every thread reads the SAME input arrays (read-only data shared between threads is not a data race for a library that
//     takes its arguments by const reference), through free functions and shared plans; the inputs must be bit-identical
//     afterwards.  (b) a shared plan whose very first solve() calls happen concurrently: the references come from a separate
//     plan object, nothing warms the shared one up.  Repeated with fresh plans to meet short windows.
static void stress_shared_inputs(Json& js, vh::Rng& rng, int T, int reps) {
    (void)rng;
    static const int NL[] = {8, 12, 45, 60, 64, 86, 127, 210};
    long bad_in = 0, bad_cold = 0, touched = 0, ncalls = 0;
    for (int n : NL) {
        const arr_cmplx xc = cin(n, 7);
        const arr_real xr = rin(n, 7);
        const arr_cmplx keepc = xc;
        const arr_real keepr = xr;
        arr_cmplx rf, ri, rr;
        arr_real rh;
        {
            std::thread th([&] { rf = fft(xc), ri = ifft(xc), rr = rfft(xr); rh = real(hilbert(xr)); });
            th.join();
        }
        IfftPlan ip(n);
        FftPlan fp(n);
        bad_in += run_threads(T, [&](int) {
            long b = 0;
            for (int c = 0; c < 40; ++c) {
                b += close_c(fft(xc), rf, n) ? 0 : 1;
                b += close_c(ifft(xc), ri, n) ? 0 : 1;
                b += close_c(ip(xc), ri, n) ? 0 : 1;
                b += close_c(fp(xc), rf, n) ? 0 : 1;
                b += close_c(rfft(xr), rr, n) ? 0 : 1;
                b += close_r(real(hilbert(xr)), rh, n) ? 0 : 1;
            }
            return b;
        });
        ncalls += 240L * T;
        for (int i = 0; i < n; ++i) {
            touched += std::memcmp(&xc[i], &keepc[i], sizeof(cmplx_t)) != 0 || std::memcmp(&xr[i], &keepr[i], sizeof(real_t)) != 0;
        }
        for (int rep = 0; rep < reps; ++rep) {
            FftPlan refp(n);
            FftPlanR refr(n);
            std::vector<arr_cmplx> xs, want, wantr;
            std::vector<arr_real> xrs;
            for (int t = 0; t < T; ++t) {
                xs.push_back(cin(n, 20 + t));
                xrs.push_back(rin(n, 20 + t));
                want.push_back(refp(xs.back()));
                wantr.push_back(refr(xrs.back()));
            }
            FftPlan cold(n);     // never used before the threads start
            FftPlanR coldr(n);
            IfftPlan coldi(n);
            bad_cold += run_threads(T, [&](int t) {
                long b = close_c(cold(xs[t]), want[t], n) ? 0 : 1;
                b += close_c(coldr(xrs[t]), wantr[t], n) ? 0 : 1;
                b += close_c(coldi(want[t]), xs[t], n) ? 0 : 1;
                return b;
            });
        }
    }
    js.begin("Stress").str("kind", "shared read-only inputs").num("n", 0).num("threads", T).num("calls", ncalls).num("mismatches", bad_in + touched).end();
    js.begin("Stress").str("kind", "cold shared plans").num("n", 0).num("threads", T).num("calls", reps).num("mismatches", bad_cold).end();
}

// random mixes of free functions and distinct objects, results compared with single-threaded references
static void stress_free(Json& js, vh::Rng& rng, int T, int ops) {
    static const int LENS[] = {5, 6, 7, 12, 15, 16, 21, 30, 32, 43, 47, 60, 64, 86, 100, 128, 210};
    struct Job { int op, n; };
    std::vector<std::vector<Job>> jobs(T);
    for (int t = 0; t < T; ++t) {
        for (int i = 0; i < ops; ++i) {
            jobs[t].push_back({(int)rng.range(0, 11), LENS[rng.range(0, 16)]});
        }
    }
    auto run_job = [](const Job& j) -> std::vector<double> {
        std::vector<double> out;
        auto addc = [&](const arr_cmplx& a) { for (int i = 0; i < a.size(); ++i) { out.push_back(a[i].re), out.push_back(a[i].im); } };
        auto addr = [&](const arr_real& a) { out.insert(out.end(), a.begin(), a.end()); };
        const int n = j.n;
        switch (j.op) {
        case 0: addc(fft(cin(n, 0))); break;
        case 1: addc(ifft(cin(n, 0))); break;
        case 2: addc(rfft(rin(n, 0))); break;
        case 3: if (n % 2 == 0) { addr(irfft(fft(rin(n, 0)), n)); } else { addc(fft(rin(n, 0))); } break;
        case 4: addr(xcorr(rin(n, 0), rin(n + 2, 1))); break;
        case 5: { FftFilter f(rin(std::max(2, n / 3), 2)); addr(f.process(rin(5 * n, 3))); break; }
        case 6: addr(welch(rin(40 * n, 0), window::hann(32), 16, 32).pxx); break;
        case 7: addr(resample(rin(3 * n, 0), 3, 2, 6 + n % 5, 3.0 + (n % 7))); break;
        case 8: { dsplib::rng(n); addr(randn(n)); addr(dsplib::rand(3)); break; }
        case 9: addr(window::kaiser(n, 1.0 + (n % 13))); addr(window::hamming(n)); addr(window::gauss(n, 1.5 + (n % 5))); addr(window::tukey(n, 0.1 * (n % 9))); break;   // parameters differ between concurrent jobs
        case 10: addc(hilbert(rin(n, 0))); break;
        default: addc(czt(cin(n, 0), n + 1, expj(-2 * pi / (n + 2))));
        }
        return out;
    };
    // single-threaded references (computed in one fresh thread)
    std::map<std::pair<int, int>, std::vector<double>> ref;
    {
        std::thread th([&] {
            for (auto& v : jobs) {
                for (auto& j : v) {
                    auto key = std::make_pair(j.op, j.n);
                    if (!ref.count(key)) {
                        ref[key] = run_job(j);
                    }
                }
            }
        });
        th.join();
    }
    g_cache_owner.clear();
    g_cache_shared = 0;
    verif::on_cache_access = on_cache;
    const long bad = run_threads(T, [&](int t) {
        long b = 0;
        for (auto& j : jobs[t]) {
            const auto got = run_job(j);
            const auto& want = ref[std::make_pair(j.op, j.n)];
            bool ok = got.size() == want.size();
            double nr = 0;
            for (double v : want) {
                nr += v * v;
            }
            const double tol = 8.0 * (j.n + 64) * EPS * std::sqrt(nr) + 1e-300;
            for (size_t i = 0; i < got.size() && ok; ++i) {
                ok = (j.op == 8) ? (got[i] == want[i]) : (std::fabs(got[i] - want[i]) <= tol);
            }
            b += ok ? 0 : 1;
        }
        return b;
    });
    verif::on_cache_access = nullptr;
    js.begin("Stress").str("kind", "free functions").num("n", 0).num("threads", T).num("calls", ops).num("mismatches", bad)
      .num("cache_shared", g_cache_shared.load()).end();
}

// the very first use of the number-theory helpers (and of plan construction, which factors its length) happens in all
// threads at once, on arguments that force trial division far beyond any precomputed table: whatever these functions keep
// between calls must not be shared unsynchronised.  Checked against the driver's own trial division.
static bool naive_isprime(uint64_t v) {
    if (v < 2) {
        return false;
    }
    for (uint64_t d = 2; d * d <= v; ++d) {
        if (v % d == 0) {
            return false;
        }
    }
    return true;
}
static void stress_cold(Json& js, int T) {
    const long bad = run_threads(T, [&](int t) {
        long b = 0;
        for (int i = 0; i < 24; ++i) {
            const uint32_t a = 4000000007u - 2000u * (uint32_t)t - 2u * (uint32_t)i;          // near 2^32: sqrt = 63245
            const uint32_t s = 257u * 257u + 2u * (uint32_t)(t * 24 + i);                     // just above 251^2
            const uint32_t c = 65537u * (uint32_t)(3 + 2 * ((t + i) % 7));
            b += isprime(a) != naive_isprime(a);
            b += isprime(s) != naive_isprime(s);
            uint32_t np = nextprime(a);
            b += !(np >= a && naive_isprime(np));
            for (uint32_t v = a; v < np; ++v) {
                b += naive_isprime(v);
            }
            uint64_t prod = 1;
            const arr_int fc = factor(c);
            for (int k = 0; k < fc.size(); ++k) {
                prod *= (uint64_t)fc[k];
                b += !naive_isprime((uint64_t)fc[k]);
            }
            b += prod != c;
            if (i % 8 == 0) {
                const arr_int pl = primes(70000 + 100 * t);
                long cnt = 0;
                for (uint32_t v = 2; v <= 70000u + 100u * t; ++v) {
                    cnt += naive_isprime(v);
                }
                b += cnt != pl.size();
                const int n = 2 * 32771 * (1 + t % 2);   // a length with the prime factor 32771 > 251^2 / 2
                const arr_cmplx x = cin(n, t);
                const arr_cmplx y = fft(x);
                cmplx_t dc = 0;
                for (int k = 0; k < n; ++k) {
                    dc += x[k];
                }
                b += !(abs(y[0] - dc) <= 1e-9 * n);
            }
        }
        return b;
    });
    js.begin("Stress").str("kind", "cold number theory").num("n", 0).num("threads", T).num("calls", 24).num("mismatches", bad).end();
}

// the very first transforms of a PROCESS made by several threads at once (whatever the library sets up lazily on first use -
// tables, registries - is set up under contention): forked children, each releases T threads from a barrier (staggered by a
// few tens of microseconds) into their first power-of-two / mixed transform; results are judged against a long-double DFT
// computed without the library.  Must be the first thing this driver does (the parent never touches the library).
static void stress_coldproc(Json& js, vh::Rng& rng, int T, int children) {
    long bad = 0, crashed = 0;
    for (int c = 0; c < children; ++c) {
        const int n = 1 << (int)rng.range(4, 9);
        const int lag = (int)rng.range(0, 60);
        const pid_t pid = fork();
        if (pid == 0) {
            alarm(60);
            std::atomic<int> ready{0};
            std::atomic<bool> go{false};
            std::atomic<long> b{0};
            std::vector<std::thread> th;
            for (int t = 0; t < T; ++t) {
                th.emplace_back([&, t] {
                    const int nn = (t % 3 == 2) ? n * 3 : n;   // some threads a composite with the same power-of-two factor
                    std::vector<std::complex<long double>> xl(nn);
                    arr_cmplx x(nn);
                    for (int i = 0; i < nn; ++i) {
                        const double re = std::sin(0.37 * i + t), im = std::cos(0.11 * i * (t + 1));
                        x[i] = cmplx_t(re, im), xl[i] = std::complex<long double>(re, im);
                    }
                    ready.fetch_add(1);
                    while (!go.load()) {
                    }
                    const auto t0 = std::chrono::steady_clock::now();
                    while (std::chrono::steady_clock::now() - t0 < std::chrono::microseconds((long)lag * t)) {
                    }
                    const arr_cmplx y = fft(x);
                    long mism = 0;
                    for (int k = 0; k < nn; k += std::max(1, nn / 16)) {
                        std::complex<long double> acc = 0;
                        for (int i = 0; i < nn; ++i) {
                            const long double ph = -2 * 3.14159265358979323846264338327950288L * (long double)(((long long)i * k) % nn) / nn;
                            acc += xl[i] * std::complex<long double>(cosl(ph), sinl(ph));
                        }
                        mism += !(std::abs(std::complex<long double>(y[k].re, y[k].im) - acc) <= 1e-9L * nn);
                    }
                    b.fetch_add(mism);
                });
            }
            while (ready.load() < T) {
            }
            go.store(true);
            for (auto& q : th) {
                q.join();
            }
            _exit((int)std::min<long>(b.load(), 100));
        }
        int st = 0;
        waitpid(pid, &st, 0);
        if (WIFEXITED(st)) {
            bad += WEXITSTATUS(st);
        } else {
            ++crashed;
        }
    }
    js.begin("Stress").str("kind", "first transforms of a process").num("n", children).num("threads", T).num("calls", 1)
      .num("mismatches", bad + 1000 * crashed).end();
}

// every thread constructs (and uses) its own objects of thread-specific sizes at the same time: constructors must
// not share hidden state (static tables, process-wide caches)
static void stress_construct(Json& js, vh::Rng& rng, int T, int reps) {
    (void)rng;
    auto work = [](int t, int i) -> std::vector<double> {
        std::vector<double> out;
        auto addc = [&](const arr_cmplx& a) { for (int k = 0; k < a.size(); ++k) { out.push_back(a[k].re), out.push_back(a[k].im); } };
        auto addr = [&](const arr_real& a) { out.insert(out.end(), a.begin(), a.end()); };
        const int n = 2 * (5 + 3 * t + (i % 4));   // even, thread specific, alternating
        { IfftPlanR p(n); addr(p(fft(rin(n, t)))); }
        { IfftPlan p(n + 1); addc(p(cin(n + 1, t))); }
        { FftPlan p(3 * n); addc(p(cin(3 * n, t))); }
        { FftPlanR p(n + 3); addc(p(rin(n + 3, t))); }
        { CztPlan p(n, n + 2, expj(-2 * pi / (n + 3))); addc(p(cin(n, t))); }
        addr(irfft(fft(rin(n + 2, t)), n + 2));
        { HilbertFilter h(31 + 2 * t, 0.02); addc(h.process(rin(100, t))); }
        { FIRDecimator d(2 + t % 3); addr(d.process(rin(60, t))); }
        addr(window::kaiser(n + 1, 3.0 + t));
        addr(fir1(n, 0.3));
        return out;
    };
    std::vector<std::vector<std::vector<double>>> ref(T);
    {
        std::thread th([&] {
            for (int t = 0; t < T; ++t) {
                for (int i = 0; i < 4; ++i) {
                    ref[t].push_back(work(t, i));
                }
            }
        });
        th.join();
    }
    const long bad = run_threads(T, [&](int t) {
        long b = 0;
        for (int i = 0; i < reps; ++i) {
            const auto got = work(t, i);
            const auto& want = ref[t][i % 4];
            bool ok = got.size() == want.size();
            double nr = 0;
            for (double v : want) { nr += v * v; }
            const double tol = 1e-9 * std::sqrt(nr) + 1e-300;
            for (size_t k = 0; k < got.size() && ok; ++k) {
                ok = std::fabs(got[k] - want[k]) <= tol;
            }
            b += ok ? 0 : 1;
        }
        return b;
    });
    js.begin("Stress").str("kind", "concurrent construction").num("n", 0).num("threads", T).num("calls", reps).num("mismatches", bad).end();
}

// ---------------------------------------------------------------- behaviours exported from TLC (Threads.tla)
// Each line of the schedule file is one maximal path of the model's state graph, as tokens B<t> M<t> E<t>
// (Begin / Mid / End of thread t's next solve on the shared plan).  The path is imposed on real threads:
//   B<t>: thread t is committed to its next solve (it waits at its gate; taking the input has no visible effect),
//   M<t>: the gate opens and t runs until its k-th scratch yield (scratch written, not yet read back),
//   E<t>: t runs to the end of this solve (and parks at the gate of its next one).
// Executed steps and per-solve results are logged for Trace_Threads.
struct Gates
{
    std::mutex m;
    std::condition_variable cv;
    int pass[Sched::NT] = {0, 0, 0, 0};
    bool waiting[Sched::NT] = {false, false, false, false};
};
static void replay_schedules(Json& js, vh::Rng& rng, const char* file) {
    static const int LENS[] = {6, 12, 15, 18, 24, 30, 36, 45, 60, 90, 120, 210};
    FILE* in = std::fopen(file, "r");
    if (!in) {
        std::fprintf(stderr, "cannot read %s\n", file);
        std::exit(3);
    }
    char line[4096];
    long lineno = 0;
    while (std::fgets(line, sizeof(line), in)) {
        std::vector<std::pair<char, int>> steps;
        int nthr = 0;
        for (char* tok = std::strtok(line, " \n"); tok; tok = std::strtok(nullptr, " \n")) {
            steps.emplace_back(tok[0], std::atoi(tok + 1));
            nthr = std::max(nthr, std::atoi(tok + 1));
        }
        if (steps.empty() || nthr > Sched::NT) {
            continue;
        }
        std::vector<int> calls(nthr, 0);
        for (auto& st : steps) {
            calls[st.second - 1] += st.first == 'B';
        }
        const int n = LENS[(lineno++ + rng.range(0, 11)) % 12];
        FftPlan plan(n);   // shared by all threads
        // inputs and sequential references, per thread and call
        std::vector<std::vector<arr_cmplx>> x(nthr), ref(nthr), y(nthr);
        for (int t = 0; t < nthr; ++t) {
            for (int c = 0; c < calls[t]; ++c) {
                x[t].push_back(cin(n, 10 * t + c));
                ref[t].push_back(plan(x[t].back()));
                y[t].emplace_back();
            }
        }
        long K = 0;   // scratch yields of one solve
        {
            Sched cnt;
            cnt.mask = 1;
            g_sched = &cnt;
            std::thread th = spawn(cnt, 0, [&] { (void)plan(x[0][0]); });
            wait_gate(cnt, 0);
            advance(cnt, 0, 1);
            while (true) {
                {
                    std::unique_lock<std::mutex> lk(cnt.m);
                    if (cnt.done[0]) {
                        break;
                    }
                }
                advance(cnt, 0, 1);
                ++K;
            }
            th.join();
        }
        Sched s;
        s.mask = 1;
        g_sched = &s;
        Gates g;
        std::vector<std::thread> th;
        for (int t = 0; t < nthr; ++t) {
            th.push_back(spawn(s, t, [&, t] {
                for (int c = 0; c < calls[t]; ++c) {
                    {   // gate before every solve: the scheduler sees the thread parked here
                        std::unique_lock<std::mutex> lk(g.m);
                        g.waiting[t] = true;
                        g.cv.notify_all();
                        g.cv.wait(lk, [&] { return g.pass[t] > 0; });
                        --g.pass[t];
                    }
                    y[t][c] = plan(x[t][c]);
                    std::unique_lock<std::mutex> lk(s.m);
                    s.budget[t] = 0;   // whatever was left of "run to the end" does not leak into the next solve
                }
            }));
        }
        // wait until t is parked at a solve gate or finished (or, if at_yield, blocked at a scratch yield with no budget)
        auto park = [&](int t, bool at_yield) {
            for (int spin = 0; spin < 1200000; ++spin) {   // 60 s: a loaded machine must not look like a blocked schedule
                {
                    std::unique_lock<std::mutex> lk(g.m);
                    if (g.waiting[t]) {
                        return true;
                    }
                }
                {
                    std::unique_lock<std::mutex> lk(s.m);
                    if (s.done[t] || (at_yield && s.blocked[t] && s.budget[t] == 0)) {
                        return true;
                    }
                }
                std::this_thread::sleep_for(std::chrono::microseconds(50));
            }
            return false;
        };
        for (int t = 0; t < nthr; ++t) {
            wait_gate(s, t);
            {   // release the spawn gate without granting yields: the thread runs up to its first solve gate
                std::unique_lock<std::mutex> lk(s.m);
                s.budget[t] = 1;
                s.cv.notify_all();
            }
            park(t, false);
        }
        js.begin("Reset").str("kind", "tlcpath").num("n", n).num("yields", K).num("k1", nthr).num("k2", (long)steps.size()).end();
        bool diverged = false;
        for (auto& st : steps) {
            const int t = st.second - 1;
            if (diverged) {
                break;
            }
            if (st.first == 'B') {
                js.begin("Step").num("t", t + 1).str("a", "Begin").str("plan", "a").end();
            } else if (st.first == 'M') {
                {
                    std::unique_lock<std::mutex> lk(g.m);
                    ++g.pass[t];
                    g.waiting[t] = false;   // cleared here, not by the woken thread: park() must not see the stale flag
                    g.cv.notify_all();
                }
                {
                    std::unique_lock<std::mutex> lk(s.m);
                    s.budget[t] += K > 0 ? rng.range(0, K - 1) : 0;   // pass that many scratch yields, block at the next one
                    s.cv.notify_all();
                }
                diverged = !park(t, true) || diverged;   // now blocked right after a scratch write
                js.begin("Step").num("t", t + 1).str("a", "Mid").str("plan", "a").end();
            } else {
                {
                    std::unique_lock<std::mutex> lk(s.m);
                    s.budget[t] += 1L << 40;
                    s.cv.notify_all();
                }
                diverged = !park(t, false) || diverged;
                js.begin("Step").num("t", t + 1).str("a", "End").str("plan", "a").end();
            }
        }
        {
            std::unique_lock<std::mutex> lk(s.m);
            if (diverged) {
                s.diverged = true;
            }
            for (int t = 0; t < Sched::NT; ++t) {
                s.budget[t] = 1L << 40;
            }
            s.cv.notify_all();
        }
        {
            std::unique_lock<std::mutex> lk(g.m);
            for (int t = 0; t < Sched::NT; ++t) {
                g.pass[t] += 1000;
            }
            g.cv.notify_all();
        }
        for (auto& t : th) {
            t.join();
        }
        g_sched = nullptr;
        for (int t = 0; t < nthr; ++t) {
            for (int c = 0; c < calls[t]; ++c) {
                js.begin("Result").num("t", t + 1).num("c", c).boolean("ok", close_c(y[t][c], ref[t][c], n)).boolean("diverged", diverged).end();
            }
        }
        if (diverged) {
            break;   // reported once; do not spend a minute per remaining schedule
        }
    }
    std::fclose(in);
}

int main(int argc, char** argv) {
    const std::string mode = vh::arg(argc, argv, "--mode", "sched");
    const long seed = std::atol(vh::arg(argc, argv, "--seed", "1"));
    const long budget = std::atol(vh::arg(argc, argv, "--budget", "10"));
    const int T = std::atoi(vh::arg(argc, argv, "--threads", "4"));
    FILE* f = vh::open_out(vh::arg(argc, argv, "--out", "/dev/stdout"));
    Json js(f);
    vh::Rng rng(seed);
    verif::on_yield = on_yield;
    if (mode == "sched") {
        for (long t = 0; t < budget; ++t) {
            sched_factfft(js, rng);
            sched_rng(js, rng);
            sched_cache(js, rng);
        }
    } else if (mode == "replay") {
        replay_schedules(js, rng, vh::arg(argc, argv, "--sched", ""));
    } else if (mode == "stress") {
        verif::on_yield = nullptr;
        stress_coldproc(js, rng, T, 60);   // first of all: the parent has not touched the library yet
        stress_cold(js, T);   // next: nothing has been warmed up single-threaded yet
        for (long t = 0; t < budget; ++t) {
            stress_shared(js, rng, T, 20);
            stress_shared_inputs(js, rng, T, 30);
            stress_free(js, rng, T, 60);
            stress_construct(js, rng, T, 40);
        }
    } else {
        return 3;
    }
    js.flush();
    std::fclose(f);
    return 0;
}
