// Conformance driver for Trace_ResamplePlan.tla (X05): planning arithmetic of the resamplers.
//   resplan_drv --out t --seed S --budget N
#include "common.h"

#include <dsplib.h>

#include <cmath>
#include <numeric>
#include <string>
#include <vector>

using namespace dsplib;
using vh::Json;

int main(int argc, char** argv) {
    const long seed = std::atol(vh::arg(argc, argv, "--seed", "1"));
    const long budget = std::atol(vh::arg(argc, argv, "--budget", "200"));
    FILE* f = vh::open_out(vh::arg(argc, argv, "--out", "/dev/stdout"));
    Json js(f);
    js.flush_each = false;
    vh::Rng rng(seed);
    for (long t = 0; t < budget; ++t) {
        int p = (int)rng.range(1, 16), q = (int)rng.range(1, 16);
        if (rng.range(0, 9) == 0) {
            static const int AU[][2] = {{160, 441}, {441, 160}, {147, 160}, {160, 147}, {320, 147}, {48, 44}};
            const auto& a = AU[rng.range(0, 5)];
            p = a[0], q = a[1];
        }
        const int mul = (int)rng.range(1, 3);
        // wrapper built from a prototype of arbitrary length
        {
            const int nh = (int)rng.range(1, 200);
            arr_real h(nh);
            for (int i = 0; i < nh; ++i) {
                h[i] = 0.5 + rng.unif();
            }
            FIRResampler r(p * mul, q * mul, h);
            js.begin("Wrapper").num("p", p * mul).num("q", q * mul).num("nh", nh).num("delay", r.delay()).num("irate", r.interp_rate())
              .num("drate", r.decim_rate()).end();
            // one-shot resample with the same prototype
            const int len = (int)rng.range(1, 300);
            arr_real x(len), y;
            for (int i = 0; i < len; ++i) {
                x[i] = rng.gauss();
            }
            const char* o = vh::outcome([&] { y = resample(x, p * mul, q * mul, h); });
            js.begin("OneShot").num("p", p * mul).num("q", q * mul).num("len", len).num("nh", nh).str("o", o).num("outlen", y.size()).end();
        }
        // default design
        {
            const int P = (int)rng.range(1, 14);
            const arr_real h = design_multirate_fir(p * mul, q * mul, P);
            js.begin("Design").num("p", p * mul).num("q", q * mul).num("P", P).num("len", h.size()).end();
        }
        // polyphase layout on integer taps whose sum is a power of two (normalisation and gain are exact)
        {
            const int m = (int)rng.range(1, 9), nh = (int)rng.range(1, 40);
            std::vector<long> hv(nh);
            long sum = 0;
            for (int i = 0; i < nh; ++i) {
                hv[i] = rng.range(1, 9);
                sum += hv[i];
            }
            long S = 1;
            while (S < sum) {
                S *= 2;
            }
            hv[rng.range(0, nh - 1)] += S - sum;   // pad one tap so that the sum is S
            arr_real h(nh);
            for (int i = 0; i < nh; ++i) {
                h[i] = (double)hv[i];
            }
            const bool flip = rng.coin();
            const auto br = IResampler::polyphase(h, m, (double)S, flip);
            std::vector<long> flat;
            bool integral = true;
            for (const auto& b : br) {
                for (int k = 0; k < b.size(); ++k) {
                    flat.push_back((long)std::llround(b[k]));
                    integral = integral && b[k] == std::floor(b[k]);
                }
            }
            js.begin("Poly").arr("h", hv).num("m", m).boolean("flip", flip).num("n", br.empty() ? 0 : br[0].size()).arr("flat", flat)
              .boolean("integral", integral).num("p", 1).num("q", 1).end();
        }
    }
    js.flush();
    std::fclose(f);
    return 0;
}
