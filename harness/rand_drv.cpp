// Conformance driver for Trace_Random.tla (C19): reproducible random streams, randi bounds, awgn calibration,
// snr / sinad / thd on the stated signal family.
#include "common.h"
#include <dsplib.h>
#include <thread>
using namespace dsplib;
using vh::Json;
using LD = long double;
static const LD PI_L = 3.14159265358979323846264338327950288L;
static long milli(double err, double bound) {
    if (!(err == err)) {
        return 1000000000;
    }
    return (long)std::min(1e9, std::ceil(err / bound * 1000.0));
}

static std::string digest(const void* p, size_t bytes) {
    uint64_t h = 1469598103934665603ull;
    const unsigned char* b = (const unsigned char*)p;
    for (size_t i = 0; i < bytes; ++i) {
        h ^= b[i];
        h *= 1099511628211ull;
    }
    char buf[20];
    std::snprintf(buf, sizeof(buf), "%016llx", (unsigned long long)h);
    return buf;
}
static std::string hexd(double v) {
    char buf[40];
    std::snprintf(buf, sizeof(buf), "%a", v);
    return buf;
}

// one generator call; kind: 0 rand(n) 1 randn(n) 2 randi([lo,hi], n) 3 rand() scalar 4 randn() scalar 5 randi(imax) 6 awgn real 7 awgn cmplx
// 8 rand([a,b], n)
static void draw(Json& js, int tid, int kind, long p1, long p2, int n) {
    std::string dg, head;
    long len = n;
    switch (kind) {
    case 0: { auto v = dsplib::rand(n); dg = digest(v.data(), n * sizeof(double)); head = n ? hexd(v[0]) : ""; len = v.size(); break; }
    case 1: { auto v = randn(n); dg = digest(v.data(), n * sizeof(double)); head = n ? hexd(v[0]) : ""; len = v.size(); break; }
    case 2: { auto v = randi({(int)p1, (int)p2}, n); dg = digest(v.data(), n * sizeof(int)); head = n ? std::to_string(v[0]) : ""; len = v.size(); break; }
    case 3: { double v = dsplib::rand(); dg = digest(&v, sizeof(v)); head = hexd(v); len = n; break; }
    case 4: { double v = randn(); dg = digest(&v, sizeof(v)); head = hexd(v); len = n; break; }
    case 5: { int v = randi((int)p1); dg = digest(&v, sizeof(v)); head = std::to_string(v); len = n; break; }
    case 6: {
        arr_real x(n);
        for (int i = 0; i < n; ++i) { x[i] = std::sin(0.1 * i); }
        auto v = awgn(x, (double)p1);
        dg = digest(v.data(), n * sizeof(double)); head = n ? hexd(v[0]) : ""; len = v.size();
        break;
    }
    case 7: {
        arr_cmplx x(n);
        for (int i = 0; i < n; ++i) { x[i] = cmplx_t(std::cos(0.1 * i), std::sin(0.1 * i)); }
        auto v = awgn(x, (double)p1);
        dg = digest(v.data(), n * sizeof(cmplx_t)); head = n ? hexd(v[0].re) : ""; len = v.size();
        break;
    }
    default: {
        auto v = dsplib::rand({(double)p1, (double)p2}, n);
        dg = digest(v.data(), n * sizeof(double)); head = n ? hexd(v[0]) : ""; len = v.size();
    }
    }
    js.begin("Draw").num("tid", tid).num("kind", kind).num("p1", p1).num("p2", p2).num("n", n).num("len", len).str("digest", dg)
      .str("head", head).end();
}

static void random_call(Json& js, vh::Rng& rng, int tid) {
    const int kind = (int)rng.range(0, 8);
    long p1 = 0, p2 = 0;
    int n = (int)rng.range(0, 9);   // small counts incl. odd ones: distributions may cache a second variate
    if (kind == 2) {
        p1 = rng.range(-5, 5), p2 = p1 + rng.range(0, 6);
    } else if (kind == 5) {
        p1 = rng.range(1, 9), n = 1;
    } else if (kind == 6 || kind == 7) {
        p1 = rng.range(0, 30), n = (int)rng.range(2, 9);
    } else if (kind == 8) {
        p1 = rng.range(-3, 3), p2 = p1 + rng.range(1, 4);
    } else if (kind == 3 || kind == 4) {
        n = 1;
    }
    draw(js, tid, kind, p1, p2, n);
}

// seeds 0..smax: after rng(s) the same interleaved call sequence replays bit-identical values, whatever was drawn before
static void run_repro(Json& js, vh::Rng& rng, int smax, int reps) {
    int next_tid = 1;
    for (int s = 0; s <= smax; ++s) {
        // fix a call script for this seed
        vh::Rng script(1000 + s);
        const int ncalls = (int)script.range(2, 7);
        for (int rep = 0; rep < reps; ++rep) {
            auto body = [&](int tid) {
                // unrelated history before seeding (different every repetition)
                const int pre = (int)rng.range(0, 4);
                for (int i = 0; i < pre; ++i) {
                    random_call(js, rng, tid);
                }
                dsplib::rng(s);
                js.begin("Seed").num("tid", tid).num("seed", s).end();
                vh::Rng sc = script;   // identical script
                for (int i = 0; i < ncalls; ++i) {
                    random_call(js, sc, tid);
                }
            };
            if (rep % 2 == 0) {
                body(0);   // main thread
            } else {
                const int tid = next_tid++;
                js.begin("Thread").num("tid", tid).end();
                std::thread th([&] { body(tid); });
                th.join();
            }
        }
    }
    // histories of one kind only: the draws between two rng(s) calls with the same seed all come from a single entry point
    // (or there are none at all); whatever that entry point is, the second rng(s) restarts the stream
    {
        static const long PAR[9][3] = {{0, 0, 5}, {0, 0, 5}, {-4, 9, 5}, {0, 0, 1}, {0, 0, 1}, {7, 0, 1}, {10, 0, 6}, {10, 0, 6}, {-1, 1, 8}};
        for (int k = 0; k <= 8; ++k) {
            const int s = 100 + k, j = (k + 1 + (int)rng.range(0, 7)) % 9;
            auto seed = [&] { dsplib::rng(s); js.begin("Seed").num("tid", 0).num("seed", s).end(); };
            auto call = [&](int q) { draw(js, 0, q, PAR[q][0], PAR[q][1], (int)PAR[q][2]); };
            seed(); call(k); call(k);
            seed(); call(k); call(k);     // same seed, only kind k in between
            seed(); seed(); call(j); call(k);   // nothing in between
            dsplib::rng(9000 + k); js.begin("Seed").num("tid", 0).num("seed", 9000 + k).end();
            random_call(js, rng, 0);
            seed(); call(j); call(k);
            seed(); call(k); seed(); call(j); call(k);
        }
    }
    // what a thread that never seeds observes does not depend on what other threads have seeded: an unseeded reference thread
    // first, then the main thread seeds with something else, then more unseeded threads - all must draw the same values
    {
        const int tid = next_tid++;
        js.begin("Thread").num("tid", tid).end();
        std::thread th([&] {
            vh::Rng sc(77);
            for (int i = 0; i < 4; ++i) {
                random_call(js, sc, tid);
            }
        });
        th.join();
    }
    dsplib::rng(4242);   // the main thread's seed must not leak into new threads
    js.begin("Seed").num("tid", 0).num("seed", 4242).end();
    for (int q = 0; q < 4; ++q) {
        const int tid = next_tid++;
        js.begin("Thread").num("tid", tid).end();
        std::thread th([&] {
            vh::Rng sc(77);
            for (int i = 0; i < 4; ++i) {
                random_call(js, sc, tid);
            }
        });
        th.join();
    }
}

static void run_randi(Json& js, vh::Rng& rng, long budget) {
    for (long t = 0; t < budget; ++t) {
        const int lo = (int)rng.range(-1000, 1000) * (rng.coin() ? 1 : 1000);
        const int w = rng.coin() ? (int)rng.range(0, 5) : (int)rng.range(0, 100000);
        const int hi = lo + w;
        const int n = (int)rng.range(500, 5000);
        const arr_int v = randi({lo, hi}, n);
        long mn = v[0], mx = v[0];
        for (int i = 0; i < n; ++i) {
            mn = std::min<long>(mn, v[i]), mx = std::max<long>(mx, v[i]);
        }
        js.begin("Randi").raw("lo", lo).raw("hi", hi).num("n", n).raw("min", mn).raw("max", mx).boolean("all_int", v.size() == n).end();
        const int imax = (int)rng.range(1, 50);
        const arr_int u = randi(imax, n);
        mn = u[0], mx = u[0];
        for (int i = 0; i < n; ++i) {
            mn = std::min<long>(mn, u[i]), mx = std::max<long>(mx, u[i]);
        }
        js.begin("Randi").raw("lo", 1).raw("hi", imax).num("n", n).raw("min", mn).raw("max", mx).boolean("all_int", u.size() == n).end();
        // scalar randi with explicit ranges, back to back with the same upper and different lower bounds (and vice versa)
        {
            static const int RG[][2] = {{-6, 6}, {1, 6}, {6, 6}, {-100, -1}, {-3, -1}, {-3, 5}, {2, 5}, {2, 2}, {-7, -7}, {-7, 0}};
            for (const auto& rg : RG) {
                long smn = 1L << 30, smx = -(1L << 30);
                for (int i = 0; i < 40; ++i) {
                    const long q = randi({rg[0], rg[1]});
                    smn = std::min(smn, q), smx = std::max(smx, q);
                }
                js.begin("Randi").raw("lo", rg[0]).raw("hi", rg[1]).num("n", 40).raw("min", smn).raw("max", smx).boolean("all_int", true).end();
            }
        }
        // the scalar overload draws from the same documented range [1, imax]
        {
            const int im = (int)rng.range(1, 5);
            long smn = 1L << 30, smx = -(1L << 30);
            for (int i = 0; i < 600; ++i) {
                const long q = randi(im);
                smn = std::min(smn, q), smx = std::max(smx, q);
            }
            js.begin("Randi").raw("lo", 1).raw("hi", im).num("n", 600).raw("min", smn).raw("max", smx).boolean("all_int", true).end();
        }
        const arr_real r = dsplib::rand(n);
        bool inside = true;
        for (int i = 0; i < n; ++i) {
            inside = inside && r[i] >= 0 && r[i] < 1;
        }
        js.begin("Range").str("fn", "rand").boolean("inside", inside).end();
    }
}

// awgn: noise power = signal power / 10^(snr/10) within 6 standard errors
static void run_awgn(Json& js, vh::Rng& rng, long budget, int maxlen) {
    for (long t = 0; t < budget; ++t) {
        int n = (int)std::pow(10.0, 4 + rng.unif() * std::log10(maxlen / 1e4));
        if (t % 5 == 4) {
            n = (int)rng.range(90000, 160000);
        }
        double snr = -10 + 90 * rng.unif();
        double amp = std::pow(10.0, -3 + 6 * rng.unif());   // powers over 120 dB
        if (t % 4 == 3) {   // the quiet corner: a weak signal and a high SNR (noise far below any absolute floor one might invent)
            snr = 50 + 30 * rng.unif();
            amp = std::pow(10.0, -4 + 2 * rng.unif());
        }
        const bool cplx = rng.coin();
        const int kind = (int)rng.range(0, 2);   // tone / broadband / unbalanced I-Q
        // every fifth record is long (> 65536 samples) and changes level along the way: "the power of x" is that of the whole record
        const bool fade = (t % 5 == 4);
        dsplib::rng((int)rng.range(0, 100000));
        // half of the real signals ride on a pedestal: "signal power" is the mean square, not the variance
        const double ped = (t % 2) ? amp * (0.5 + 2 * rng.unif()) * (rng.coin() ? 1 : -1) : 0.0;
        LD ps = 0, pn = 0;
        if (!cplx) {
            arr_real x(n);
            for (int i = 0; i < n; ++i) {
                x[i] = (fade ? (0.02 + 2.0 * i / n) : 1.0) * amp * (kind == 1 ? rng.gauss() : std::sin(0.37 * i + 0.2)) + ped;
            }
            // every third record: the same buffer held another signal of the same length, 30 dB up, in the call before
            if (t % 3 == 0) {
                const arr_real keep = x;
                for (int i = 0; i < n; ++i) {
                    x[i] = 31.6 * keep[i] + amp;
                }
                (void)awgn(x, snr);
                for (int i = 0; i < n; ++i) {
                    x[i] = keep[i];
                }
            }
            const arr_real y = awgn(x, snr);
            for (int i = 0; i < n; ++i) {
                ps += (LD)x[i] * x[i];
                pn += (LD)(y[i] - x[i]) * (y[i] - x[i]);
            }
        } else {
            arr_cmplx x(n);
            for (int i = 0; i < n; ++i) {
                x[i] = kind == 0 ? cmplx_t(amp * std::cos(0.37 * i), amp * std::sin(0.37 * i))
                     : kind == 1 ? cmplx_t(amp * rng.gauss(), amp * rng.gauss())
                                 : cmplx_t(amp * std::cos(0.37 * i), 0.25 * amp * std::sin(0.11 * i));   // unequal I / Q power
                if (fade) {
                    x[i] = x[i] * (0.02 + 2.0 * i / n);
                }
            }
            if (t % 3 == 0) {
                const arr_cmplx keep = x;
                for (int i = 0; i < n; ++i) {
                    x[i] = keep[i] * 0.0316;
                }
                (void)awgn(x, snr);
                for (int i = 0; i < n; ++i) {
                    x[i] = keep[i];
                }
            }
            const arr_cmplx y = awgn(x, snr);
            for (int i = 0; i < n; ++i) {
                ps += (LD)abs2(x[i]);
                pn += (LD)abs2(y[i] - x[i]);
            }
        }
        ps /= n, pn /= n;
        const LD want = ps / powl(10.0L, (LD)snr / 10);
        // standard error of the mean of n squared Gaussians: real sigma^2 sqrt(2/n); complex (two components) sigma^2 sqrt(1/n)
        const LD se = want * sqrtl((cplx ? 1.0L : 2.0L) / n);
        // the subtraction y - x loses the noise when it is far below the signal's rounding: add that floor
        const LD floor_ = ps * 1e-31L;
        const double z = (double)(fabsl(pn - want) / (se + floor_ + want * 1e-12L));
        js.begin("Resid").str("clause", "C19.awgn-power").boolean("cplx", cplx).num("kind", kind).num("n", n).num("snr_milli", (long)(snr * 1000))
          .num("err_milli", milli(z, 6.0)).end();
    }
}

// snr / sinad / thd on a noise-free sinusoid with harmonics
static void run_meas(Json& js, vh::Rng& rng, long budget, int maxlen) {
    for (long t = 0; t < budget; ++t) {
        int n = rng.coin() ? (1 << (int)rng.range(11, (int)std::log2(maxlen))) : (int)rng.range(2048, maxlen);
        // every fourth case: a record just longer than a power of two (the periodogram is zero padded to almost twice its
        // length, lobes are twice as wide in bins) with weak harmonics only (-28 dBc and below: sinad above 25 dB)
        const bool padded = (t % 4 == 3);
        if (padded) {
            const int k = (int)rng.range(11, (int)std::log2(maxlen) - 1);
            n = (1 << k) + (1 << k) / (int)rng.range(10, 40);
        }
        const int nfft = 1 << nextpow2(n);
        const int nh = (int)rng.range(1, 5);   // harmonics besides the fundamental
        // fundamental chosen so that every component is >= 100 bins (of the nfft/2-point one-sided spectrum) from the others, DC, Nyquist
        const double binw = 1.0 / nfft;
        double f0 = 0;
        for (int tries = 0; tries < 1000; ++tries) {
            f0 = (110 + rng.unif() * (nfft / 2.0 / (nh + 1) - 220)) * binw;
            if (rng.coin()) {
                f0 = std::round(f0 * nfft) / nfft;   // on-bin
            }
            bool okf = f0 * nfft > 105 && (nh + 1) * f0 < 0.5 - 105 * binw && f0 * nfft > 105;
            if (okf) {
                break;
            }
        }
        if (!(f0 * nfft > 105 && (nh + 1) * f0 < 0.5 - 105 * binw)) {
            continue;
        }
        const double A = std::pow(10.0, -2 + 4 * rng.unif());
        std::vector<double> hdb(nh), hph(nh);
        LD hpow = 0;
        for (int h = 0; h < nh; ++h) {
            hdb[h] = padded ? -(28 + 12 * rng.unif()) : -(10 + 30 * rng.unif());
            hph[h] = 6.28 * rng.unif();
            hpow += powl(10.0L, (LD)hdb[h] / 10);
        }
        arr_real x(n);
        const double ph0 = 6.28 * rng.unif();
        for (int i = 0; i < n; ++i) {
            LD v = sinl(2 * PI_L * f0 * i + ph0);
            for (int h = 0; h < nh; ++h) {
                v += powl(10.0L, (LD)hdb[h] / 20) * sinl(2 * PI_L * f0 * (h + 2) * i + hph[h]);
            }
            x[i] = (double)(A * v);
        }
        // windows of the same length with other parameters were requested on this thread just before (analysis code
        // typically builds several): the measurement functions must not pick up anything from them
        {
            const arr_real d1 = window::kaiser(n, 2.5), d2 = window::hann(n), d3 = window::kaiser(n, 9.0);
            volatile double keep = d1[0] + d2[0] + d3[0];
            (void)keep;
        }
        const auto r = thd(x, nh + 1);
        const double want_thd = (double)(10 * log10l(hpow));
        js.begin("Resid").str("clause", "C19.thd-value").num("n", n).num("nh", nh).num("err_milli", milli(std::fabs(r.value - want_thd), 0.1)).end();
        double ferr = 0;
        for (int h = 0; h <= nh && h < r.harmfreq.size(); ++h) {
            ferr = std::max(ferr, std::fabs(r.harmfreq[h] - f0 * (h + 1)) * nfft);   // in bins of the nfft grid
        }
        js.begin("Resid").str("clause", "C19.harm-freq").num("n", n).num("nh", nh).num("err_milli", milli(ferr, 0.1)).end();
        const double sd = sinad(x);
        js.begin("Resid").str("clause", "C19.sinad").num("n", n).num("nh", nh).num("err_milli", milli(std::fabs(sd - (-want_thd)), 1.5)).end();
        // invariance under positive scaling
        const double c = std::pow(10.0, -3 + 6 * rng.unif());
        const arr_real xs = x * c;
        // snr (harmonics excluded) of a noise-free signal measures rounding noise only; use a copy with real noise for it
        arr_real xn(n);
        for (int i = 0; i < n; ++i) {
            xn[i] = x[i] + A * 1e-3 * rng.gauss();
        }
        const arr_real xns = xn * c;
        const double d1 = std::fabs(thd(xs, nh + 1).value - r.value), d2 = std::fabs(sinad(xs) - sd),
                     d3 = std::fabs(snr(xns, nh + 1) - snr(xn, nh + 1));
        js.begin("Resid").str("clause", "C19.scale-invariance").num("n", n).num("err_milli", milli(std::max({d1, d2, d3}), 1e-6)).end();
    }
}

// the same family sampled too slowly for its harmonics: component k sits at k*f0 folded into the first Nyquist zone (some of
// them several zones up); thd(x, nharm, aliased = true) finds them there
static void run_meas_aliased(Json& js, vh::Rng& rng, long budget, int maxlen) {
    for (long t = 0; t < budget; ++t) {
        const int n = 1 << (int)rng.range(12, (int)std::log2(maxlen));
        const int nfft = n;
        const int nh = (int)rng.range(2, 5);
        auto fold = [](double f) { f = std::fmod(f, 1.0); return f > 0.5 ? 1.0 - f : f; };
        double f0 = 0;
        bool found = false;
        for (int tries = 0; tries < 5000 && !found; ++tries) {
            f0 = std::round((0.26 + 0.23 * rng.unif()) * nfft) / nfft;   // on-bin, harmonics reach beyond fs and 2 fs
            if (t % 2 == 0) {
                f0 = std::round((0.40 + 0.09 * rng.unif()) * nfft) / nfft;
            }
            std::vector<double> fs;
            for (int k = 1; k <= nh + 1; ++k) {
                fs.push_back(fold(k * f0));
            }
            found = true;
            for (size_t a = 0; a < fs.size() && found; ++a) {
                found = fs[a] * nfft > 110 && fs[a] * nfft < nfft / 2.0 - 110;
                for (size_t b = 0; b < a && found; ++b) {
                    found = std::fabs(fs[a] - fs[b]) * nfft > 220;
                }
            }
        }
        if (!found) {
            continue;
        }
        const double A = std::pow(10.0, -2 + 4 * rng.unif());
        std::vector<double> hdb(nh), hph(nh);
        LD hpow = 0;
        for (int h = 0; h < nh; ++h) {
            hdb[h] = -(10 + 30 * rng.unif());
            hph[h] = 6.28 * rng.unif();
            hpow += powl(10.0L, (LD)hdb[h] / 10);
        }
        arr_real x(n);
        const double ph0 = 6.28 * rng.unif();
        for (int i = 0; i < n; ++i) {
            LD v = sinl(2 * PI_L * f0 * i + ph0);
            for (int h = 0; h < nh; ++h) {
                v += powl(10.0L, (LD)hdb[h] / 20) * sinl(2 * PI_L * f0 * (h + 2) * i + hph[h]);
            }
            x[i] = (double)(A * v);
        }
        const auto r = thd(x, nh + 1, true);
        const double want_thd = (double)(10 * log10l(hpow));
        js.begin("Resid").str("clause", "C19.thd-aliased").num("n", n).num("nh", nh).num("err_milli", milli(std::fabs(r.value - want_thd), 0.1)).end();
        double ferr = 0;
        for (int h = 0; h <= nh && h < r.harmfreq.size(); ++h) {
            ferr = std::max(ferr, std::fabs(r.harmfreq[h] - fold(f0 * (h + 1))) * nfft);
        }
        js.begin("Resid").str("clause", "C19.harm-freq-aliased").num("n", n).num("nh", nh).num("err_milli", milli(ferr, 0.1)).end();
    }
}

int main(int argc, char** argv) {
    const std::string mode = vh::arg(argc, argv, "--mode", "repro");
    const long seed = std::atol(vh::arg(argc, argv, "--seed", "1"));
    const long budget = std::atol(vh::arg(argc, argv, "--budget", "20"));
    const int maxlen = std::atoi(vh::arg(argc, argv, "--maxlen", "100000"));
    FILE* f = vh::open_out(vh::arg(argc, argv, "--out", "/dev/stdout"));
    Json js(f);
    js.flush_each = false;
    vh::Rng rng(seed);
    if (mode == "repro") {
        run_repro(js, rng, (int)budget, 4);
    } else if (mode == "randi") {
        run_randi(js, rng, budget);
    } else if (mode == "awgn") {
        run_awgn(js, rng, budget, maxlen);
    } else if (mode == "meas") {
        run_meas(js, rng, budget, maxlen);
        run_meas_aliased(js, rng, budget, maxlen);
    } else {
        return 3;
    }
    js.flush();
    std::fclose(f);
    return 0;
}
