// Conformance driver for Trace_Spectrum.tla (C13): welch labelling / power, mscohere.
#include "common.h"
#include <dsplib.h>
using namespace dsplib;
using vh::Json;
using LD = long double;
static const LD PI_L = 3.14159265358979323846264338327950288L;
static const double EPS = 2.220446049250313e-16;
static long milli(double err, double bound) {
    return (long)std::min(1e9, std::ceil(err / bound * 1000.0));
}
static arr_real make_win(vh::Rng& rng, int n, std::string* name) {
    switch (rng.range(0, 6)) {
    case 0: *name = "hann"; return window::hann(n);
    case 1: *name = "hamming"; return window::hamming(n);
    case 2: *name = "blackman"; return window::blackman(n);
    case 3: *name = "kaiser"; return window::kaiser(n, 6.0);
    case 4: *name = "gauss"; return window::gauss(n, 2.5);
    case 5: *name = "bh"; return window::blackmanharris(n);
    default: *name = "rect"; return ones(n);
    }
}

static void run_tone(Json& js, vh::Rng& rng, long budget) {
    for (long t = 0; t < budget; ++t) {
        const bool cplx = rng.coin();
        const int nfft = 1 << (int)rng.range(cplx ? 3 : 6, 12);
        const int winlen = (int)rng.range(std::max(4, nfft / 2), nfft);
        const int noverlap = (int)rng.range(0, winlen - 1);
        std::string wn;
        const arr_real win = make_win(rng, winlen, &wn);
        // tone at p/(8 nfft) cycles per sample, never within 1/8 bin of a bin boundary
        long k, d = rng.range(-3, 3);
        if (cplx) {
            k = rng.range(-nfft / 2 + 1, nfft / 2 - 1);
        } else {
            k = rng.range(10, nfft / 2 - 10);   // guard band: keep the image at -f out of the main lobe
        }
        const long p = 8 * k + d;
        const int nseg = (int)rng.range(1, 6);
        const int N = winlen + (nseg - 1) * (winlen - noverlap) + (int)rng.range(0, winlen - noverlap - 1);
        const double A = std::pow(10.0, -2 + 3 * rng.unif()), ph = 6.28 * rng.unif();
        const SpectrumType st = rng.coin() ? SpectrumType::Psd : SpectrumType::Power;
        arr_real pxx, f;
        const char* o;
        if (cplx) {
            arr_cmplx x(N);
            for (int i = 0; i < N; ++i) {
                const LD a = 2 * PI_L * (LD)(((long long)p * i) % (8LL * nfft)) / (8.0L * nfft) + ph;
                x[i] = cmplx_t((double)(A * cosl(a)), (double)(A * sinl(a)));
            }
            o = vh::outcome([&] { auto r = welch(x, win, noverlap, nfft, st); pxx = r.pxx; f = r.f; });
        } else {
            arr_real x(N);
            for (int i = 0; i < N; ++i) {
                const LD a = 2 * PI_L * (LD)(((long long)p * i) % (8LL * nfft)) / (8.0L * nfft) + ph;
                x[i] = (double)(A * cosl(a));
            }
            o = vh::outcome([&] { auto r = welch(x, win, noverlap, nfft, st); pxx = r.pxx; f = r.f; });
        }
        std::vector<long> fl;
        bool f_exact = true, nonneg = true;
        for (int i = 0; i < f.size(); ++i) {
            const double v = f[i] * nfft;
            fl.push_back((long)std::llround(v));
            f_exact = f_exact && std::fabs(v - std::nearbyint(v)) <= 1e-9;
        }
        long imax = 0;
        for (int i = 0; i < pxx.size(); ++i) {
            nonneg = nonneg && pxx[i] >= 0;
            if (pxx[i] > pxx[(int)imax]) {
                imax = i;
            }
        }
        const long peak_label = (pxx.size() > 0 && imax < (long)fl.size()) ? fl[imax] : -999999;
        js.begin("Tone").boolean("cplx", cplx).num("nfft", nfft).num("winlen", winlen).num("noverlap", noverlap).str("win", wn)
          .num("p", p).num("N", N).str("o", o).num("plen", pxx.size()).arr("f", fl).boolean("f_exact", f_exact)
          .boolean("nonneg", nonneg).num("imax", imax).num("peak_label", peak_label).end();
    }
}

// power conservation in density scaling, peak value in power scaling
static void run_power(Json& js, vh::Rng& rng, long budget) {
    for (long t = 0; t < budget; ++t) {
        const bool cplx = rng.coin();
        const int nfft = 1 << (int)rng.range(3, 11);
        const int winlen = (int)rng.range(3, nfft);
        const int noverlap = (int)rng.range(0, winlen - 1);
        std::string wn;
        const arr_real win = make_win(rng, winlen, &wn);
        const int stride = winlen - noverlap;
        const int N = winlen + (int)rng.range(0, 8) * stride + (int)rng.range(0, stride - 1);
        const int nseg = (N - winlen) / stride + 1;
        arr_cmplx xc(N);
        arr_real xr(N);
        for (int i = 0; i < N; ++i) {
            xr[i] = rng.gauss();
            xc[i] = cmplx_t(rng.gauss(), rng.gauss());
        }
        // half of the cases: the window lives in a buffer that held another window (same length, other coefficients) during an
        // earlier call with the same scaling - analysis code refills one buffer per family
        arr_real wbuf(winlen);
        if (rng.coin()) {
            std::string other;
            const arr_real w0 = make_win(rng, winlen, &other);
            for (int i = 0; i < winlen; ++i) {
                wbuf[i] = 0.25 + 0.5 * w0[i] * w0[i];
            }
            const auto decoy = cplx ? welch(xc, wbuf, noverlap, nfft, SpectrumType::Psd) : welch(xr, wbuf, noverlap, nfft, SpectrumType::Psd);
            (void)decoy;
        }
        for (int i = 0; i < winlen; ++i) {
            wbuf[i] = win[i];
        }
        const arr_real pxx = cplx ? welch(xc, wbuf, noverlap, nfft, SpectrumType::Psd).pxx : welch(xr, wbuf, noverlap, nfft, SpectrumType::Psd).pxx;
        LD wp = 0;
        for (int i = 0; i < winlen; ++i) {
            wp += (LD)win[i] * win[i];
        }
        LD mean_pow = 0;
        for (int s = 0; s < nseg; ++s) {
            LD e = 0;
            for (int i = 0; i < winlen; ++i) {
                const LD v2 = cplx ? (LD)abs2(xc[s * stride + i]) : (LD)xr[s * stride + i] * xr[s * stride + i];
                e += v2 * (LD)win[i] * win[i];
            }
            mean_pow += e / wp / nseg;
        }
        LD total = 0;
        for (int i = 0; i < pxx.size(); ++i) {
            total += pxx[i];
        }
        const double err = mean_pow == 0 ? 0 : (double)fabsl(total / (nfft * mean_pow) - 1);
        js.begin("Resid").str("clause", "C13.power-sum").boolean("cplx", cplx).num("nfft", nfft).num("winlen", winlen)
          .num("noverlap", noverlap).str("win", wn).num("err_milli", milli(err, 64.0 * nfft * EPS)).end();
        // power scaling: bin-centred sinusoid, peak = mean-square value
        {
            const int nf = 1 << (int)rng.range(5, 11);
            const int k = (int)rng.range(3, nf / 2 - 3);
            const double A = std::pow(10.0, -1 + 2 * rng.unif());
            std::string w2;
            arr_real wv = make_win(rng, nf, &w2);
            if (!cplx) {
                // a real sinusoid also has an image at -f; with a periodic (DFT-even) cosine-sum window the image
                // falls exactly on zeros of the window spectrum, so the peak is A^2/2 to rounding
                switch (rng.range(0, 3)) {
                case 0: wv = window::hann(nf, false), w2 = "hann.p"; break;
                case 1: wv = window::hamming(nf, false), w2 = "hamming.p"; break;
                case 2: wv = window::blackman(nf, false), w2 = "blackman.p"; break;
                default: wv = ones(nf), w2 = "rect";
                }
            }
            const int NN = nf * (int)rng.range(1, 4);
            double peak = 0, want = 0;
            if (cplx) {
                arr_cmplx x(NN);
                for (int i = 0; i < NN; ++i) {
                    const LD a = 2 * PI_L * (LD)(((long long)k * i) % nf) / nf;
                    x[i] = cmplx_t((double)(A * cosl(a)), (double)(A * sinl(a)));
                }
                peak = max(welch(x, wv, nf / 2, nf, SpectrumType::Power).pxx), want = A * A;
            } else {
                arr_real x(NN);
                for (int i = 0; i < NN; ++i) {
                    const LD a = 2 * PI_L * (LD)(((long long)k * i) % nf) / nf + 0.7L;
                    x[i] = (double)(A * cosl(a));
                }
                peak = max(welch(x, wv, nf / 2, nf, SpectrumType::Power).pxx), want = A * A / 2;
            }
            js.begin("Resid").str("clause", "C13.power-peak").boolean("cplx", cplx).num("nfft", nf).str("win", w2)
              .num("err_milli", milli(std::fabs(peak / want - 1), 1e-9)).end();
        }
    }
}

// the short forms stand for the full form with a Hamming window, winlen/2 overlap and the next power of two as nfft
static bool same_res(const WelchResult& a, const WelchResult& b) {
    bool ok = a.pxx.size() == b.pxx.size() && a.f.size() == b.f.size();
    for (int i = 0; ok && i < a.pxx.size(); ++i) {
        ok = a.pxx[i] == b.pxx[i] && a.f[i] == b.f[i];
    }
    return ok;
}
static void overloads(Json& js, vh::Rng& rng) {
    const int winlen = (int)rng.range(3, 200), N = winlen + (int)rng.range(0, 600);
    const int nfft = 1 << nextpow2(winlen), nf2 = nfft << (int)rng.range(0, 1);
    const int nov = (int)rng.range(0, winlen - 1);
    arr_real x(N), y(N);
    arr_cmplx z(N);
    for (int i = 0; i < N; ++i) {
        x[i] = rng.gauss(), y[i] = 0.5 * x[i] + rng.gauss(), z[i] = cmplx_t(rng.gauss(), rng.gauss());
    }
    const arr_real ham = window::hamming(winlen), win = window::blackman(winlen);
    bool ok = true;
    for (SpectrumType st : {SpectrumType::Psd, SpectrumType::Power}) {
        ok = ok && same_res(welch(x, winlen, st), welch(x, ham, winlen / 2, nfft, st));
        ok = ok && same_res(welch(x, win, st), welch(x, win, winlen / 2, nfft, st));
        ok = ok && same_res(welch(x, winlen, nov, nf2, st), welch(x, ham, nov, nf2, st));
        ok = ok && same_res(welch(z, winlen, st), welch(z, ham, winlen / 2, nfft, st));
        ok = ok && same_res(welch(z, win, st), welch(z, win, winlen / 2, nfft, st));
        ok = ok && same_res(welch(z, winlen, nov, nf2, st), welch(z, ham, nov, nf2, st));
    }
    ok = ok && same_res(welch(x, winlen), welch(x, ham, winlen / 2, nfft, SpectrumType::Psd));   // Psd is the default
    auto samev = [](const arr_real& a, const arr_real& b) {
        bool e = a.size() == b.size();
        for (int i = 0; e && i < a.size(); ++i) {
            e = a[i] == b[i] || (a[i] != a[i] && b[i] != b[i]);
        }
        return e;
    };
    ok = ok && samev(mscohere(x, y, winlen), mscohere(x, y, ham, winlen / 2, nfft));
    ok = ok && samev(mscohere(x, y, win), mscohere(x, y, win, winlen / 2, nfft));
    ok = ok && samev(mscohere(x, y, winlen, nov, nf2), mscohere(x, y, ham, nov, nf2));
    js.begin("Resid").str("clause", "C13.overloads").boolean("cplx", false).num("nfft", nfft).num("winlen", winlen)
      .num("err_milli", ok ? 0 : 1000000).end();
}

static void run_cohere(Json& js, vh::Rng& rng, long budget) {
    for (long t = 0; t < budget; ++t) {
        overloads(js, rng);
        const int nfft = 1 << (int)rng.range(3, 10);
        const int winlen = (int)rng.range(std::max(3, nfft / 4), nfft);
        const int noverlap = (int)rng.range(0, winlen - 1);
        // whole segments plus a partial one at the end of the record (up to a stride short of the next segment)
        const int N = winlen + (int)rng.range(0, 30) * (winlen - noverlap) + (rng.coin() ? (int)rng.range(0, winlen - noverlap - 1) : 0);
        const int kind = (int)rng.range(0, 3);
        static const char* KN[] = {"scaled", "random", "filtered", "dynamic"};
        arr_real x(N), y(N);
        const double lev = std::pow(10.0, -6 + 8 * rng.unif());   // overall level 1e-6 .. 100: coherence is level-free
        for (int i = 0; i < N; ++i) {
            x[i] = lev * (rng.gauss() + (kind == 3 ? 1e4 * std::cos(0.3 * i) : 0.0));   // large dynamic range spectrum
            y[i] = lev * rng.gauss();
        }
        const char* kn = KN[kind];
        if (kind == 0 || kind == 3) {
            const double c = (rng.coin() ? 1 : -1) * std::pow(10.0, -8 + 12 * rng.unif());
            for (int i = 0; i < N; ++i) {
                y[i] = c * x[i];
            }
            kn = "scaled";
        } else if (kind == 2) {
            for (int i = 1; i < N; ++i) {
                y[i] = 0.5 * x[i] + 0.5 * x[i - 1] + 0.1 * y[i];
            }
        }
        std::string wn;
        const arr_real win = make_win(rng, winlen, &wn);
        arr_real c;
        const char* o = vh::outcome([&] { c = mscohere(x, y, win, noverlap, nfft); });
        bool inrange = true;
        double dev = 0;
        for (int i = 0; i < c.size(); ++i) {
            inrange = inrange && c[i] >= 0 && c[i] <= 1 + 1e-12;
            dev = std::max(dev, std::fabs(c[i] - 1));
        }
        js.begin("Cohere").str("kind", kn).num("nfft", nfft).num("winlen", winlen).num("noverlap", noverlap).str("win", wn)
          .str("o", o).num("clen", c.size()).boolean("inrange", inrange).num("dev_milli", milli(dev, 1e-9)).end();
    }
}

int main(int argc, char** argv) {
    const std::string mode = vh::arg(argc, argv, "--mode", "tone");
    const long seed = std::atol(vh::arg(argc, argv, "--seed", "1"));
    const long budget = std::atol(vh::arg(argc, argv, "--budget", "50"));
    FILE* f = vh::open_out(vh::arg(argc, argv, "--out", "/dev/stdout"));
    Json js(f);
    js.flush_each = false;
    vh::Rng rng(seed);
    if (mode == "tone") {
        run_tone(js, rng, budget);
    } else if (mode == "power") {
        run_power(js, rng, budget);
    } else if (mode == "cohere") {
        run_cohere(js, rng, budget);
    } else {
        return 3;
    }
    js.flush();
    std::fclose(f);
    return 0;
}
