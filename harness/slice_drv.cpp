// Conformance driver for Slice.tla (C04; also feeds C05).
// Enumerates slice requests on real arrays of the library and logs what the
// implementation did; Trace_Slice.tla (TLC) decides whether that is allowed.
//
//   slice_drv --out trace.ndjson --mode read|assign|pairs|big|random
//             --nmax N --seed S --budget K [--journal file] [--guard 0|1]
#include "common.h"
#include <dsplib.h>
#include <utility>

using namespace dsplib;
using vh::Json;

static FILE* g_journal = nullptr;
static bool g_guard = true;
static const int GUARD = 24;
static const double GUARDVAL = -777;

static void journal(const char* fmt, ...) {
    if (!g_journal) {
        return;
    }
    va_list ap;
    va_start(ap, fmt);
    std::rewind(g_journal);
    std::vfprintf(g_journal, fmt, ap);
    std::fputs("                                        \n", g_journal);
    std::fflush(g_journal);
    va_end(ap);
}

template<class T>
struct Elem;
template<>
struct Elem<real_t>
{
    static real_t make(long tag) {
        return real_t(tag);
    }
    static long tag(const real_t& v) {
        return vh::as_int(v);
    }
    static const char* name() {
        return "real";
    }
};
template<>
struct Elem<cmplx_t>
{
    static cmplx_t make(long tag) {
        return cmplx_t(real_t(tag), real_t(tag + 1000));
    }
    static long tag(const cmplx_t& v) {
        if (v.im != v.re + 1000) {
            return (1L << 30) - 2;
        }
        return vh::as_int(v.re);
    }
    static const char* name() {
        return "cmplx";
    }
};

// array of n tagged elements 1..n; with a guard zone behind it when g_guard (rel flavour)
template<class T>
static base_array<T> fresh(int n, long base = 0) {
    std::vector<T> v;
    if (g_guard) {
        v.reserve(n + GUARD);
        v.resize(n + GUARD, Elem<T>::make((long)GUARDVAL));
        v.resize(n);
    } else {
        v.resize(n);
    }
    for (int i = 0; i < n; ++i) {
        v[i] = Elem<T>::make(base + i + 1);
    }
    return base_array<T>(std::move(v));
}

template<class T>
static bool guard_ok(const base_array<T>& a) {
    if (!g_guard) {
        return true;
    }
    const T* p = a.data() + a.size();
    const auto& vec = a.to_vec();
    if ((int)vec.capacity() < a.size() + GUARD) {
        return true;   // storage was reallocated by the library (length change): nothing to check
    }
    for (int i = 0; i < GUARD; ++i) {
        if (Elem<T>::tag(p[i]) != (long)GUARDVAL) {
            return false;
        }
    }
    return true;
}

template<class T>
static std::vector<long> tags(const base_array<T>& a) {
    std::vector<long> r(a.size());
    for (int i = 0; i < a.size(); ++i) {
        r[i] = Elem<T>::tag(a[i]);
    }
    return r;
}

struct Obs
{
    std::string o;            // ret / throw
    std::vector<long> vals;   // values read
    bool operator==(const Obs& r) const {
        return o == r.o && vals == r.vals;
    }
};

template<class F>
static Obs observe(F&& f) {
    Obs r;
    try {
        r.vals = f();
        r.o = "ret";
    } catch (const std::exception&) {
        r.o = "throw";
        r.vals.clear();
    }
    return r;
}

template<class S>
static std::vector<long> iter_tags(const S& s) {
    using T = typename S::const_iterator::value_type;
    std::vector<long> r;
    int guard = 0;
    for (auto it = s.begin(); it != s.end(); ++it) {
        r.push_back(Elem<T>::tag(*it));
        if (++guard > 100000) {
            break;
        }
    }
    return r;
}

// the same traversal with the postfix operators (*it++ forwards, *it-- backwards from the last element)
template<class S>
static std::vector<long> iter_tags_post(const S& s) {
    using T = typename S::const_iterator::value_type;
    std::vector<long> r;
    const long cnt = (long)s.size();
    auto it = s.begin();
    for (long k = 0; k < cnt; ++k) {
        r.push_back(Elem<T>::tag(*it++));
    }
    return r;
}
template<class S>
static std::vector<long> iter_tags_back(const S& s) {
    using T = typename S::const_iterator::value_type;
    std::vector<long> r;
    const long cnt = (long)s.size();
    if (cnt == 0) {
        return r;
    }
    auto it = s.begin();
    for (long k = 0; k + 1 < cnt; ++k) {
        ++it;
    }
    for (long k = 0; k < cnt; ++k) {
        if (k + 1 < cnt) {
            r.push_back(Elem<T>::tag(*it--));
        } else {
            r.push_back(Elem<T>::tag(*it));
        }
    }
    std::reverse(r.begin(), r.end());
    return r;
}

// all the ways of reading x.slice(i1,i2,m); returns (name, observation) list
template<class T>
static std::vector<std::pair<std::string, Obs>> read_variants(int n, int i1, int i2, int m, Obs* after) {
    std::vector<std::pair<std::string, Obs>> res;
    base_array<T> x = fresh<T>(n);
    const base_array<T>& cx = x;
    const int r2 = (i2 < 0) ? (n + i2) : i2;
    auto add = [&](const char* nm, Obs o) {
        res.emplace_back(nm, std::move(o));
    };
    add("mut.iter", observe([&] { auto s = x.slice(i1, i2, m); return iter_tags(s); }));
    add("const.iter", observe([&] { auto s = cx.slice(i1, i2, m); return iter_tags(s); }));
    add("mut.iter.post", observe([&] { auto s = x.slice(i1, i2, m); return iter_tags_post(s); }));
    add("const.iter.post", observe([&] { auto s = cx.slice(i1, i2, m); return iter_tags_post(s); }));
    add("const.iter.back", observe([&] { auto s = cx.slice(i1, i2, m); return iter_tags_back(s); }));
    add("mut.mat", observe([&] { auto s = x.slice(i1, i2, m); base_array<T> y(s); return tags(y); }));
    add("const.mat", observe([&] { auto s = cx.slice(i1, i2, m); base_array<T> y(s); return tags(y); }));
    add("const.deref", observe([&] { base_array<T> y = *cx.slice(i1, i2, m); return tags(y); }));
    add("mut.copy", observe([&] { auto s = x.slice(i1, i2, m); slice_t<T> c(s); return iter_tags(c); }));
    add("const.copy", observe([&] { auto s = cx.slice(i1, i2, m); const_slice_t<T> c(s); return iter_tags(c); }));
    add("const.from_mut", observe([&] { auto s = x.slice(i1, i2, m); const_slice_t<T> c(s); return iter_tags(c); }));
    add("const.copy.mat", observe([&] { auto s = cx.slice(i1, i2, m); const_slice_t<T> c(s); base_array<T> y(c); return tags(y); }));
    // assignment of the slice to an existing array: another one, and the very array the slice views
    add("assign.other", observe([&] { base_array<T> y = fresh<T>(n + 1, 100); y = cx.slice(i1, i2, m); return tags(y); }));
    add("assign.self", observe([&] { base_array<T> z(x); z = z.slice(i1, i2, m); return tags(z); }));
    add("assign.self.const", observe([&] { base_array<T> z(x); const base_array<T>& cz = z; z = cz.slice(i1, i2, m); return tags(z); }));
    if (i2 >= 0 && r2 == n) {
        add("mut.end", observe([&] { auto s = x.slice(i1, indexing::end, m); return iter_tags(s); }));
        add("const.end", observe([&] { auto s = cx.slice(i1, indexing::end, m); return iter_tags(s); }));
    }
    after->o = guard_ok(x) ? "ok" : "guard";
    after->vals = tags(x);
    return res;
}

static void emit_read(Json& js, const char* et, const std::string& via, int n, int i1, int i2, int m, int nvar,
                      const Obs& o, const Obs& after) {
    js.begin("Read").str("et", et).str("via", via).num("n", n).num("i1", i1).num("i2", i2).num("m", m)
      .num("nvar", nvar).str("o", o.o).arr("vals", o.vals).arr("arr", after.vals).str("guard", after.o).end();
}

template<class T>
static void do_read(Json& js, int n, int i1, int i2, int m) {
    journal("Read et=%s n=%d i1=%d i2=%d m=%d", Elem<T>::name(), n, i1, i2, m);
    Obs after;
    auto v = read_variants<T>(n, i1, i2, m, &after);
    bool agree = true;
    for (auto& p : v) {
        agree = agree && (p.second == v[0].second);
    }
    if (agree) {
        emit_read(js, Elem<T>::name(), "all", n, i1, i2, m, (int)v.size(), v[0].second, after);
    } else {
        for (auto& p : v) {
            emit_read(js, Elem<T>::name(), p.first, n, i1, i2, m, 1, p.second, after);
        }
    }
}

// ---------------------------------------------------------------- assignments
template<class T, size_t... I>
static void assign_list_n(slice_t<T> s, const std::vector<T>& v, std::index_sequence<I...>) {
    s = {v[I]...};
}

template<class T>
static void assign_list(slice_t<T> s, const std::vector<T>& v) {
    switch (v.size()) {
#define C(N)                                                                                                           \
    case N:                                                                                                            \
        assign_list_n<T>(s, v, std::make_index_sequence<N>{});                                                        \
        break;
        C(0) C(1) C(2) C(3) C(4) C(5) C(6) C(7) C(8) C(9) C(10) C(11) C(12) C(13) C(14) C(15) C(16)
#undef C
    default:
        throw std::logic_error("driver: list too long");
    }
}

template<class T>
struct AssignCtx
{
    base_array<T> x;
    bool live{false};
};

template<class T>
static void log_assign(Json& js, const char* kind, bool fresh_, int n, int d1, int d2, int dm, const char* o,
                       const base_array<T>& x, const std::vector<long>& rhs, int s1, int s2, int sm, int sn) {
    js.begin("Assign").str("kind", kind).str("et", Elem<T>::name()).boolean("fresh", fresh_).num("n", n)
      .num("i1", d1).num("i2", d2).num("m", dm).arr("rhs", rhs).num("s1", s1).num("s2", s2).num("sm", sm)
      .num("sn", sn).str("o", o).arr("arr", tags(x)).str("guard", guard_ok(x) ? "ok" : "guard").end();
}

// kind: scalar(v=rhs[0]) | array | list | same | other | other_arr(slice = whole other array)
template<class T>
static void do_assign(Json& js, AssignCtx<T>& ctx, const char* kind, bool fresh_, int n, int d1, int d2, int dm,
                      const std::vector<long>& rhs, int s1 = 0, int s2 = 0, int sm = 1, int sn = 0) {
    journal("Assign kind=%s et=%s n=%d d=(%d,%d,%d) rhs=%zu s=(%d,%d,%d) sn=%d", kind, Elem<T>::name(), n, d1, d2, dm,
            rhs.size(), s1, s2, sm, sn);
    if (fresh_ || !ctx.live || ctx.x.size() != n) {
        ctx.x = fresh<T>(n);
        ctx.live = true;
        fresh_ = true;
    }
    auto& x = ctx.x;
    std::string k = kind;
    std::vector<T> rv;
    for (long t : rhs) {
        rv.push_back(Elem<T>::make(t));
    }
    const char* o = vh::outcome([&] {
        if (k == "scalar") {
            x.slice(d1, d2, dm) = rv.at(0);
        } else if (k == "array") {
            base_array<T> r(rv);
            x.slice(d1, d2, dm) = r;
        } else if (k == "list") {
            assign_list<T>(x.slice(d1, d2, dm), rv);
        } else if (k == "same") {
            x.slice(d1, d2, dm) = x.slice(s1, s2, sm);
        } else if (k == "same_c") {
            const base_array<T>& cx = x;
            x.slice(d1, d2, dm) = cx.slice(s1, s2, sm);
        } else if (k == "other") {
            base_array<T> src = fresh<T>(sn, 100);
            x.slice(d1, d2, dm) = src.slice(s1, s2, sm);
        } else {
            throw std::logic_error("driver: kind");
        }
    });
    log_assign<T>(js, kind, fresh_, n, d1, d2, dm, o, x, rhs, s1, s2, sm, sn);
}

struct Trip
{
    int i1, i2, m;
};

static bool rejects(int n, int i1, int i2, int m) {
    if (n == 0 || m == 0 || i1 < -n || i1 > n - 1 || i2 < -n || i2 > n) {
        return true;
    }
    int r1 = i1 < 0 ? n + i1 : i1, r2 = i2 < 0 ? n + i2 : i2;
    return (m > 0 && r1 > r2) || (m < 0 && r1 < r2);
}
static int count_of(int n, int i1, int i2, int m) {
    int r1 = i1 < 0 ? n + i1 : i1, r2 = i2 < 0 ? n + i2 : i2;
    int d = std::abs(r2 - r1), tm = std::abs(m);
    return (d + tm - 1) / tm;
}

// canonical accepted slices of an n-array (non-negative indices)
static std::vector<Trip> canon_slices(int n, int stepmax) {
    std::vector<Trip> r;
    for (int i1 = 0; i1 < n; ++i1) {
        for (int i2 = 0; i2 <= n; ++i2) {
            for (int m = -stepmax; m <= stepmax; ++m) {
                if (m != 0 && !rejects(n, i1, i2, m)) {
                    r.push_back({i1, i2, m});
                }
            }
        }
    }
    return r;
}

template<class T>
static void run_assign(Json& js, int nmax, vh::Rng& rng, long budget) {
    AssignCtx<T> ctx;
    long done = 0;
    for (int n = 0; n <= nmax; ++n) {
        for (int i1 = -n - 2; i1 <= n + 2; ++i1) {
            for (int i2 = -n - 2; i2 <= n + 2; ++i2) {
                for (int m = -3; m <= 3; ++m) {
                    if (budget > 0 && done > budget && rng.range(0, 9) != 0) {
                        continue;
                    }
                    const bool rej = rejects(n, i1, i2, m);
                    const int cnt = rej ? 1 : count_of(n, i1, i2, m);
                    do_assign<T>(js, ctx, "scalar", true, n, i1, i2, m, {50});
                    for (int dl : {-1, 0, 1, 3}) {
                        int len = cnt + dl;
                        if (len < 0 || len > 16) {
                            continue;
                        }
                        std::vector<long> rhs;
                        for (int k = 0; k < len; ++k) {
                            rhs.push_back(60 + k);
                        }
                        do_assign<T>(js, ctx, "array", true, n, i1, i2, m, rhs);
                        do_assign<T>(js, ctx, "list", true, n, i1, i2, m, rhs);
                        if (rej) {
                            break;
                        }
                    }
                    ++done;
                }
            }
        }
    }
}

template<class T>
static void run_pairs(Json& js, int nmax, int stepmax, vh::Rng& rng, long budget) {
    AssignCtx<T> ctx;
    for (int n = 1; n <= nmax; ++n) {
        auto sl = canon_slices(n, stepmax);
        long total = (long)sl.size() * sl.size();
        for (auto& d : sl) {
            for (auto& s : sl) {
                const bool eq = count_of(n, d.i1, d.i2, d.m) == count_of(n, s.i1, s.i2, s.m);
                if (!eq && rng.range(0, 15) != 0) {
                    continue;   // unequal counts: sampled (must throw, nothing written)
                }
                if (budget > 0 && total > budget && rng.range(0, total / budget) != 0) {
                    continue;
                }
                do_assign<T>(js, ctx, rng.coin() ? "same" : "same_c", true, n, d.i1, d.i2, d.m, {}, s.i1, s.i2, s.m);
            }
        }
    }
}

template<class T>
static void run_other(Json& js, int nmax, vh::Rng& rng, long budget) {
    AssignCtx<T> ctx;
    for (long k = 0; k < budget; ++k) {
        int n = (int)rng.range(1, nmax), sn = (int)rng.range(1, nmax);
        auto dl = canon_slices(n, 3);
        auto sl = canon_slices(sn, 3);
        auto d = dl[rng.range(0, dl.size() - 1)];
        // prefer equal counts
        Trip s = sl[rng.range(0, sl.size() - 1)];
        for (int t = 0; t < 20 && count_of(sn, s.i1, s.i2, s.m) != count_of(n, d.i1, d.i2, d.m) && rng.range(0, 7) != 0; ++t) {
            s = sl[rng.range(0, sl.size() - 1)];
        }
        do_assign<T>(js, ctx, "other", true, n, d.i1, d.i2, d.m, {}, s.i1, s.i2, s.m, sn);
    }
}

// random op sequences carrying state (no reset between ops)
template<class T>
static void run_random(Json& js, int nmax, vh::Rng& rng, long budget) {
    AssignCtx<T> ctx;
    for (long k = 0; k < budget;) {
        int n = (int)rng.range(1, nmax);
        int len = (int)rng.range(2, 8);
        for (int j = 0; j < len; ++j, ++k) {
            int i1 = (int)rng.range(-n - 1, n), i2 = (int)rng.range(-n - 1, n + 1), m = (int)rng.range(-3, 3);
            if (rng.range(0, 3) != 0) {   // bias toward accepted requests
                auto sl = canon_slices(n, 3);
                auto t = sl[rng.range(0, sl.size() - 1)];
                i1 = t.i1, i2 = t.i2, m = t.m;
                if (rng.coin() && i1 > 0) {
                    i1 -= n;
                }
                if (rng.coin() && i2 > 0 && i2 < n) {
                    i2 -= n;
                }
            }
            int cnt = rejects(n, i1, i2, m) ? 1 : count_of(n, i1, i2, m);
            switch (rng.range(0, 4)) {
            case 0:
                do_assign<T>(js, ctx, "scalar", j == 0, n, i1, i2, m, {long(200 + k % 50)});
                break;
            case 1:
            case 2: {
                std::vector<long> rhs;
                int l = cnt + (rng.range(0, 4) == 0 ? (int)rng.range(-1, 1) : 0);
                for (int q = 0; q < std::max(0, std::min(l, 16)); ++q) {
                    rhs.push_back(300 + q + k % 17);
                }
                do_assign<T>(js, ctx, rng.coin() ? "array" : "list", j == 0, n, i1, i2, m, rhs);
                break;
            }
            default: {
                auto sl = canon_slices(n, 3);
                auto s = sl[rng.range(0, sl.size() - 1)];
                for (int t = 0; t < 20 && count_of(n, s.i1, s.i2, s.m) != cnt; ++t) {
                    s = sl[rng.range(0, sl.size() - 1)];
                }
                do_assign<T>(js, ctx, "same", j == 0, n, i1, i2, m, {}, s.i1, s.i2, s.m);
            }
            }
        }
    }
}

// large arrays: identity content, closed-form checks
template<class T>
static void run_big(Json& js, vh::Rng& rng, long budget) {
    for (long k = 0; k < budget; ++k) {
        int n = (int)std::pow(10.0, 1 + 4 * rng.unif());
        int i1, i2, m;
        if (rng.range(0, 5) == 0) {
            i1 = (int)rng.range(-n - 2, n + 1), i2 = (int)rng.range(-n - 2, n + 2), m = (int)rng.range(-5, 5);
        } else {
            i1 = (int)rng.range(0, n - 1), i2 = (int)rng.range(0, n);
            m = (int)rng.range(1, rng.coin() ? 7 : n);
            if (i1 > i2) {
                m = -m;
            }
            if (rng.coin()) {
                i1 -= n;
            }
            if (rng.coin() && i2 < n) {
                i2 -= n;
            }
        }
        journal("Big et=%s n=%d i1=%d i2=%d m=%d", Elem<T>::name(), n, i1, i2, m);
        base_array<T> x = fresh<T>(n);
        std::vector<long> got;
        const char* o = vh::outcome([&] {
            base_array<T> y = x.slice(i1, i2, m);
            got = tags(y);
        });
        long cnt = (long)got.size();
        std::vector<long> pos, val;
        if (cnt > 0) {
            for (long p : {0L, cnt / 3, cnt / 2, cnt - 1, (long)rng.range(0, cnt - 1)}) {
                pos.push_back(p);
                val.push_back(got[p]);
            }
        }
        // write through it as well: x.slice = 0-tag scalar, then count how many changed and where
        long changed = 0, firstc = -1, lastc = -1;
        const char* o2 = vh::outcome([&] { x.slice(i1, i2, m) = Elem<T>::make(0); });
        for (int i = 0; i < n; ++i) {
            if (Elem<T>::tag(x[i]) != i + 1) {
                ++changed;
                if (firstc < 0) {
                    firstc = i;
                }
                lastc = i;
            }
        }
        js.begin("Big").str("et", Elem<T>::name()).num("n", n).num("i1", i1).num("i2", i2).num("m", m).str("o", o)
          .num("cnt", cnt).arr("pos", pos).arr("val", val).str("o2", o2).num("changed", changed)
          .num("firstc", firstc).num("lastc", lastc).str("guard", guard_ok(x) ? "ok" : "guard").end();
    }
}

// same-array assignments with more than 64 elements and overlapping lattices (n up to 600, strides 1..3, both signs)
template<class T>
static void run_bigsame(Json& js, vh::Rng& rng, long budget) {
    AssignCtx<T> ctx;
    for (long k = 0; k < budget; ++k) {
        const int am = (int)rng.range(1, 3);
        const int n = (int)rng.range(std::max(150, 8 + 68 * am), 600);   // room for at least 65 elements at this stride
        const int cnt = (int)rng.range(65, (n - 8) / am - 1);
        const int shift = (int)rng.range(-6, 6);
        const bool neg = rng.coin();
        const int m = neg ? -am : am;
        const int lo = (int)rng.range(7, n - 8 - am * (cnt - 1) - 1 > 7 ? n - 8 - am * (cnt - 1) - 1 : 7);
        auto mk = [&](int first_lo) {   // slice covering first_lo, first_lo + am, ..., cnt elements, in the direction of m
            Trip t;
            if (!neg) {
                t.i1 = first_lo, t.i2 = first_lo + am * (cnt - 1) + 1, t.m = m;
            } else {
                t.i1 = first_lo + am * (cnt - 1), t.i2 = first_lo - 1, t.m = m;
            }
            return t;
        };
        const Trip d = mk(lo), s = mk(lo + shift);
        if (rejects(n, d.i1, d.i2, d.m) || rejects(n, s.i1, s.i2, s.m) || count_of(n, d.i1, d.i2, d.m) != count_of(n, s.i1, s.i2, s.m)) {
            continue;
        }
        do_assign<T>(js, ctx, rng.coin() ? "same" : "same_c", true, n, d.i1, d.i2, d.m, {}, s.i1, s.i2, s.m);
    }
}

int main(int argc, char** argv) {
    const std::string mode = vh::arg(argc, argv, "--mode", "read");
    const int nmax = std::atoi(vh::arg(argc, argv, "--nmax", "10"));
    const long seed = std::atol(vh::arg(argc, argv, "--seed", "1"));
    const long budget = std::atol(vh::arg(argc, argv, "--budget", "0"));
    g_guard = std::atoi(vh::arg(argc, argv, "--guard", "1")) != 0;
    const char* jp = vh::arg(argc, argv, "--journal", "");
    if (*jp) {
        g_journal = std::fopen(jp, "w");
    }
    FILE* f = vh::open_out(vh::arg(argc, argv, "--out", "/dev/stdout"));
    Json js(f);
    vh::Rng rng(seed);

    if (mode == "read") {
        for (int n = 0; n <= nmax; ++n) {
            for (int i1 = -n - 3; i1 <= n + 3; ++i1) {
                for (int i2 = -n - 3; i2 <= n + 3; ++i2) {
                    for (int m = -5; m <= 5; ++m) {
                        do_read<real_t>(js, n, i1, i2, m);
                        do_read<cmplx_t>(js, n, i1, i2, m);
                    }
                }
            }
        }
    } else if (mode == "assign") {
        run_assign<real_t>(js, nmax, rng, budget);
        run_assign<cmplx_t>(js, nmax, rng, budget);
    } else if (mode == "pairs") {
        run_pairs<real_t>(js, nmax, 3, rng, budget);
        run_pairs<cmplx_t>(js, std::min(nmax, 6), 3, rng, budget);
    } else if (mode == "other") {
        run_other<real_t>(js, nmax, rng, budget);
        run_other<cmplx_t>(js, nmax, rng, budget);
    } else if (mode == "random") {
        run_random<real_t>(js, nmax, rng, budget);
        run_random<cmplx_t>(js, nmax, rng, budget);
    } else if (mode == "big") {
        run_big<real_t>(js, rng, budget);
        run_big<cmplx_t>(js, rng, budget / 4);
        run_bigsame<real_t>(js, rng, std::max<long>(20, budget / 20));
        run_bigsame<cmplx_t>(js, rng, std::max<long>(10, budget / 40));
    } else {
        std::fprintf(stderr, "unknown mode\n");
        return 3;
    }
    js.flush();
    std::fclose(f);
    return 0;
}
