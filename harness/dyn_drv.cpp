// Conformance driver for Trace_Dynamics.tla (C20): compressor, limiter, noise gate, AGC.
#include "common.h"
#include <dsplib.h>
using namespace dsplib;
using vh::Json;

static long mdb(double gain_lin) {   // gain in milli-dB, rounded
    if (!(gain_lin > 0)) {
        return -(1L << 29);
    }
    return (long)std::llround(20.0 * std::log10(gain_lin) * 1000.0);
}

// static characteristic with zero attack / release: one event per configuration, levels on a cB grid
static void run_static(Json& js, vh::Rng& rng, long budget) {
    for (long t = 0; t < budget; ++t) {
        const bool lim = rng.coin();
        const int T = (int)rng.range(-50, 0), R = lim ? 0 : (int)rng.range(1, 50), W = (int)rng.range(0, 20) * (rng.range(0, 3) != 0);
        const int Wc = 100 * W;
        std::vector<long> vs;
        // 0.01 dB grid around both knee edges, 0.1 .. 1 dB elsewhere between -100 dB and +20 dB absolute
        for (int edge : {-Wc / 2, Wc / 2}) {
            for (int d = -25; d <= 25; ++d) {
                vs.push_back(edge + d);
            }
        }
        for (int x = -10000; x <= 2000; x += (int)rng.range(7, 40)) {
            vs.push_back(x - 100 * T);   // v = x - T in cB
        }
        for (int q = 0; q < 40 && Wc > 0; ++q) {
            vs.push_back(rng.range(-Wc / 2, Wc / 2));
        }
        std::vector<long> qs;
        for (long v : vs) {
            const double xdb = T + v / 100.0;
            const double amp = std::pow(10.0, xdb / 20.0);
            arr_real x = {amp, -amp, amp};
            double g = 0;
            if (lim) {
                Limiter p(48000, (double)T, (double)W, 0.0, 0.0);
                g = p.process(x).gain[2];
            } else {
                Compressor p(48000, (double)T, R, (double)W, 0.0, 0.0);
                g = p.process(x).gain[2];
            }
            qs.push_back(mdb(g));
        }
        js.begin("Static").str("proc", lim ? "lim" : "comp").num("T", T).num("R", R).num("W", W).arr("vs", vs).arr("qs", qs).end();
        // the same levels through ONE object, one sample per level in shuffled order (alternating sign): with zero attack and
        // release every sample's gain is the static characteristic of that sample's own level, whatever came before
        {
            std::vector<long> ws = vs;
            for (size_t i = ws.size(); i > 1; --i) {
                std::swap(ws[i - 1], ws[rng.range(0, (long)i - 1)]);
            }
            arr_real x((int)ws.size());
            for (int i = 0; i < x.size(); ++i) {
                x[i] = std::pow(10.0, (T + ws[i] / 100.0) / 20.0) * ((i % 2) ? -1 : 1);
            }
            arr_real g;
            if (lim) {
                Limiter p(48000, (double)T, (double)W, 0.0, 0.0);
                g = p.process(x).gain;
            } else {
                Compressor p(48000, (double)T, R, (double)W, 0.0, 0.0);
                g = p.process(x).gain;
            }
            std::vector<long> q2;
            for (int i = 0; i < g.size(); ++i) {
                q2.push_back(mdb(g[i]));
            }
            js.begin("Static").str("proc", lim ? "lim" : "comp").num("T", T).num("R", R).num("W", W).arr("vs", ws).arr("qs", q2).end();
        }
    }
}

static arr_real wild_signal(vh::Rng& rng, int n) {
    arr_real x(n);
    double level = 1;
    int shape = 0, half = 1;   // 0 noise with outliers, 1 square wave (constant magnitude), 2 DC step
    for (int i = 0; i < n; ++i) {
        if (rng.range(0, 200) == 0) {
            const int k = (int)rng.range(0, 5);
            level = k == 0 ? 0.0 : k == 1 ? 10.0 : std::pow(10.0, -5 + 6 * rng.unif());
            shape = (int)rng.range(0, 3) % 3, half = (int)rng.range(1, 40);
        }
        x[i] = shape == 1 ? (((i / half) % 2) ? -level : level) : shape == 2 ? level
               : (rng.range(0, 30) == 0) ? level * 3 : level * rng.gauss();
    }
    return x;
}

static void run_range(Json& js, vh::Rng& rng, long budget, int n) {
    for (long t = 0; t < budget; ++t) {
        const int fs = (int)rng.range(8000, 192000);
        const double T = -50 + 50 * rng.unif(), W = rng.coin() ? 0.0 : 20 * rng.unif();
        const double at = rng.range(0, 3) == 0 ? 0.0 : 4 * std::pow(rng.unif(), 4), rt = rng.range(0, 3) == 0 ? 0.0 : 4 * std::pow(rng.unif(), 4);
        const arr_real x = wild_signal(rng, n);
        const int which = (int)rng.range(0, 3);
        arr_real gain, out;
        const char* nm = "";
        double thr_lin = 0;
        bool zero_attack = false;
        // half of the runs stream the signal through in frames of random length (the bounds hold sample by sample, however the
        // stream is cut)
        const bool framed = rng.coin();
        auto feed = [&](auto& p) {
            if (!framed) {
                auto r = p.process(x);
                gain = r.gain, out = r.out;
                return;
            }
            gain = arr_real(n), out = arr_real(n);
            for (int pos = 0; pos < n;) {
                const int fl = (int)std::min<long>(n - pos, rng.coin() ? rng.range(1, 16) : rng.range(1, 700));
                auto r = p.process(arr_real(x.slice(pos, pos + fl)));
                for (int i = 0; i < fl; ++i) {
                    gain[pos + i] = r.gain[i], out[pos + i] = r.out[i];
                }
                pos += fl;
            }
        };
        if (which == 0) {
            Compressor p(fs, T, (int)rng.range(1, 50), W, at, rt);
            feed(p);
            nm = "comp";
        } else if (which == 1) {
            Limiter p(fs, T, W, 0.0, rt);
            feed(p);
            nm = "lim0", thr_lin = std::pow(10.0, T / 20.0), zero_attack = true;
        } else if (which == 2) {
            Limiter p(fs, T, W, at, rt);
            feed(p);
            nm = "lim";
        } else {
            NoiseGate p(fs, -140 + 140 * rng.unif(), at, rt, 4 * std::pow(rng.unif(), 6));
            feed(p);
            nm = "gate";
        }
        bool glo = true, ghi = true, ceil_ok = true, outeq = true;
        for (int i = 0; i < n; ++i) {
            glo = glo && (gain[i] >= 0);
            ghi = ghi && (gain[i] <= 1.0 + 4 * 2.22e-16);
            outeq = outeq && (out[i] == x[i] * gain[i]);
            if (zero_attack) {
                ceil_ok = ceil_ok && (std::fabs(out[i]) <= thr_lin * (1 + 1e-12));
            }
        }
        js.begin("Range").str("proc", nm).num("n", n).boolean("glo", glo).boolean("ghi", ghi).boolean("ceil", ceil_ok)
          .boolean("outeq", outeq).end();
    }
}

static void run_gate(Json& js, vh::Rng& rng, long budget) {
    for (long t = 0; t < budget; ++t) {
        const int hold = (int)rng.range(0, 6);
        const int fs = 1000;
        const double thr = -40 + 30 * rng.unif();
        NoiseGate p(fs, thr, 0.0, 0.0, (hold + 0.5) / fs);
        const double tlin = db2mag(thr);
        const int n = (int)rng.range(5, 60);
        std::vector<long> xs, gs;
        arr_real x(n);
        bool above = rng.coin();
        for (int i = 0; i < n; ++i) {
            if (rng.range(0, 3) == 0) {
                above = !above;
            }
            const int k = (int)rng.range(0, 5);
            x[i] = above ? (k == 0 ? tlin : tlin * (1.5 + rng.unif())) : (k == 0 ? 0.0 : tlin * 0.9 * rng.unif());
            if (rng.coin()) {
                x[i] = -x[i];
            }
            xs.push_back(above ? 1 : 0);
        }
        // feed in random frames
        int pos = 0;
        while (pos < n) {
            const int fl = (int)std::min<long>(n - pos, rng.range(1, 9));
            auto r = p.process(arr_real(x.slice(pos, pos + fl)));
            for (int i = 0; i < fl; ++i) {
                gs.push_back(r.gain[i] == 0.0 ? 0 : r.gain[i] == 1.0 ? 1 : -1);
            }
            pos += fl;
        }
        js.begin("Gate").num("hold", hold).arr("xs", xs).arr("gains", gs).end();
        // the same kind of pattern through a gate with non-zero opening / closing times and a hold: bursts shorter than the
        // opening time leave the gate partly open when the level drops.  Whatever the smoothing does, the gain never rises
        // while the input is below the threshold (target 0) and never falls while it is at or above it (target 1).
        {
            const int fs2 = 1000, hold2 = (int)rng.range(0, 8);
            NoiseGate q(fs2, thr, (1.5 + 20 * rng.unif()) / fs2, (1.5 + 20 * rng.unif()) / fs2, (hold2 + 0.5) / fs2);
            const int n2 = (int)rng.range(40, 200);
            std::vector<long> xs2, dir;
            arr_real x2(n2);
            bool ab = rng.coin();
            for (int i = 0; i < n2; ++i) {
                if (rng.range(0, 4) == 0) {
                    ab = !ab;
                }
                x2[i] = (ab ? tlin * (1.0 + rng.unif()) : tlin * 0.9 * rng.unif()) * (rng.coin() ? 1 : -1);
                xs2.push_back(ab ? 1 : 0);
            }
            double prev = 0;   // a new gate is closed
            bool inrange = true;
            int pos2 = 0;
            while (pos2 < n2) {
                const int fl = (int)std::min<long>(n2 - pos2, rng.range(1, 30));
                auto r = q.process(arr_real(x2.slice(pos2, pos2 + fl)));
                for (int i = 0; i < fl; ++i) {
                    const double g = r.gain[i];
                    inrange = inrange && g >= 0 && g <= 1;
                    dir.push_back(g > prev ? 1 : (g < prev ? -1 : 0));
                    prev = g;
                }
                pos2 += fl;
            }
            js.begin("GateDyn").num("hold", hold2).arr("xs", xs2).arr("dir", dir).boolean("inrange", inrange).end();
        }
    }
}

// attack / release timing from the step response of the smoothed gain
static void run_step(Json& js, vh::Rng& rng, long budget) {
    static const int FS[] = {8000, 16000, 44100, 48000, 96000, 192000};
    for (long t = 0; t < budget; ++t) {
        const int fs = FS[rng.range(0, 5)];
        long t_us = (long)(std::pow(10.0, 3 + 2.3 * rng.unif()));   // 1 ms .. 200 ms
        if (rng.range(0, 2) == 0) {
            // a few samples only, and not a whole number of them: fs * t in 1.2 .. 40
            t_us = (long)((1.2 + 38.8 * rng.unif() * rng.unif()) / fs * 1e6);
        }
        const double tt = t_us * 1e-6;
        const int which = (int)rng.range(0, 2);
        const bool attack = rng.coin();
        const int n = (int)(fs * tt * 6) + 200;
        arr_real lo(200), hi(n);
        const char* nm = "";
        arr_real g;   // quantity that is smoothed by the one-pole: gain in dB (comp/lim) or linear gain (gate)
        if (which < 2) {
            const double T = -20;
            // release toward either a quiet signal or digital silence (exact zeros)
            const double quiet = rng.coin() ? 0.001 : 0.0;
            std::fill(lo.begin(), lo.end(), attack ? 0.001 : 1.0);    // -60 dB (no reduction) / 0 dB (20 dB over)
            std::fill(hi.begin(), hi.end(), attack ? 1.0 : quiet);
            arr_real gg;
            if (which == 0) {
                Compressor p(fs, T, 4, 0.0, attack ? tt : 0.0, attack ? 0.0 : tt);
                p.process(lo);
                gg = p.process(hi).gain, nm = "comp";
            } else {
                Limiter p(fs, T, 0.0, attack ? tt : 0.0, attack ? 0.0 : tt);
                p.process(lo);
                gg = p.process(hi).gain, nm = "lim";
            }
            g = arr_real(n);
            for (int i = 0; i < n; ++i) {
                g[i] = 20 * std::log10(gg[i]);
            }
        } else {
            // gate: "attack" = closing (after the hold, here 0), "release" = opening
            NoiseGate p(fs, -20.0, attack ? tt : 0.0, attack ? 0.0 : tt, 0.0);
            std::fill(lo.begin(), lo.end(), attack ? 1.0 : 0.0);
            std::fill(hi.begin(), hi.end(), attack ? 0.0 : 1.0);
            p.process(lo);
            g = p.process(hi).gain, nm = "gate";
        }
        const double g0 = (which < 2) ? (attack ? 0.0 : g[0] / 1.0) : (attack ? 1.0 : 0.0);
        // start and final values: take the analytic ones
        double start, final;
        if (which == 0) {
            start = attack ? 0.0 : -15.0, final = attack ? -15.0 : 0.0;   // 20 dB over threshold at ratio 4 -> -15 dB
        } else if (which == 1) {
            start = attack ? 0.0 : -20.0, final = attack ? -20.0 : 0.0;
        } else {
            start = attack ? 1.0 : 0.0, final = attack ? 0.0 : 1.0;
        }
        (void)g0;
        long n10 = -1, n90 = -1;
        bool mono = true;
        for (int i = 0; i < n; ++i) {
            const double frac = (g[i] - start) / (final - start);
            if (n10 < 0 && frac >= 0.1) {
                n10 = i;
            }
            if (n90 < 0 && frac >= 0.9) {
                n90 = i;
            }
            if (i > 0) {
                const double step = (g[i] - g[i - 1]) / (final - start);
                mono = mono && (step >= -1e-12);
            }
            mono = mono && frac <= 1 + 1e-9;
        }
        // the time constant itself: a one-pole approach has a constant ratio w of successive distances to the target, and
        // 10 % -> 90 % takes ln 9 / (-ln w) samples, which must be fs * t (not rounded to whole samples)
        long tau_ppm = -1;
        if (n10 >= 0 && n90 > n10) {
            const double r10 = 1 - (g[(int)n10] - start) / (final - start), r90 = 1 - (g[(int)n90] - start) / (final - start);
            if (r10 > 0 && r90 > 0 && r90 < r10) {
                const double lw = std::log(r90 / r10) / (double)(n90 - n10);
                tau_ppm = (long)std::llround(std::log(9.0) / -lw / (fs * (t_us * 1e-6)) * 1e6);
            }
        }
        js.begin("Step").str("proc", nm).boolean("attack", attack).num("fs", fs).num("t_us", t_us).num("n10", n10).num("n90", n90)
          .boolean("mono", mono).num("tau_ppm", tau_ppm).end();
    }
}

static void run_agc(Json& js, vh::Rng& rng, long budget) {
    for (long t = 0; t < budget; ++t) {
        const double target = std::pow(10.0, -2 + 4 * rng.unif());        // 0.01 .. 100 (power)
        const double maxg = 10 + 90 * rng.unif();                          // dB
        const int alen = (int)std::pow(10.0, 3 * rng.unif());              // 1 .. 1000
        // input level over 80 dB: amplitudes 0.01 .. 100, or (every other pair of cases) the audio-style window 1e-4 .. 1
        const double amp = std::pow(10.0, ((t / 2) % 2 ? -4 : -2) + 4 * rng.unif());
        const int kind = (int)rng.range(0, 2);                             // complex exponential / DC / +-A
        const int n = 60000 + 40 * alen;
        Agc agc(target, maxg, alen, 0.01, 0.01);
        // half of the instances have a past: a loud burst, then digital silence (exact zeros), before the constant-envelope
        // input arrives; the steady state must not depend on it
        if (t % 2 == 1) {
            const int nb = (int)rng.range(300, 3000), nz = (int)rng.range(alen + 10, alen + 6000);
            const double ba = std::pow(10.0, 2 * rng.unif());
            arr_real pre(nb + nz);
            for (int i = 0; i < nb; ++i) {
                pre[i] = ba * std::sin(0.3 * i + 0.1 * t);
            }
            if (kind == 0) {
                (void)agc.process(complex(pre));
            } else {
                (void)agc.process(pre);
            }
        }
        double pout = 0, gmax = 0;
        const int tail = 4000;
        const double inpow = amp * amp;
        if (kind == 0) {
            arr_cmplx x(n);
            const double f = 0.01 + 0.4 * rng.unif();
            for (int i = 0; i < n; ++i) {
                x[i] = cmplx_t(amp * std::cos(2 * pi * f * i), amp * std::sin(2 * pi * f * i));
            }
            auto r = agc.process(x);
            for (int i = 0; i < n; ++i) {
                gmax = std::max(gmax, r.gain[i]);
                if (i >= n - tail) {
                    pout += abs2(r.out[i]) / tail;
                }
            }
        } else {
            arr_real x(n);
            for (int i = 0; i < n; ++i) {
                x[i] = kind == 1 ? amp : ((i / 3) % 2 ? amp : -amp);
            }
            auto r = agc.process(x);
            for (int i = 0; i < n; ++i) {
                gmax = std::max(gmax, r.gain[i]);
                if (i >= n - tail) {
                    pout += r.out[i] * r.out[i] / tail;
                }
            }
        }
        const double need_db = 10 * std::log10(target / inpow);           // power gain needed, dB ( = 20 log10 amplitude gain )
        js.begin("Agc").num("kind", kind).num("alen", alen).num("need_mdb", (long)std::llround(need_db * 1000))
          .num("max_mdb", (long)std::llround(maxg * 1000)).num("ratio_ppm", (long)std::llround(std::min(1e9, 1e6 * pout / target)))
          .num("gmax_mdb", (long)std::llround(20 * std::log10(gmax) * 1000)).end();
    }
}

// X03: the gain loop sample by sample.  Averaging length 1 and constant-magnitude input per frame make the power estimate
// known (|x|^2 + eps); the trace carries ln-quantities in micro-nepers and the ln of the gain applied to the last sample of
// every frame.  Step sizes are reciprocals of small integers so that the fixed-point model can divide instead of multiply.
static void run_agcloop(Json& js, vh::Rng& rng, long budget) {
    static const int RS[] = {20, 25, 40, 50, 100, 200, 500};
    const double U = 1e6;
    for (long t = 0; t < budget; ++t) {
        const double target = std::pow(10.0, -2 + 4 * rng.unif());
        const double maxg = 10 + 80 * rng.unif();
        const int rr = RS[rng.range(0, 6)], rf = (t % 3 == 0) ? RS[rng.range(0, 6)] : rr;
        Agc agc(target, maxg, 1, 1.0 / rr, 1.0 / rf);
        js.begin("AgcNew").num("unit", (long)U).num("target", (long)std::llround(std::log(target) * U))
          .num("gmax", (long)std::llround(std::log(std::pow(10, maxg / 20)) * U)).num("rr", rr).num("rf", rf).num("g0", (long)U).end();
        // each process() call carries 1..3 segments of constant magnitude (the level may switch inside a call); one AgcFrame
        // per segment, with the gain applied to the segment's last sample
        const int ncalls = (int)rng.range(3, 8);
        for (int f = 0; f < ncalls; ++f) {
            const int nseg = (int)rng.range(1, 3);
            const bool cplx = rng.coin();
            std::vector<int> ends;
            std::vector<double> lev;
            std::vector<cmplx_t> xs;
            for (int sg = 0; sg < nseg; ++sg) {
                const int n = (int)rng.range(1, 160);
                const bool silent = rng.range(0, 5) == 0;
                const double A = silent ? 0.0 : std::pow(10.0, -4 + 6 * rng.unif());
                const double w = 0.3 + rng.unif();
                for (int i = 0; i < n; ++i) {
                    xs.push_back(cplx ? cmplx_t(A * std::cos(w * i), A * std::sin(w * i)) : cmplx_t((i % 2) ? A : -A, 0));
                }
                ends.push_back((int)xs.size() - 1);
                lev.push_back(A);
            }
            arr_real gain;
            if (cplx) {
                gain = agc.process(arr_cmplx(xs)).gain;
            } else {
                arr_real xr((int)xs.size());
                for (int i = 0; i < xr.size(); ++i) {
                    xr[i] = xs[i].re;
                }
                gain = agc.process(xr).gain;
            }
            for (int sg = 0; sg < nseg; ++sg) {
                js.begin("AgcFrame").num("lp", (long)std::llround(std::log(lev[sg] * lev[sg] + dsplib::eps()) * U))
                  .num("n", ends[sg] - (sg ? ends[sg - 1] : -1)).num("gend", (long)std::llround(std::log(gain[ends[sg]]) * U)).end();
            }
        }
    }
}

int main(int argc, char** argv) {
    const std::string mode = vh::arg(argc, argv, "--mode", "static");
    const long seed = std::atol(vh::arg(argc, argv, "--seed", "1"));
    const long budget = std::atol(vh::arg(argc, argv, "--budget", "20"));
    const int n = std::atoi(vh::arg(argc, argv, "--n", "100000"));
    FILE* f = vh::open_out(vh::arg(argc, argv, "--out", "/dev/stdout"));
    Json js(f);
    js.flush_each = false;
    vh::Rng rng(seed);
    if (mode == "static") {
        run_static(js, rng, budget);
    } else if (mode == "range") {
        run_range(js, rng, budget, n);
    } else if (mode == "gate") {
        run_gate(js, rng, budget);
    } else if (mode == "step") {
        run_step(js, rng, budget);
    } else if (mode == "agc") {
        run_agc(js, rng, budget);
    } else if (mode == "agcloop") {
        run_agcloop(js, rng, budget);
    } else {
        return 3;
    }
    js.flush();
    std::fclose(f);
    return 0;
}
