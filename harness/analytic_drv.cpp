// Conformance driver for Trace_Analytic.tla (C14): Tuner, hilbert(), HilbertFilter.
#include "common.h"
#include <dsplib.h>
#include <numeric>
using namespace dsplib;
using vh::Json;
using LD = long double;
static const LD PI_L = 3.14159265358979323846264338327950288L;
static const double EPS = 2.220446049250313e-16;
static long milli(double err, double bound) {
    return (long)std::min(1e9, std::ceil(err / bound * 1000.0));
}

static void run_tuner(Json& js, vh::Rng& rng, long budget) {
    for (long t = 0; t < budget; ++t) {
        int fs = (int)(rng.coin() ? rng.range(8, 64) : std::pow(10.0, 1 + 4 * rng.unif()));   // 8 .. 1e5
        const bool top = rng.range(0, 5) == 0;   // the top of the range, where fs * fs no longer fits 32 bits
        if (top) {
            fs = (int)rng.range(65537, 100000);
        }
        int b = (int)((rng.coin() || top) ? 1 : rng.range(2, 8));
        long M = (long)b * fs;
        long a = rng.range(-(M / 2), M / 2);
        if (rng.range(0, 6) == 0) {
            a = (rng.coin() ? 1 : -1) * (M / 2);   // |f| = fs/2 exactly (when M is even)
        }
        if (rng.range(0, 2) == 0) {
            // frequencies an implementation might treat specially: +-fs/4 (most often), +-fs/8, +-fs/3, +-fs/6, +-1 Hz, 0
            static const int DEN[] = {4, 4, 4, 8, 3, 6};
            const int dn = DEN[rng.range(0, 5)];
            if (rng.range(0, 6) == 0) {
                a = (long)b * (rng.range(0, 2) - 1);
            } else {
                if (M % dn != 0) {
                    b = dn, M = (long)b * fs;   // f = fs/dn as the fraction fs / dn
                }
                a = (rng.coin() ? 1 : -1) * (M / dn);
            }
        }
        const double f = (double)a / b;
        const long n = std::min<long>(400000, (long)fs * rng.range(2, 6) + rng.range(0, fs));   // several multiples of fs
        std::vector<long> ks, robs, dev;
        bool amp_ok = true;
        long outlen = 0;
        const char* o = vh::outcome([&] {
            Tuner tuner(fs, f);
            arr_cmplx out;
            long pos = 0;
            while (pos < n) {   // arbitrary framing
                const long fl = std::min<long>(n - pos, (long)std::pow(3000.0, rng.unif()));
                arr_cmplx x(fl);
                for (long i = 0; i < fl; ++i) {
                    x[(int)i] = 1;
                }
                out |= tuner.process(x);
                pos += fl;
            }
            outlen = out.size();
            // sampled positions, dense around the multiples of fs
            std::vector<long> sel;
            for (int q = 0; q < 24; ++q) {
                sel.push_back(rng.range(0, n - 1));
            }
            for (long m = 1; m * fs < n; ++m) {
                for (long d = -2; d <= 2; ++d) {
                    const long k = m * fs + d;
                    if (k >= 0 && k < n && sel.size() < 80) {
                        sel.push_back(k);
                    }
                }
            }
            sel.push_back(0);
            sel.push_back(n - 1);
            for (long k : sel) {
                const cmplx_t w = out[(int)k];
                LD turns = atan2l((LD)w.im, (LD)w.re) / (2 * PI_L);
                if (turns < 0) {
                    turns += 1;
                }
                long r = (long)llroundl(turns * M) % M;
                LD d = fabsl(turns - (LD)r / M);
                d = std::min(d, 1 - d);
                if (r == 0 && turns > 0.5L) {
                    d = 1 - turns;
                }
                ks.push_back(k);
                robs.push_back(r);
                dev.push_back((long)std::min<LD>(1e9L, ceill(d * 1e9L)));
                amp_ok = amp_ok && std::fabs(std::hypot(w.re, w.im) - 1) <= 1e-12;
            }
        });
        js.begin("Tuner").num("fs", fs).num("a", a).num("b", b).num("n", n).str("o", o).num("outlen", outlen).arr("ks", ks)
          .arr("robs", robs).arr("dev", dev).boolean("amp_ok", amp_ok).end();
        // arbitrary data: out = x * w (same w as with the all-ones input), T1m
        if (std::string(o) == "ret") {
            Tuner t1(fs, f), t2(fs, f);
            const int m = (int)std::min<long>(n, 3000);
            arr_cmplx x(m), ones_(m);
            for (int i = 0; i < m; ++i) {
                x[i] = cmplx_t(rng.gauss(), rng.gauss());
                ones_[i] = 1;
            }
            const arr_cmplx y = t1.process(x), w = t2.process(ones_);
            double worst = 0;
            for (int i = 0; i < m; ++i) {
                worst = std::max(worst, (double)abs(y[i] - x[i] * w[i]) / (abs(x[i]) + 1e-300));
            }
            js.begin("Resid").str("clause", "C14.tuner-mult").num("n", m).num("err_milli", milli(worst, 8 * EPS)).end();
        }
    }
}

static void run_hilbert(Json& js, vh::Rng& rng, int a, int b) {
    for (int n = std::max(3, a); n < b; ++n) {
        for (int kind = 0; kind < 4; ++kind) {
            arr_real x(n);
            for (int i = 0; i < n; ++i) {
                const double tone = std::cos(2 * pi * ((kind == 3) ? 2.5 : 3.0) * i / n + 0.3);
                x[i] = (kind == 0 ? rng.gauss() : tone) + (kind == 1 ? 0.0 : (kind == 2 ? 1.7 : 0.4)) + (kind == 2 ? 0.8 * ((i % 2) ? -1 : 1) : 0.0);
            }
            const arr_cmplx h = hilbert(x);
            LD num = 0, den = 0;
            for (int i = 0; i < n; ++i) {
                num += (LD)(h[i].re - x[i]) * (h[i].re - x[i]);
                den += (LD)x[i] * x[i];
            }
            js.begin("Resid").str("clause", "C14.hilbert-real").num("n", n).num("kind", kind).num("outlen", h.size())
              .num("err_milli", (h.size() != n) ? 1000000 : milli(den == 0 ? 0 : (double)sqrtl(num / den), 64.0 * n * EPS)).end();
            const arr_cmplx H = fft(h);
            LD neg = 0, tot = 0;
            for (int k = 0; k < n; ++k) {
                tot += (LD)abs2(H[k]);
                if (2 * k > n) {
                    neg += (LD)abs2(H[k]);
                }
            }
            js.begin("Resid").str("clause", "C14.hilbert-negfreq").num("n", n).num("kind", kind)
              .num("err_milli", milli(tot == 0 ? 0 : (double)sqrtl(neg / tot), 64.0 * n * EPS)).end();
        }
        // hilbert(x, n') = hilbert(resize(x, n'))
        arr_real x(n);
        for (int i = 0; i < n; ++i) {
            x[i] = rng.gauss() + 0.5;
        }
        for (int np : {n - 1, n + 1, 2 * n, (int)rng.range(3, 2 * n)}) {
            if (np < 3) {
                continue;
            }
            arr_real r(np);
            for (int i = 0; i < std::min(n, np); ++i) {
                r[i] = x[i];
            }
            const arr_cmplx A = hilbert(x, np), B = hilbert(r);
            double worst = (A.size() != B.size()) ? 1e30 : 0;
            LD sc = 0;
            for (int i = 0; i < B.size(); ++i) {
                sc += (LD)abs2(B[i]);
            }
            for (int i = 0; i < std::min(A.size(), B.size()); ++i) {
                worst = std::max(worst, (double)abs(A[i] - B[i]));
            }
            js.begin("Resid").str("clause", "C14.hilbert-resize").num("n", n).num("n2", np)
              .num("err_milli", milli(worst / ((double)sqrtl(sc / std::max(1, np)) + 1e-300), 64.0 * np * EPS)).end();
        }
    }
}

static void run_hf(Json& js, vh::Rng& rng, long budget) {
    for (long t = 0; t < budget; ++t) {
        const int flen = (int)rng.range(31, 401);
        const double tw = 0.005 + 0.095 * rng.unif();
        HilbertFilter flt(flen, tw);
        const int M = flt.impz().size();
        // real part: exact delay on integer data, arbitrary framing
        const int n = (int)rng.range(M, 3 * M);
        std::vector<long> x(n), re;
        bool exact = true;
        const char* o = vh::outcome([&] {
            int pos = 0;
            while (pos < n) {
                const int fl = (int)std::min<long>(n - pos, rng.range(1, M));
                arr_real fr(fl);
                for (int i = 0; i < fl; ++i) {
                    x[pos + i] = rng.range(-50, 50);
                    fr[i] = (double)x[pos + i];
                }
                const arr_cmplx y = flt.process(fr);
                for (int i = 0; i < y.size(); ++i) {
                    const long v = vh::as_int(y[i].re);
                    exact = exact && (double)v == y[i].re;
                    re.push_back(v);
                }
                pos += fl;
            }
        });
        js.begin("HF").num("flen", flen).num("M", M).str("o", o).arr("x", x).arr("re", re).boolean("exact", exact).end();
        // quadrature: tones at least max(2 tw, 6/M) away from 0 and 0.5
        // other filters of the same (or neighbouring) length but a wide transition band are built first and kept alive:
        // separately constructed instances must not influence one another's design
        HilbertFilter decoy1(flen, 0.1), decoy2(flen + (rng.coin() ? 1 : -1), 0.09);
        HilbertFilter f2(flen, tw);
        (void)decoy1.process(arr_real(3));
        const double guard = std::max(2 * tw, 6.0 / M);
        if (guard < 0.24) {
            // half of the tones sit right at the edges of the stated pass-band, where the design is tightest
            const int where = (int)rng.range(0, 3);
            const double f = where == 0 ? guard * (1 + 0.02 * rng.unif()) : where == 1 ? 0.5 - guard * (1 + 0.02 * rng.unif())
                                                                          : guard + (0.5 - 2 * guard) * rng.unif();
            const double A = std::pow(10.0, -2 + 4 * rng.unif()), ph = 6.28 * rng.unif();
            const int len = 6 * M + 200;
            arr_real s(len);
            for (int i = 0; i < len; ++i) {
                s[i] = A * std::cos(2 * pi * f * i + ph);
            }
            const arr_cmplx y = f2.process(s);
            double worst = 0;
            const int d = M / 2;
            for (int i = 2 * M; i < len; ++i) {   // past the transient
                const double want = A * std::sin(2 * pi * f * (i - d) + ph);   // same tone shifted by 90 degrees, delayed
                worst = std::max(worst, std::fabs(y[i].im - want) / A);
            }
            js.begin("Resid").str("clause", "C14.hf-quadrature").num("n", flen).num("f_milli", (long)(f * 1000)).num("tw_milli", (long)(tw * 1000))
              .num("err_milli", milli(worst, 1e-3)).end();
        }
    }
}

int main(int argc, char** argv) {
    const std::string mode = vh::arg(argc, argv, "--mode", "tuner");
    const long seed = std::atol(vh::arg(argc, argv, "--seed", "1"));
    const long budget = std::atol(vh::arg(argc, argv, "--budget", "20"));
    const int a = std::atoi(vh::arg(argc, argv, "--a", "3"));
    const int b = std::atoi(vh::arg(argc, argv, "--b", "100"));
    FILE* f = vh::open_out(vh::arg(argc, argv, "--out", "/dev/stdout"));
    Json js(f);
    js.flush_each = false;
    vh::Rng rng(seed);
    if (mode == "tuner") {
        run_tuner(js, rng, budget);
    } else if (mode == "hilbert") {
        run_hilbert(js, rng, a, b);
    } else if (mode == "hf") {
        run_hf(js, rng, budget);
    } else {
        return 3;
    }
    js.flush();
    std::fclose(f);
    return 0;
}
