// Conformance driver for Trace_Detector.tla (C18): delayseq / finddelay / gccphat / peakloc / PreambleDetector.
#include "common.h"
#include <dsplib.h>
using namespace dsplib;
using vh::Json;

static void run_delay(Json& js, vh::Rng& rng, long budget, bool every_shift) {
    for (long t = 0; t < budget; ++t) {
        const int len = every_shift ? (int)rng.range(128, 160) : (int)rng.range(128, 5000);
        const bool cplx = rng.coin();
        const bool noisy = rng.coin();
        const double nlev = noisy ? std::pow(10.0, -(30 + 20 * rng.unif()) / 20.0) : 0.0;
        const int fs = (int)rng.range(1, 48000);
        arr_real x(len);
        arr_cmplx xc(len);
        for (int i = 0; i < len; ++i) {
            x[i] = rng.gauss();
            xc[i] = cmplx_t(rng.gauss(), rng.gauss());
        }
        std::vector<int> shifts;
        if (every_shift) {
            for (int d = -len / 4; d <= len / 4; ++d) {
                shifts.push_back(d);
            }
        } else {
            for (int q = 0; q < 6; ++q) {
                shifts.push_back((int)rng.range(-len / 4, len / 4));
            }
            shifts.push_back(len / 4);
            shifts.push_back(-(len / 4));
            shifts.push_back(0);
        }
        for (int d : shifts) {
            if (!cplx) {
                arr_real y = delayseq(x, d);
                // delayseq itself: exact shift with zero fill
                bool shift_ok = y.size() == len;
                for (int i = 0; i < len && shift_ok; ++i) {
                    const int s = i - d;
                    shift_ok = (s >= 0 && s < len) ? (y[i] == x[s]) : (y[i] == 0.0);
                }
                for (int i = 0; i < len; ++i) {
                    y[i] += nlev * rng.gauss();
                }
                int fd = 0;
                double tau = 0;
                // every other case goes through the multi-channel overload (second channel: the opposite shift)
                static long alt = 0;
                const bool multi = (++alt % 2) == 0;
                double dev2 = 0;
                const char* o = vh::outcome([&] {
                    fd = finddelay(x, y);
                    if (multi) {
                        const auto r = gccphat(std::vector<arr_real>{y, delayseq(x, -d)}, x, fs);
                        tau = r.tau[0];
                        dev2 = r.tau[1] * fs + d;
                    } else {
                        tau = gccphat(y, x, fs).tau;
                    }
                });
                const double dev = std::max(std::fabs(tau * fs - d), std::fabs(dev2));
                js.begin("Delay").boolean("cplx", false).num("len", len).num("d", d).num("fs", fs).boolean("noisy", noisy).str("o", o)
                  .boolean("shift_ok", shift_ok).num("fd", fd).num("gcc_dev_milli", (long)std::min(1e9, std::ceil(dev * 1000))).end();
            } else {
                arr_cmplx y(len);
                for (int i = 0; i < len; ++i) {
                    const int s = i - d;
                    y[i] = (s >= 0 && s < len) ? xc[s] : cmplx_t(0, 0);
                    y[i] = y[i] + cmplx_t(nlev * rng.gauss(), nlev * rng.gauss());
                }
                int fd = 0;
                const char* o = vh::outcome([&] { fd = finddelay(xc, y); });
                js.begin("Delay").boolean("cplx", true).num("len", len).num("d", d).num("fs", fs).boolean("noisy", noisy).str("o", o)
                  .boolean("shift_ok", true).num("fd", fd).num("gcc_dev_milli", 0).end();
            }
        }
    }
}

// delayseq over the complete shift range of short arrays: every d from well below -len to well above +len (integer data; TLC
// recomputes the shifted sequence)
static void run_shift(Json& js, vh::Rng& rng) {
    for (int len = 1; len <= 9; ++len) {
        for (int d = -len - 3; d <= len + 3; ++d) {
            std::vector<long> xr(len), xi(len), yr, yi;
            arr_real a(len);
            arr_cmplx c(len);
            for (int i = 0; i < len; ++i) {
                xr[i] = rng.range(1, 9), xi[i] = rng.range(-9, -1);
                a[i] = (double)xr[i], c[i] = cmplx_t((double)xr[i], (double)xi[i]);
            }
            // (real arrays only: delayseq does not instantiate for complex ones)
            arr_real ya;
            const char* o = vh::outcome([&] { ya = delayseq(a, d); });
            bool agree = true;
            for (int i = 0; i < ya.size(); ++i) {
                yr.push_back((long)ya[i]), yi.push_back(0);
                agree = agree && ya[i] == std::floor(ya[i]);
            }
            for (int i = 0; i < len; ++i) {
                xi[i] = 0;
            }
            js.begin("Shift").num("d", d).str("o", o).arr("xr", xr).arr("xi", xi).arr("yr", yr).arr("yi", yi).boolean("agree", agree).end();
        }
    }
}

static void run_peakloc(Json& js, vh::Rng& rng, long budget) {
    for (long t = 0; t < budget; ++t) {
        const int n = (int)rng.range(3, 40);
        std::vector<long> x(n);
        for (int i = 0; i < n; ++i) {
            x[i] = rng.range(-100, 100);
        }
        const int idx = (int)rng.range(0, n - 1);
        const bool cyclic = rng.coin();
        const int l = (idx - 1 + n) % n, r = (idx + 1) % n;
        if (t % 2 == 0) {
            // idx a strict local maximum: the vertex lies within half a sample
            x[idx] = std::max(x[l], x[r]) + rng.range(1, 50);
        } else {
            // any index: the parabola through the three samples has its vertex wherever it has it (small values keep the
            // cross products inside TLC's integers; the curvature is kept away from zero)
            do {
                x[l] = rng.range(-10, 10), x[idx] = rng.range(-10, 10), x[r] = rng.range(-10, 10);
            } while (std::labs(x[l] - 2 * x[idx] + x[r]) < 2 || l == r || l == idx);
        }
        arr_real a(n);
        for (int i = 0; i < n; ++i) {
            a[i] = (double)x[i];
        }
        const double p = peakloc(a, idx, cyclic);
        const bool edge = !cyclic && (idx == 0 || idx == n - 1);
        js.begin("Peakloc").num("n", n).num("idx", idx).boolean("cyclic", cyclic).boolean("edge", edge).num("l", x[l]).num("m", x[idx])
          .num("r", x[r]).num("q", (long)std::llround((p - idx) * 1e6)).end();
    }
}

static arr_cmplx zadoff_chu(int r, int n) {
    arr_cmplx z(n);
    for (int i = 0; i < n; ++i) {
        const double ph = -pi * r * ((double)i * i) / n;
        z[i] = cmplx_t(std::cos(ph), std::sin(ph));
    }
    return z;
}
static arr_cmplx pn_seq(int bits) {   // maximal-length sequence a[t+n] = xor of a[t+i] over the polynomial's low terms, as +-1
    // primitive polynomials: x^5+x^3+1, x^6+x+1, x^7+x^3+1, x^8+x^4+x^3+x^2+1, x^9+x^4+1
    static const std::vector<int> low[] = {{}, {}, {}, {}, {}, {3, 0}, {1, 0}, {3, 0}, {4, 3, 2, 0}, {4, 0}};
    const int n = (1 << bits) - 1;
    std::vector<int> a(n + bits, 0);
    a[0] = 1;
    for (int t = 0; t + bits < n + bits; ++t) {
        int v = 0;
        for (int i : low[bits]) {
            v ^= a[t + i];
        }
        a[t + bits] = v;
    }
    arr_cmplx s(n);
    for (int i = 0; i < n; ++i) {
        s[i] = a[i] ? cmplx_t(1, 0) : cmplx_t(-1, 0);
    }
    return s;
}

static void run_detector(Json& js, vh::Rng& rng, long budget, bool all_offsets) {
    for (long t = 0; t < budget; ++t) {
        const bool pn = rng.coin();
        arr_cmplx h;
        if (pn) {
            h = pn_seq((int)rng.range(6, 9));
        } else {
            int Lp = (int)rng.range(64, 512);
            h = zadoff_chu(1, Lp);
        }
        // the reference handed to the detector may have any scale: the metric normalises by the reference's own energy
        const arr_cmplx href = h * std::pow(10.0, -1.5 + 3 * rng.unif());
        const int Lp = h.size();
        // Domain in which the statement is satisfiable for a detector normalised by the running power: in pure noise
        // the metric exceeds thr with probability exp(-thr^2 Lp) per sample, and partial overlaps of the preamble reach
        // about (pi Lp)^(-1/4) (chirp) / 2.5 Lp^(-1/2) (PN); thresholds below max(0.5, 6/sqrt(Lp)) are not generated.
        const double tmin = std::max(0.5, 6.0 / std::sqrt((double)Lp));
        const double thr = tmin + (0.9 - tmin) * rng.unif();
        const double amp = std::pow(10.0, -3.5 + 5 * rng.unif());   // amplitudes over 100 dB (3e-4 .. 30): score and decision are level-free
        const double nlev = amp * std::pow(10.0, -(20 + 20 * rng.unif()) / 20.0);   // background noise 20..40 dB below the preamble
        PreambleDetector probe(href, thr);
        const int F = probe.frame_len();
        std::vector<int> positions;   // stream index of the first preamble sample
        if (all_offsets) {
            const int base = F * (int)rng.range(1, 2);
            for (int q = 0; q < F; ++q) {
                positions.push_back(base + q);
            }
        } else {
            for (int q = 0; q < 4; ++q) {
                positions.push_back((int)rng.range(0, 3 * F));
            }
            positions.push_back(F - Lp + (int)rng.range(0, 2));           // completes around a frame boundary
            positions.push_back(std::max(0, 2 * F - Lp / 2));             // straddles a frame boundary
        }
        for (int pos : positions) {
            if (pos < 0) {
                continue;
            }
            const int e = pos + Lp - 1;
            const int nframes = e / F + 3;
            const bool present = rng.range(0, 9) != 0;
            arr_cmplx in(nframes * F);
            for (int i = 0; i < in.size(); ++i) {
                in[i] = cmplx_t(nlev * rng.gauss(), nlev * rng.gauss());
            }
            if (present) {
                for (int i = 0; i < Lp; ++i) {
                    in[pos + i] = in[pos + i] + h[i] * amp;
                }
            }
            PreambleDetector det(href, thr);
            // every third detector has been used before: an earlier stream (loud noise and a partial preamble at its end), then
            // reset() - after which it must behave like a new one
            static long reuse = 0;
            if (++reuse % 3 == 0) {
                const int pf = (int)rng.range(1, 3);
                arr_cmplx past(pf * F);
                for (int i = 0; i < past.size(); ++i) {
                    past[i] = cmplx_t(3 * amp * rng.gauss(), 3 * amp * rng.gauss());
                }
                for (int i = 0; i < Lp - 1 && i < past.size(); ++i) {
                    past[past.size() - 1 - i] = h[Lp - 2 - i] * amp;   // all but the last preamble sample, ending with the stream
                }
                for (int f = 0; f < pf; ++f) {
                    try {
                        (void)det.process(arr_cmplx(past.slice(f * F, (f + 1) * F)));
                    } catch (const std::exception&) {
                    }
                }
                det.reset();
            }
            long det_frame = -1, det_off = -1, match = -2, plen = 0, nthrow = 0;
            double score = 0;
            for (int f = 0; f < nframes; ++f) {
                std::optional<PreambleDetector::Result> r;
                try {
                    r = det.process(arr_cmplx(in.slice(f * F, (f + 1) * F)));
                } catch (const std::exception&) {
                    ++nthrow;
                }
                if (r.has_value()) {
                    det_frame = f, det_off = r->offset, score = r->score, plen = r->preamble.size();
                    // where in the input do the returned samples sit (exact comparison)?
                    match = -1;
                    const long end = (long)f * F + r->offset;
                    for (long s = std::max(0L, end - Lp - 3); s <= std::min<long>(in.size() - Lp, end + 3); ++s) {
                        bool eq = plen == Lp;
                        for (int i = 0; i < Lp && eq; ++i) {
                            eq = r->preamble[i] == in[(int)s + i];
                        }
                        if (eq) {
                            match = s;
                            break;
                        }
                    }
                    break;
                }
            }
            js.begin("Detect").boolean("pn", pn).num("Lp", Lp).num("F", F).num("thr_milli", (long)(thr * 1000)).boolean("present", present)
              .num("end", e).num("nframes", nframes).num("det_frame", det_frame).num("det_off", det_off).num("plen", plen)
              .num("match", match).num("score_ppm", (long)std::llround(score * 1e6)).num("nthrow", nthrow).end();
        }
        // no preamble at all, but a loud burst followed by digital silence (exact zeros) through the same detector: the
        // normalised metric must not fire on 0/0-like residues of the running power
        {
            const int nframes = 5;
            arr_cmplx in(nframes * F);
            const int blen = (int)rng.range(F / 4, 2 * F);
            const double bamp = std::pow(10.0, 3 * rng.unif());
            for (int i = 0; i < in.size(); ++i) {
                in[i] = i < blen ? cmplx_t(bamp * rng.gauss(), bamp * rng.gauss()) : cmplx_t(0, 0);
            }
            PreambleDetector det(href, thr);
            long det_frame = -1, det_off = -1, plen = 0, nthrow = 0;
            double score = 0;
            for (int f = 0; f < nframes && det_frame < 0; ++f) {
                std::optional<PreambleDetector::Result> r;
                try {
                    r = det.process(arr_cmplx(in.slice(f * F, (f + 1) * F)));
                } catch (const std::exception&) {
                    ++nthrow;
                }
                if (r.has_value() && f * F + r->offset >= blen + Lp) {   // inside the burst itself the statement is silent
                    det_frame = f, det_off = r->offset, plen = r->preamble.size(), score = r->score;
                }
            }
            js.begin("Detect").boolean("pn", pn).num("Lp", Lp).num("F", F).num("thr_milli", (long)(thr * 1000)).boolean("present", false)
              .num("end", 0).num("nframes", nframes).num("det_frame", det_frame).num("det_off", det_off).num("plen", plen)
              .num("match", -2).num("score_ppm", score == score ? (long)std::llround(std::min(1e3, std::fabs(score)) * 1e6) : -1).num("nthrow", nthrow).end();
        }
        // frames that are not a multiple of frame_len are rejected
        {
            PreambleDetector det(href, thr);
            const char* o = vh::outcome([&] { det.process(arr_cmplx(F + 1 + (int)rng.range(0, F - 2))); });
            js.begin("DetFrame").num("Lp", Lp).num("F", F).str("o", o).end();
        }
    }
}

// several preambles in one stream (growth beyond C18, validated by Trace_DetectorSeq against DetectorSeq.tla): per frame,
// whether something was reported, at which offset, and which stream samples (numbered from 1, 0 = initial zeros of the
// delay line) the returned array holds - found by exact value comparison (noise samples are unique)
static void run_seq(Json& js, vh::Rng& rng, long budget) {
    for (long t = 0; t < budget; ++t) {
        const int Lp = (int)rng.range(0, 2) == 0 ? 31 : (int)rng.range(16, 80);
        const arr_cmplx h = zadoff_chu(1, Lp | 1);
        const int L = h.size();
        const double thr = 0.8;
        PreambleDetector det(h, thr);
        const int F = det.frame_len();
        const int nframes = (int)rng.range(3, 6);
        arr_cmplx in(nframes * F);
        for (int i = 0; i < in.size(); ++i) {
            in[i] = cmplx_t(0.01 * rng.gauss(), 0.01 * rng.gauss());
        }
        // preambles: the second one ends between L and L + F samples after the first (same frame, or early in the next)
        std::vector<int> ends;
        int e = (int)rng.range(L - 1, F + L);
        while (e < in.size()) {
            ends.push_back(e);
            e += L + (int)rng.range(0, F);
        }
        for (int en : ends) {
            for (int i = 0; i < L; ++i) {
                in[en - L + 1 + i] = in[en - L + 1 + i] + h[i];
            }
        }
        js.begin("SeqReset").num("Lp", L).num("F", F).num("nframes", nframes).arr("ends", ends).end();
        for (int f = 0; f < nframes; ++f) {
            std::optional<PreambleDetector::Result> r;
            const char* o = vh::outcome([&] { r = det.process(arr_cmplx(in.slice(f * F, (f + 1) * F))); });
            std::vector<long> idx;
            long off = -1;
            bool unique = true;
            if (r.has_value()) {
                off = r->offset;
                for (int i = 0; i < r->preamble.size(); ++i) {
                    const cmplx_t v = r->preamble[i];
                    long found = (v.re == 0 && v.im == 0) ? 0 : -1;
                    for (int s = 0; s < in.size() && found < 0; ++s) {
                        if (in[s] == v) {
                            found = s + 1;
                        }
                    }
                    unique = unique && found >= 0;
                    idx.push_back(found);
                }
            }
            js.begin("SeqFrame").num("k", f + 1).str("o", o).boolean("det", r.has_value()).num("off", off).arr("idx", idx)
              .boolean("found", unique).end();
        }
    }
}

int main(int argc, char** argv) {
    const std::string mode = vh::arg(argc, argv, "--mode", "delay");
    const long seed = std::atol(vh::arg(argc, argv, "--seed", "1"));
    const long budget = std::atol(vh::arg(argc, argv, "--budget", "10"));
    FILE* f = vh::open_out(vh::arg(argc, argv, "--out", "/dev/stdout"));
    Json js(f);
    js.flush_each = false;
    vh::Rng rng(seed);
    if (mode == "delay") {
        run_delay(js, rng, budget, false);
    } else if (mode == "delay-all") {
        run_delay(js, rng, budget, true);
    } else if (mode == "seq") {
        run_seq(js, rng, budget);
    } else if (mode == "peakloc") {
        run_shift(js, rng);
        run_peakloc(js, rng, budget);
    } else if (mode == "detector") {
        run_detector(js, rng, budget, false);
    } else if (mode == "detector-all") {
        run_detector(js, rng, budget, true);
    } else {
        return 3;
    }
    js.flush();
    std::fclose(f);
    return 0;
}
