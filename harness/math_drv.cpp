// Conformance driver for Trace_Math.tla (C17): elementary / reduction functions and shape utilities.
//   math_drv --out t --mode shapes                 exhaustive small-scope shape clauses (arange, up/downsample, ...)
//   math_drv --out t --mode reduce --seed S --budget N
//   math_drv --out t --mode lattice
//   math_drv --out t --mode wide --seed S --budget N      random magnitudes vs long double (T3)
#include "common.h"
#include <dsplib.h>
#include <complex>
#include <functional>
#include <algorithm>
using namespace dsplib;
using vh::Json;
using LD = long double;
using LC = std::complex<long double>;
static const LD PI_L = 3.14159265358979323846264338327950288L;
static const double EPS = 2.220446049250313e-16;
static long milli(double err, double bound) {
    if (!(err == err)) {
        return 1000000000;
    }
    return (long)std::min(1e9, std::ceil(err / bound * 1000.0));
}
static arr_real to_arr(const std::vector<long>& v) {
    arr_real a(v.size());
    for (size_t i = 0; i < v.size(); ++i) {
        a[i] = (double)v[i];
    }
    return a;
}
static std::vector<long> ints(const arr_real& a, bool* exact = nullptr) {
    std::vector<long> r;
    for (int i = 0; i < a.size(); ++i) {
        const long v = vh::as_int(a[i]);
        if (exact && (double)v != a[i]) {
            *exact = false;
        }
        r.push_back(v);
    }
    return r;
}
static bool same(const arr_real& a, const std::vector<long>& v) {
    if ((size_t)a.size() != v.size()) {
        return false;
    }
    for (int i = 0; i < a.size(); ++i) {
        if (a[i] != (double)v[i]) {
            return false;
        }
    }
    return true;
}
static double ulp_of(double v) {
    return std::max(std::fabs(v), 2.2250738585072014e-308) * EPS;
}

static void shape(Json& js, const char* fn, const std::vector<long>& x, int n, int ph, std::function<arr_real(const arr_real&)> f) {
    arr_real a = to_arr(x), y;
    const char* o = vh::outcome([&] { y = f(a); });
    js.begin("Shape").str("fn", fn).arr("x", x).num("n", n).num("ph", ph).str("o", o).arr("y", ints(y)).boolean("x_same", same(a, x)).end();
}

static void run_shapes(Json& js, vh::Rng& rng) {
    // integer arange: every start/stop/step in [-12, 12]
    for (int start = -12; start <= 12; ++start) {
        for (int stop = -12; stop <= 12; ++stop) {
            for (int step = -12; step <= 12; ++step) {
                if (step == 0) {
                    continue;
                }
                arr_real r;
                bool exact = true;
                const char* o = vh::outcome([&] { r = arange(start, stop, step); });
                js.begin("Arange").num("start", start).num("stop", stop).num("step", step).str("o", o).arr("vals", ints(r, &exact))
                  .boolean("exact", exact).end();
            }
        }
    }
    for (int stop = 0; stop <= 20; ++stop) {   // arange(stop)
        arr_real r;
        bool exact = true;
        const char* o = vh::outcome([&] { r = arange(stop); });
        js.begin("Arange").num("start", 0).num("stop", stop).num("step", 1).str("o", o).arr("vals", ints(r, &exact)).boolean("exact", exact).end();
    }
    // fractional arange with an integral count: start = a/q, step = s/q, c elements
    for (int q : {2, 4, 5, 8, 10, 100, 3, 7}) {
        for (int rep = 0; rep < 60; ++rep) {
            const bool longrun = rep % 6 == 5;   // long ranges end a quarter step short of an element, so the count is unambiguous
            const long a = rng.range(-3 * q, 3 * q), s = (rng.coin() ? 1 : -1) * rng.range(1, 2 * q), c = longrun ? rng.range(200, 3000) : rng.range(0, 40);
            const double start = (double)a / q, step = (double)s / q, stop = longrun ? (double)(4 * a + 4 * c * s - s) / (4 * q) : (double)(a + c * s) / q;
            arr_real r;
            const char* o = vh::outcome([&] { r = arange(start, stop, step); });
            std::vector<long> vals;
            bool exact = true;
            // every element within a few rounding units (of the range's scale) of start + i*step
            const double scale = std::max(std::fabs(start), std::fabs(stop));
            for (int i = 0; i < r.size(); ++i) {
                const double t = r[i] * q, rr = std::nearbyint(t);
                exact = exact && std::fabs(t - rr) <= 1e-9 * std::max(1.0, std::fabs(rr));
                exact = exact && fabsl((LD)r[i] - ((LD)a + (LD)i * s) / q) <= 4 * EPS * scale;
                vals.push_back((long)rr);
            }
            js.begin("ArangeF").num("q", q).num("a", a).num("s", s).num("c", c).str("o", o).arr("vals", vals).boolean("exact", exact).end();
        }
    }
    // linspace n = 1..100
    for (int n = 1; n <= 100; ++n) {
        const long x1 = rng.range(-50, 50), x2 = rng.range(-50, 50);
        arr_real r;
        const char* o = vh::outcome([&] { r = linspace((double)x1, (double)x2, n); });
        double dev = 0;
        const double scale = std::max({std::fabs((double)x1), std::fabs((double)x2), 1.0});
        for (int i = 0; i < r.size(); ++i) {
            const LD want = (n == 1) ? (LD)x2 : (LD)x1 + (LD)(x2 - x1) * i / (n - 1);
            dev = std::max(dev, (double)fabsl(r[i] - want));
        }
        const bool ends = r.size() == n && (n == 1 ? r[0] == x2 : (r[0] == x1 && std::fabs(r[n - 1] - x2) <= 4 * EPS * scale));
        js.begin("Linspace").num("n", n).num("x1", x1).num("x2", x2).str("o", o).num("len", r.size())
          .num("dev_milli", milli(dev, 8 * EPS * scale)).boolean("ends_ok", ends).end();
    }
    // shape utilities: every factor and phase for n <= 12
    for (int n = 0; n <= 12; ++n) {
        std::vector<long> x(n);
        for (int i = 0; i < n; ++i) {
            x[i] = i + 1;
        }
        for (int f = 1; f <= 13; ++f) {
            shape(js, "repelem", x, f, 0, [&](const arr_real& a) { return repelem(a, f); });
            for (int ph = 0; ph < f; ++ph) {
                shape(js, "upsample", x, f, ph, [&](const arr_real& a) { return upsample(a, f, ph); });
                if (ph < n) {   // the statement quantifies over phases below the array length
                    shape(js, "downsample", x, f, ph, [&](const arr_real& a) { return downsample(a, f, ph); });
                }
                if (n > 0) {
                    shape(js, "updown", x, f, ph, [&](const arr_real& a) { return downsample(upsample(a, f, ph), f, ph); });
                }
            }
        }
        shape(js, "flip", x, 0, 0, [&](const arr_real& a) { return flip(a); });
        for (int m = 0; m <= n + 3; ++m) {
            shape(js, "zeropad", x, m, 0, [&](const arr_real& a) { return zeropad(a, m); });
        }
        for (int d = -(n + 2); d <= n + 2; ++d) {
            shape(js, "delayseq", x, d, 0, [&](const arr_real& a) { return delayseq(a, d); });
        }
        shape(js, "reim", x, 0, 0, [&](const arr_real& a) {
            const arr_cmplx c = complex(a, flip(a));
            const arr_cmplx cj = conj(conj(c));
            arr_real back = real(cj);
            const arr_real im = imag(cj);
            for (int i = 0; i < back.size(); ++i) {
                if (im[i] != a[a.size() - 1 - i]) {
                    back[i] = -999;
                }
            }
            return back;
        });
    }
    // complex variants share the templates: spot check through real/imag parts
    for (int n = 1; n <= 8; ++n) {
        arr_cmplx c(n);
        for (int i = 0; i < n; ++i) {
            c[i] = cmplx_t(i + 1, -(i + 1));
        }
        for (int f = 1; f <= 4; ++f) {
            for (int ph = 0; ph < f; ++ph) {
                const arr_cmplx u = upsample(c, f, ph), d = downsample(u, f, ph), r = repelem(c, f), fl = flip(c);
                std::vector<long> x(n), y;
                bool ok = d.size() == n && u.size() == n * f && r.size() == n * f && fl.size() == n;
                for (int i = 0; i < n && ok; ++i) {
                    x[i] = i + 1;
                    ok = ok && d[i] == c[i] && fl[i] == c[n - 1 - i] && r[i * f] == c[i] && u[i * f + ph] == c[i];
                }
                for (int i = 0; i < n; ++i) {
                    x[i] = i + 1;
                    y.push_back(ok ? i + 1 : -1);
                }
                js.begin("Shape").str("fn", "updown").arr("x", x).num("n", f).num("ph", ph).str("o", "ret").arr("y", y).boolean("x_same", true).end();
            }
        }
    }
}

static void run_reduce(Json& js, vh::Rng& rng, long budget) {
    for (long t = 0; t < budget; ++t) {
        const int n = (int)rng.range(1, 60);
        std::vector<long> x(n), y(n);
        const int special = t < 12 ? (int)(t % 3) : -1;   // all zeros, constant, one non-zero entry
        for (int i = 0; i < n; ++i) {
            x[i] = special == 0 ? 0 : special == 1 ? 7 : special == 2 ? (i == n / 2 ? -3 : 0) : rng.range(-30, 30);
            y[i] = rng.range(-30, 30);
        }
        const arr_real a = to_arr(x), b = to_arr(y);
        bool exact = true;
        const auto cf = ints(cumsum(a), &exact), cr = ints(cumsum(a, Direction::Reverse), &exact);
        const double s = sum(a), d = dot(a, b), mn = mean(a) * n, mx = max(a), mi = min(a), pp = peak2peak(a);
        const double r2 = rms(a) * rms(a) * n, nr2 = norm(a) * norm(a);
        const double sd = (n > 1) ? stddev(a) : 0.0;
        const double var_n1 = sd * sd * (n - 1);
        auto near = [&](double v, double tol) {
            const double r = std::nearbyint(v);
            exact = exact && std::fabs(v - r) <= tol;
            return (long)r;
        };
        const long sumsq = near(r2, 1e-9 * (1 + std::fabs(r2)));
        exact = exact && std::fabs(nr2 - r2) <= 1e-9 * (1 + std::fabs(r2));
        // stddev^2 (n-1) = sum x^2 - (sum x)^2 / n  -> times n is an integer
        const long varn = near(var_n1 * n, 1e-7 * (1 + std::fabs(var_n1 * n)));
        js.begin("Reduce").arr("x", x).arr("y", y).num("sum", near(s, 0)).arr("cf", cf).arr("cr", cr).num("dot", near(d, 0))
          .num("mean_n", near(mn, 1e-9 * (1 + std::fabs(mn)))).num("max", near(mx, 0)).num("min", near(mi, 0)).num("p2p", near(pp, 0))
          .num("argmax", argmax(a)).num("argmin", argmin(a)).num("sumsq", sumsq).num("var_n1", n > 1 ? varn / 1 : 0)
          .boolean("exact", exact).end();
    }
}

static void lattice(Json& js, const char* fn, double got, long want_k, double unit, int re = 0, int im = 0, bool imneg = false) {
    // observed multiple of `unit` and deviation in ulps of the expected value
    const long k = (long)std::llround(got / unit);
    const double want = want_k * unit;
    const double dev = std::fabs(got - want) / ulp_of(want == 0 ? unit : want);
    js.begin("Lattice").str("fn", fn).num("re", re).num("im", im).boolean("imneg", imneg).num("k", got == got ? k : 999999).num("want", want_k)
      .num("dev_ulp", (long)std::min(1e9, std::ceil(got == got ? dev : 1e9))).end();
}

static void run_lattice(Json& js) {
    // angle on the axes and diagonals, with signed zeros
    for (int re = -1; re <= 1; ++re) {
        for (int im = -1; im <= 1; ++im) {
            for (int negz = 0; negz < 2; ++negz) {
                if (negz && im != 0) {
                    continue;
                }
                for (double scale : {1.0, 1e-100, 1e100, 3.5}) {
                    const cmplx_t z(re * scale, im == 0 ? (negz ? -0.0 : 0.0) : im * scale);
                    const double got = angle(z);
                    js.begin("Lattice").str("fn", "angle").num("re", re).num("im", im).boolean("imneg", negz != 0);
                    const long k = (long)std::llround(got / (double)(PI_L / 4));
                    const double want = k * (double)(PI_L / 4);
                    js.num("k", got == got ? k : 999999).num("want", 0)
                      .num("dev_ulp", (long)std::min(1e9, std::ceil(got == got ? std::fabs(got - want) / ulp_of(want == 0 ? 1.0 : want) : 1e9))).end();
                    // array overload agrees
                    const arr_cmplx za = {z};
                    const double g2 = angle(za)[0];
                    lattice(js, "angle-arr", (g2 == got || (g2 != g2 && got != got)) ? 1.0 : 0.0, 1, 1.0);
                }
            }
        }
    }
    for (int k = -8; k <= 8; ++k) {
        lattice(js, "deg2rad", deg2rad(45.0 * k), k, (double)(PI_L / 4));
        lattice(js, "rad2deg", rad2deg((double)(PI_L / 4) * k), k, 45.0);
        lattice(js, "pow2db", pow2db(std::pow(10.0, k)), k, 10.0);
        lattice(js, "mag2db", mag2db(std::pow(10.0, k)), k, 20.0);
        lattice(js, "db2pow", std::log10(db2pow(10.0 * k)), k, 1.0);
        lattice(js, "db2mag", std::log10(db2mag(20.0 * k)), k, 1.0);
        lattice(js, "log2", dsplib::log2(std::ldexp(1.0, k)), k, 1.0);
        lattice(js, "log10", dsplib::log10(std::pow(10.0, k)), k, 1.0);
        lattice(js, "round", dsplib::round(k + (k >= 0 ? 0.5 : -0.5)), k >= 0 ? k + 1 : k - 1, 1.0);
        lattice(js, "round", dsplib::round(k + 0.25), k, 1.0);
    }
    lattice(js, "exp0", dsplib::exp(0.0), 1, 1.0);
    lattice(js, "log1", dsplib::log(1.0) + 1, 1, 1.0);
    lattice(js, "tanh0", tanh(arr_real{0.0})[0] + 1, 1, 1.0);
    // integer powers of lattice points: power(z, k) for z in {+-1, +-i, 1+-i}: result is a Gaussian integer (times 2^-m)
    const cmplx_t zs[] = {{1, 0}, {-1, 0}, {0, 1}, {0, -1}, {1, 1}, {1, -1}};
    for (const auto& z : zs) {
        for (int k = -8; k <= 8; ++k) {
            LC w = std::pow(LC(z.re, z.im), k);
            w = LC(std::nearbyint((double)w.real() * 256) / 256, std::nearbyint((double)w.imag() * 256) / 256);   // exact value
            const cmplx_t g = power(z, k);
            const double sc = std::max(1.0, (double)std::abs(w));
            const double dev = std::max(std::fabs(g.re - (double)w.real()), std::fabs(g.im - (double)w.imag())) / (sc * EPS);
            js.begin("Lattice").str("fn", "power-int").num("re", (long)z.re).num("im", (long)z.im).boolean("imneg", false).num("k", k).num("want", k)
              .num("dev_ulp", (long)std::min(1e9, std::ceil(g.re == g.re && g.im == g.im ? dev / 4 : 1e9))).end();   // 16 ulp of the scale
            const cmplx_t g2 = power(z, (double)k);
            const double dev2 = std::max(std::fabs(g2.re - (double)w.real()), std::fabs(g2.im - (double)w.imag())) / (sc * EPS);
            js.begin("Lattice").str("fn", "power-real").num("re", (long)z.re).num("im", (long)z.im).boolean("imneg", false).num("k", k).num("want", k)
              .num("dev_ulp", (long)std::min(1e9, std::ceil(g2.re == g2.re && g2.im == g2.im ? dev2 / 4 : 1e9))).end();
        }
    }
    // power(0, p) for p > 0 is 0, power(x, 0) is 1
    for (double p : {0.5, 1.0, 2.0, 3.5}) {
        lattice(js, "power0", abs(power(cmplx_t(0, 0), p)) + 1, 1, 1.0);
        lattice(js, "power0r", power(0.0, p) + 1, 1, 1.0);
    }
    lattice(js, "powerx0", power(cmplx_t(3, -2), 0.0).re, 1, 1.0);
    lattice(js, "powerx0", power(cmplx_t(0, 0), 0).re, 1, 1.0);
    lattice(js, "powerx0", power(arr_cmplx{cmplx_t(0, 0)}, 0)[0].re, 1, 1.0);
    lattice(js, "powerx0", power(cmplx_t(0, 0), arr_real{0.0})[0].re, 1, 1.0);
    lattice(js, "sqrt-1", power(cmplx_t(-1, 0), 0.5).im, 1, 1.0);
}

static double wide(vh::Rng& r, bool positive = false) {
    const double m = std::pow(10.0, -100 + 200 * r.unif()) * (1 + r.unif());
    return (positive || r.coin()) ? m : -m;
}
static void resid(Json& js, const char* fn, double err_ulps) {
    js.begin("Resid").str("clause", std::string("C17.") + fn).num("err_milli", milli(err_ulps, 8.0)).end();
}
static double cerr(cmplx_t g, LC w) {   // error in ulps of |w|
    const LD sc = std::abs(w);
    if (sc == 0) {
        return (double)std::max(fabsl(g.re), fabsl(g.im)) == 0 ? 0 : 1e9;
    }
    return (double)(std::max(fabsl((LD)g.re - w.real()), fabsl((LD)g.im - w.imag())) / (sc * EPS));
}
static double rerr(double g, LD w) {
    if (w == 0) {
        return g == 0 ? 0 : 1e9;
    }
    return (double)(fabsl((LD)g - w) / (fabsl(w) * EPS));
}

static void run_wide(Json& js, vh::Rng& rng, long budget) {
    for (long t = 0; t < budget; ++t) {
        const double x = wide(rng), y = wide(rng), px = wide(rng, true);
        const cmplx_t z(x, y);
        const LC zl(x, y);
        // moderate-size arguments for functions that overflow otherwise
        const double mx = (rng.unif() * 2 - 1) * 600, my = (rng.unif() * 2 - 1) * 50;
        resid(js, "abs", rerr(abs(z), std::abs(zl)));
        resid(js, "abs-real", rerr(abs(x), fabsl((LD)x)));
        resid(js, "abs2", rerr(abs2(z), (LD)x * x + (LD)y * y));
        resid(js, "angle", (double)(fabsl((LD)angle(z) - atan2l((LD)y, (LD)x)) / (PI_L * EPS)));
        resid(js, "exp", rerr(dsplib::exp(mx), expl((LD)mx)));
        resid(js, "exp-cmplx", cerr(exp(cmplx_t(my, mx)), std::exp(LC(my, mx))) / (1 + std::fabs(mx)));
        resid(js, "expj", cerr(expj(mx), LC(cosl((LD)mx), sinl((LD)mx))) / (1 + std::fabs(mx)));
        resid(js, "log", rerr(dsplib::log(px), logl((LD)px)));
        resid(js, "log2", rerr(dsplib::log2(px), log2l((LD)px)));
        resid(js, "log10", rerr(dsplib::log10(px), log10l((LD)px)));
        resid(js, "tanh", rerr(tanh(arr_real{my})[0], tanhl((LD)my)));
        // complex tanh over the whole plane, saturated arguments included (|re| far beyond where sinh and cosh overflow)
        {
            static const double RE[] = {0.0, 0.3, -2.0, 19.0, -40.0, 355.0, 400.0, -710.0, 1e4, -1e100};
            const double tre = (rng.range(0, 2) == 0) ? RE[rng.range(0, 9)] : my * 3, tim = mx;
            const cmplx_t g = tanh(arr_cmplx{cmplx_t(tre, tim)})[0];
            LC w;
            if (std::fabs(tre) > 30) {
                w = LC(tre > 0 ? 1.0L : -1.0L, 0);   // 1 -+ 2 e^{-2|re|} (...): indistinguishable from +-1 in double
            } else {
                w = std::tanh(LC(tre, tim));
            }
            resid(js, "tanh-cmplx", cerr(g, w) / 8);
        }
        resid(js, "pow2db", (double)(fabsl((LD)pow2db(px) - 10 * log10l((LD)px)) / (EPS * (10 * fabsl(log10l((LD)px)) + 10))));
        resid(js, "mag2db", (double)(fabsl((LD)mag2db(px) - 20 * log10l((LD)px)) / (EPS * (20 * fabsl(log10l((LD)px)) + 20))));
        const double db = (rng.unif() * 2 - 1) * 2000;
        resid(js, "db2pow", rerr(db2pow(db), powl(10.0L, (LD)db / 10)) / (1 + std::fabs(db) / 4));
        resid(js, "db2mag", rerr(db2mag(db), powl(10.0L, (LD)db / 20)) / (1 + std::fabs(db) / 8));
        // round trip d -> 10^(d/10) -> 10 log10: one rounding of the power (relative eps) comes back as 10/ln(10) eps = 4.3 eps
        // ABSOLUTE, whatever d is; plus the roundings proportional to |d|.  (Measuring relative to |d| alone raised a false
        // alarm for |d| < 0.1 in the thorough tier.)
        resid(js, "db-roundtrip", (double)(fabsl((LD)pow2db(db2pow(db / 10)) - (LD)db / 10) / (EPS * (10 + 2 * std::fabs(db / 10)))));
        resid(js, "deg2rad", rerr(deg2rad(x), (LD)x / 180 * PI_L));
        resid(js, "rad2deg", rerr(rad2deg(x), (LD)x / PI_L * 180));
        resid(js, "deg-roundtrip", rerr(rad2deg(deg2rad(x)), (LD)x));
        // powers: exponents in [-8, 8], keep results inside the double range
        const double e = (rng.unif() * 2 - 1) * 8;
        const int ie = (int)rng.range(-8, 8);
        const double bx = std::pow(10.0, -30 + 60 * rng.unif());
        const cmplx_t bz(bx * std::cos(my), bx * std::sin(my));
        const LC bzl(bz.re, bz.im);
        resid(js, "power-rr", rerr(power(bx, e), powl((LD)bx, (LD)e)) / (1 + std::fabs(e * std::log(bx))));
        resid(js, "power-ri", rerr(power(bx, ie), powl((LD)bx, (LD)ie)) / (1 + std::fabs(ie * std::log(bx))));
        resid(js, "power-cr", cerr(power(bz, e), std::pow(bzl, (LD)e)) / (1 + std::fabs(e) * (4 + std::fabs(std::log(bx)))));
        resid(js, "power-ci", cerr(power(bz, ie), std::pow(bzl, ie)) / (1 + std::abs(ie) * (4 + std::fabs(std::log(bx)))));
        {
            const arr_real ev = {e, (double)ie, 0.0, 1.0};
            const arr_cmplx pv = power(bz, ev);
            const arr_real pr = power(bx, ev);
            double w = 0, wr = 0;
            for (int i = 0; i < 4; ++i) {
                w = std::max(w, cerr(pv[i], std::pow(bzl, (LD)ev[i])) / (1 + std::fabs(ev[i]) * (4 + std::fabs(std::log(bx)))));
                wr = std::max(wr, rerr(pr[i], powl((LD)bx, (LD)ev[i])) / (1 + std::fabs(ev[i] * std::log(bx))));
            }
            resid(js, "power-cv", w);
            resid(js, "power-rv", wr);
            const arr_cmplx av = {bz, bz};
            const arr_cmplx p2 = power(av, e), p3 = power(av, ie), p4 = power(av, arr_real{e, (double)ie});
            resid(js, "power-vec", std::max({cerr(p2[1], std::pow(bzl, (LD)e)), cerr(p3[0], std::pow(bzl, ie)), cerr(p4[1], std::pow(bzl, ie))}) /
                                       (1 + 8 * (4 + std::fabs(std::log(bx)))));
        }
        // reductions on wide data: sum / mean / rms / norm / stddev / dot against long double with condition-number scaling
        {
            const int n = (int)rng.range(1, 1000);
            const double base = std::pow(10.0, -100 + 200 * rng.unif());
            arr_real v(n), u(n);
            LD s = 0, sa = 0, s2 = 0, dt = 0, dta = 0;
            for (int i = 0; i < n; ++i) {
                v[i] = base * rng.gauss();
                u[i] = rng.gauss();
                s += v[i], sa += fabsl((LD)v[i]), s2 += (LD)v[i] * v[i], dt += (LD)v[i] * u[i], dta += fabsl((LD)v[i] * u[i]);
            }
            resid(js, "sum", (double)(fabsl((LD)sum(v) - s) / (sa * EPS * n + 1e-320L)));
            resid(js, "mean", (double)(fabsl((LD)mean(v) - s / n) / (sa / n * EPS * n + 1e-320L)));
            resid(js, "dot", (double)(fabsl((LD)dot(v, u) - dt) / (dta * EPS * n + 1e-320L)));
            resid(js, "rms", rerr(rms(v), sqrtl(s2 / n)) / (n / 4.0 + 1));
            resid(js, "norm", rerr(norm(v), sqrtl(s2)) / (n / 4.0 + 1));
            {   // p-norms other than 2, real and complex, and the complex rms (short vectors too)
                const int pn = (int)rng.range(1, 6), nz = (int)rng.range(1, 40);
                const double bs = std::pow(10.0, -20 + 40 * rng.unif());
                arr_real vr(nz);
                arr_cmplx vz(nz);
                LD sr = 0, sz = 0, s2z = 0;
                for (int i = 0; i < nz; ++i) {
                    vr[i] = bs * rng.gauss();
                    vz[i] = cmplx_t(bs * rng.gauss(), bs * rng.gauss());
                    sr += powl(fabsl((LD)vr[i]), pn);
                    const LD az = sqrtl((LD)vz[i].re * vz[i].re + (LD)vz[i].im * vz[i].im);
                    sz += powl(az, pn);
                    s2z += az * az;
                }
                resid(js, "norm-p", rerr(norm(vr, pn), powl(sr, 1.0L / pn)) / (nz / 4.0 + 4));
                resid(js, "norm-p-c", rerr(norm(vz, pn), powl(sz, 1.0L / pn)) / (nz / 4.0 + 4));
                resid(js, "rms-c", rerr(rms(vz), sqrtl(s2z / nz)) / (nz / 4.0 + 2));
            }
            if (n > 1) {
                LD m = s / n, q = 0;
                for (int i = 0; i < n; ++i) {
                    q += ((LD)v[i] - m) * ((LD)v[i] - m);
                }
                resid(js, "stddev", rerr(stddev(v), sqrtl(q / (n - 1))) / (n / 4.0 + 4));
            }
            resid(js, "max", max(v) == *std::max_element(v.begin(), v.end()) && min(v) == *std::min_element(v.begin(), v.end()) ? 0 : 1e9);
            // data riding on an offset up to 1e7 times its spread (real and complex): the deviation, not the offset, is the result's
            // scale.  Tolerance: the usual n eps plus the square of the worst-case error of the mean relative to the spread.
            if (n > 1) {
                const double ratio = std::pow(10.0, 7 * rng.unif());
                const double sigma = std::min(base, 1e80), offr = sigma * ratio * (rng.coin() ? 1 : -1), offi = sigma * ratio * rng.gauss();
                arr_real w(n);
                arr_cmplx z(n);
                LD mr = 0, mi = 0;
                for (int i = 0; i < n; ++i) {
                    w[i] = offr + sigma * rng.gauss();
                    z[i] = cmplx_t(w[i], offi + sigma * rng.gauss());
                    mr += w[i], mi += z[i].im;
                }
                mr /= n, mi /= n;
                LD qr = 0, qz = 0;
                for (int i = 0; i < n; ++i) {
                    qr += ((LD)w[i] - mr) * ((LD)w[i] - mr);
                    qz += ((LD)z[i].re - mr) * ((LD)z[i].re - mr) + ((LD)z[i].im - mi) * ((LD)z[i].im - mi);
                }
                const LD sr = sqrtl(qr / (n - 1)), sz = sqrtl(qz / (n - 1));
                const double cr = (double)(n * EPS * fabsl(mr) / sr), cz = (double)(n * EPS * sqrtl(mr * mr + mi * mi) / sz);
                resid(js, "stddev-offset", (double)(fabsl((LD)stddev(w) - sr) / sr) / ((n / 4.0 + 4) * EPS + cr * cr));
                resid(js, "stddev-offset-c", (double)(fabsl((LD)stddev(z) - sz) / sz) / ((n / 4.0 + 4) * EPS + cz * cz));
            }
        }
    }
}

int main(int argc, char** argv) {
    const std::string mode = vh::arg(argc, argv, "--mode", "shapes");
    const long seed = std::atol(vh::arg(argc, argv, "--seed", "1"));
    const long budget = std::atol(vh::arg(argc, argv, "--budget", "100"));
    FILE* f = vh::open_out(vh::arg(argc, argv, "--out", "/dev/stdout"));
    Json js(f);
    js.flush_each = false;
    vh::Rng rng(seed);
    if (mode == "shapes") {
        run_shapes(js, rng);
    } else if (mode == "reduce") {
        run_reduce(js, rng, budget);
    } else if (mode == "lattice") {
        run_lattice(js);
    } else if (mode == "wide") {
        run_wide(js, rng, budget);
    } else {
        return 3;
    }
    js.flush();
    std::fclose(f);
    return 0;
}
