// Conformance driver for Trace_Array.tla (C03): every operator form x operand-type pairing on
// Gaussian-integer data (exact), value-semantics programs, and large-magnitude single operations
// against a long-double interpreter (T3).
//   array_drv --out trace --mode table --seed S        operator table, lengths 0..3 (+ mismatches)
//   array_drv --out trace --mode program --seed S --budget N
//   array_drv --out trace --mode wide --seed S --budget N
#include "common.h"
#include <dsplib.h>
#include <complex>

using namespace dsplib;
using vh::Json;

struct AV
{
    bool cplx{false};
    std::vector<long> re, im;
    size_t size() const {
        return re.size();
    }
};
static arr_real mkR(const AV& v) {
    arr_real a(v.size());
    for (size_t i = 0; i < v.size(); ++i) {
        a[i] = (double)v.re[i];
    }
    return a;
}
static arr_cmplx mkC(const AV& v) {
    arr_cmplx a(v.size());
    for (size_t i = 0; i < v.size(); ++i) {
        a[i] = cmplx_t((double)v.re[i], (double)v.im[i]);
    }
    return a;
}
static AV from(const arr_real& a) {
    AV v;
    for (int i = 0; i < a.size(); ++i) {
        v.re.push_back(vh::as_int(a[i]));
        v.im.push_back(0);
    }
    return v;
}
static AV from(const arr_cmplx& a) {
    AV v;
    v.cplx = true;
    for (int i = 0; i < a.size(); ++i) {
        v.re.push_back(vh::as_int(a[i].re));
        v.im.push_back(vh::as_int(a[i].im));
    }
    return v;
}
static void put(Json& js, const char* pfx, const AV& v, const char* ty = nullptr) {
    std::string p = pfx;
    js.str((p + "t").c_str(), ty ? ty : (v.cplx ? "C" : "R")).arr((p + "re").c_str(), v.re).arr((p + "im").c_str(), v.im);
}

template<class A, class B>
static auto apply(char op, const A& a, const B& b) -> decltype(a + b) {
    switch (op) {
    case '+': return a + b;
    case '-': return a - b;
    case '*': return a * b;
    default: return a / b;
    }
}
template<class A, class B>
static void compound(char op, A& a, const B& b) {
    switch (op) {
    case '+': a += b; break;
    case '-': a -= b; break;
    case '*': a *= b; break;
    default: a /= b;
    }
}

static const char OPS[] = {'+', '-', '*', '/'};

// ---- generators
static AV gen(vh::Rng& r, bool cplx, int n, bool dividend) {
    AV v;
    v.cplx = cplx;
    for (int i = 0; i < n; ++i) {
        const long m = dividend ? 8 : 1;
        v.re.push_back(m * r.range(-3, 3));
        v.im.push_back(cplx ? m * r.range(-3, 3) : 0);
    }
    return v;
}
static AV gen_div(vh::Rng& r, bool cplx, int n) {   // divisors with |z|^2 in {1,2,4,8}
    static const long D[][2] = {{1, 0}, {-1, 0}, {2, 0}, {-2, 0}, {0, 1}, {0, -1}, {1, 1}, {1, -1}, {-1, 1}, {0, 2}, {2, 2}, {-2, 2}};
    AV v;
    v.cplx = cplx;
    for (int i = 0; i < n; ++i) {
        const auto& d = D[r.range(0, cplx ? 11 : 3)];
        v.re.push_back(d[0]);
        v.im.push_back(cplx ? d[1] : 0);
    }
    return v;
}

// log one binary-form event. F computes the result AV from fresh operands (may throw); it also reports
// the operands after the call.
template<class F>
static void ev_bin(Json& js, const char* form, char op, const AV& a, const AV& b, const char* tb, F&& f) {
    AV r, a2 = a, b2 = b;
    const char* o = vh::outcome([&] { f(r, a2, b2); });
    const std::string ops(1, op);
    js.begin("Bin").str("form", form).str("op", ops);
    put(js, "a", a);
    put(js, "b", b, tb);
    js.str("o", o);
    put(js, "r", r);
    put(js, "a2", a2);
    put(js, "b2", b2, tb);
    js.end();
}

template<class TA, class TB, class MA, class MB>
static void bin_aa(Json& js, char op, const AV& a, const AV& b, MA mka, MB mkb) {
    ev_bin(js, "AA", op, a, b, nullptr, [&](AV& r, AV& a2, AV& b2) {
        TA x = mka(a);
        TB y = mkb(b);
        try {
            auto z = apply(op, x, y);
            r = from(z);
        } catch (...) {
            a2 = from(x), b2 = from(y);
            throw;
        }
        a2 = from(x), b2 = from(y);
    });
}
template<class TA, class TB, class MA, class MB>
static void bin_caa(Json& js, char op, const AV& a, const AV& b, MA mka, MB mkb) {
    ev_bin(js, "CAA", op, a, b, nullptr, [&](AV& r, AV& a2, AV& b2) {
        TA x = mka(a);
        TB y = mkb(b);
        try {
            compound(op, x, y);
        } catch (...) {
            a2 = from(x), b2 = from(y);
            throw;
        }
        r = from(x), a2 = from(x), b2 = from(y);
    });
}
// alias: a op= a ; a op a
template<class TA, class MA>
static void bin_alias(Json& js, char op, const AV& a, MA mka) {
    ev_bin(js, "CAA", op, a, a, nullptr, [&](AV& r, AV& a2, AV& b2) {
        TA x = mka(a);
        compound(op, x, x);
        r = from(x), a2 = r, b2 = r;
        b2 = a;   // "b" is the same object: report the pre-state as b2 to keep the record well formed
        a2 = r;
    });
    ev_bin(js, "AA", op, a, a, nullptr, [&](AV& r, AV& a2, AV& b2) {
        TA x = mka(a);
        auto z = apply(op, x, x);
        r = from(z), a2 = from(x), b2 = a2;
    });
}
template<class TA, class S, class MA>
static void bin_as(Json& js, char op, const AV& a, const AV& s, const char* kind, S sv, MA mka) {
    ev_bin(js, "AS", op, a, s, kind, [&](AV& r, AV& a2, AV&) {
        TA x = mka(a);
        auto z = apply(op, x, sv);
        r = from(z), a2 = from(x);
    });
    ev_bin(js, "SA", op, a, s, kind, [&](AV& r, AV& a2, AV&) {
        TA x = mka(a);
        auto z = apply(op, sv, x);
        r = from(z), a2 = from(x);
    });
}
template<class TA, class S, class MA>
static void bin_cas(Json& js, char op, const AV& a, const AV& s, const char* kind, S sv, MA mka) {
    ev_bin(js, "CAS", op, a, s, kind, [&](AV& r, AV& a2, AV&) {
        TA x = mka(a);
        compound(op, x, sv);
        r = from(x), a2 = r;
    });
}

static void run_table(Json& js, vh::Rng& rng, int reps) {
    for (int rep = 0; rep < reps; ++rep) {
        for (int n = 0; n <= 3; ++n) {
            for (char op : OPS) {
                const bool dv = op == '/';
                for (int nb : {n, n + 1, (n + 2) % 4}) {   // equal and mismatched lengths
                    AV aR = gen(rng, false, n, dv), aC = gen(rng, true, n, dv);
                    AV bR = dv ? gen_div(rng, false, nb) : gen(rng, false, nb, false);
                    AV bC = dv ? gen_div(rng, true, nb) : gen(rng, true, nb, false);
                    bin_aa<arr_real, arr_real>(js, op, aR, bR, mkR, mkR);
                    bin_aa<arr_real, arr_cmplx>(js, op, aR, bC, mkR, mkC);
                    bin_aa<arr_cmplx, arr_real>(js, op, aC, bR, mkC, mkR);
                    bin_aa<arr_cmplx, arr_cmplx>(js, op, aC, bC, mkC, mkC);
                    bin_caa<arr_real, arr_real>(js, op, aR, bR, mkR, mkR);
                    bin_caa<arr_cmplx, arr_real>(js, op, aC, bR, mkC, mkR);
                    bin_caa<arr_cmplx, arr_cmplx>(js, op, aC, bC, mkC, mkC);
                }
                // alias forms
                {
                    AV aR = dv ? gen_div(rng, false, n) : gen(rng, false, n, false);
                    AV aC = dv ? gen_div(rng, true, n) : gen(rng, true, n, false);
                    bin_alias<arr_real>(js, op, aR, mkR);
                    bin_alias<arr_cmplx>(js, op, aC, mkC);
                }
                // scalars on either side
                {
                    AV aR = gen(rng, false, n, dv), aC = gen(rng, true, n, dv);
                    AV sR = dv ? gen_div(rng, false, 1) : gen(rng, false, 1, false);
                    AV sC = dv ? gen_div(rng, true, 1) : gen(rng, true, 1, false);
                    // dividend on the left of "scalar / array": make the scalar a multiple of 8 and the array a divisor
                    AV dR = dv ? gen_div(rng, false, n) : aR, dC = dv ? gen_div(rng, true, n) : aC;
                    AV s8R = gen(rng, false, 1, dv), s8C = gen(rng, true, 1, dv);
                    const double sr = (double)sR.re[0];
                    const int si = (int)sR.re[0];
                    const cmplx_t sc((double)sC.re[0], (double)sC.im[0]);
                    const std::complex<double> ss((double)sC.re[0], (double)sC.im[0]);
                    // array op scalar (array is the dividend)
                    auto AS = [&](auto tag, const AV& a, auto mk) {
                        using TA = decltype(tag);
                        ev_bin(js, "AS", op, a, sR, "real", [&](AV& r, AV& a2, AV&) { TA x = mk(a); r = from(apply(op, x, sr)); a2 = from(x); });
                        ev_bin(js, "AS", op, a, sR, "int", [&](AV& r, AV& a2, AV&) { TA x = mk(a); r = from(apply(op, x, si)); a2 = from(x); });
                        ev_bin(js, "AS", op, a, sC, "cmplx", [&](AV& r, AV& a2, AV&) { TA x = mk(a); r = from(apply(op, x, sc)); a2 = from(x); });
                    };
                    AS(arr_real(), aR, mkR);
                    AS(arr_cmplx(), aC, mkC);
                    ev_bin(js, "AS", op, aC, sC, "std", [&](AV& r, AV& a2, AV&) { arr_cmplx x = mkC(aC); r = from(apply(op, x, ss)); a2 = from(x); });
                    if (op == '*') {
                        ev_bin(js, "AS", op, aR, sC, "std", [&](AV& r, AV& a2, AV&) { arr_real x = mkR(aR); r = from(x * ss); a2 = from(x); });
                        ev_bin(js, "SA", op, aR, sC, "std", [&](AV& r, AV& a2, AV&) { arr_real x = mkR(aR); r = from(ss * x); a2 = from(x); });
                    }
                    // scalar op array (scalar is the dividend)
                    const double lr = (double)s8R.re[0];
                    const int li = (int)s8R.re[0];
                    const cmplx_t lc((double)s8C.re[0], (double)s8C.im[0]);
                    auto SA = [&](auto tag, const AV& a, auto mk) {
                        using TA = decltype(tag);
                        ev_bin(js, "SA", op, a, s8R, "real", [&](AV& r, AV& a2, AV&) { TA x = mk(a); r = from(apply(op, lr, x)); a2 = from(x); });
                        ev_bin(js, "SA", op, a, s8R, "int", [&](AV& r, AV& a2, AV&) { TA x = mk(a); r = from(apply(op, li, x)); a2 = from(x); });
                        ev_bin(js, "SA", op, a, s8C, "cmplx", [&](AV& r, AV& a2, AV&) { TA x = mk(a); r = from(apply(op, lc, x)); a2 = from(x); });
                    };
                    SA(arr_real(), dR, mkR);
                    SA(arr_cmplx(), dC, mkC);
                    // std::complex on either side, every operator (the dividend on the left, a divisor array on the right)
                    {
                        const std::complex<double> ls((double)s8C.re[0], (double)s8C.im[0]);
                        ev_bin(js, "SA", op, dC, s8C, "std", [&](AV& r, AV& a2, AV&) { arr_cmplx x = mkC(dC); r = from(apply(op, ls, x)); a2 = from(x); });
                        ev_bin(js, "AS", op, aC, sC, "std", [&](AV& r, AV& a2, AV&) { arr_cmplx x = mkC(aC); r = from(apply(op, x, ss)); a2 = from(x); });
                    }
                    // compound with scalars
                    ev_bin(js, "CAS", op, aR, sR, "real", [&](AV& r, AV& a2, AV&) { arr_real x = mkR(aR); compound(op, x, sr); r = from(x); a2 = r; });
                    ev_bin(js, "CAS", op, aR, sR, "int", [&](AV& r, AV& a2, AV&) { arr_real x = mkR(aR); compound(op, x, si); r = from(x); a2 = r; });
                    ev_bin(js, "CAS", op, aC, sR, "real", [&](AV& r, AV& a2, AV&) { arr_cmplx x = mkC(aC); compound(op, x, sr); r = from(x); a2 = r; });
                    ev_bin(js, "CAS", op, aC, sR, "int", [&](AV& r, AV& a2, AV&) { arr_cmplx x = mkC(aC); compound(op, x, si); r = from(x); a2 = r; });
                    ev_bin(js, "CAS", op, aC, sC, "cmplx", [&](AV& r, AV& a2, AV&) { arr_cmplx x = mkC(aC); compound(op, x, sc); r = from(x); a2 = r; });
                    // the scalar operand is an element of the array itself (x op= x[k]): every element sees the value x[k] had
                    // when the statement began
                    for (int k : {0, n - 1}) {
                        if (n < 1 || (k == 0 && n == 1 && false)) {
                            continue;
                        }
                        AV eR = aR, eC = aC;
                        if (dv) {
                            const AV d1 = gen_div(rng, false, 1), d2 = gen_div(rng, true, 1);
                            eR.re[k] = d1.re[0];
                            eC.re[k] = d2.re[0], eC.im[k] = d2.im[0];
                        }
                        AV kR, kC;
                        kR.cplx = false, kR.re = {eR.re[k]}, kR.im = {0};
                        kC.cplx = true, kC.re = {eC.re[k]}, kC.im = {eC.im[k]};
                        ev_bin(js, "CAS", op, eR, kR, "real", [&](AV& r, AV& a2, AV&) { arr_real x = mkR(eR); compound(op, x, x[k]); r = from(x); a2 = r; });
                        ev_bin(js, "CAS", op, eC, kC, "cmplx", [&](AV& r, AV& a2, AV&) { arr_cmplx x = mkC(eC); compound(op, x, x[k]); r = from(x); a2 = r; });
                    }
                }
            }
            // scalars among themselves (cmplx_t with cmplx_t / real / int on either side, compound forms): logged as one-element
            // arrays so that the same clauses judge them
            if (n == 1) {
                for (char op : OPS) {
                    const bool dv = op == '/';
                    const AV zC = gen(rng, true, 1, dv), wC = dv ? gen_div(rng, true, 1) : gen(rng, true, 1, false);
                    const AV wR = dv ? gen_div(rng, false, 1) : gen(rng, false, 1, false);
                    const AV lC = dv ? gen_div(rng, true, 1) : zC;                 // divisor when the complex value stands on the right
                    const AV s8 = gen(rng, false, 1, dv);
                    const cmplx_t z((double)zC.re[0], (double)zC.im[0]), w((double)wC.re[0], (double)wC.im[0]), lz((double)lC.re[0], (double)lC.im[0]);
                    const double wr = (double)wR.re[0], lr = (double)s8.re[0];
                    const int wi = (int)wR.re[0], li = (int)s8.re[0];
                    auto one = [](cmplx_t v) { AV r; r.cplx = true; r.re = {vh::as_int(v.re)}; r.im = {vh::as_int(v.im)}; return r; };
                    auto sc = [&](char o, auto a, auto b) { return o == '+' ? cmplx_t(a + b) : o == '-' ? cmplx_t(a - b) : o == '*' ? cmplx_t(a * b) : cmplx_t(a / b); };
                    ev_bin(js, "AS", op, zC, wC, "cmplx", [&](AV& r, AV& a2, AV&) { r = one(sc(op, z, w)); a2 = zC; });
                    ev_bin(js, "AS", op, zC, wR, "real", [&](AV& r, AV& a2, AV&) { r = one(sc(op, z, wr)); a2 = zC; });
                    ev_bin(js, "AS", op, zC, wR, "int", [&](AV& r, AV& a2, AV&) { r = one(sc(op, z, wi)); a2 = zC; });
                    ev_bin(js, "SA", op, lC, s8, "real", [&](AV& r, AV& a2, AV&) { r = one(sc(op, lr, lz)); a2 = lC; });
                    ev_bin(js, "SA", op, lC, s8, "int", [&](AV& r, AV& a2, AV&) { r = one(sc(op, li, lz)); a2 = lC; });
                    ev_bin(js, "CAS", op, zC, wC, "cmplx", [&](AV& r, AV& a2, AV&) { cmplx_t v = z; if (op == '+') v += w; else if (op == '-') v -= w; else if (op == '*') v *= w; else v /= w; r = one(v); a2 = r; });
                    ev_bin(js, "CAS", op, zC, wR, "real", [&](AV& r, AV& a2, AV&) { cmplx_t v = z; if (op == '+') v += wr; else if (op == '-') v -= wr; else if (op == '*') v *= wr; else v /= wr; r = one(v); a2 = r; });
                }
            }
            // signed zeros: unary minus flips the sign bit of every component, also of zeros; real element-wise results carry the
            // sign IEEE arithmetic gives them; complex sums and differences are componentwise
            {
                static const double SZ[] = {0.0, -0.0, 1.0, -1.0};
                bool ok = true;
                for (double a : SZ) {
                    for (double b : SZ) {
                        const arr_real x = {a, b}, y = {b, a};
                        const arr_cmplx u = {cmplx_t(a, b), cmplx_t(b, a)}, v = {cmplx_t(b, b), cmplx_t(a, -a)};
                        auto same = [](double p, double q) { return p == q && std::signbit(p) == std::signbit(q); };
                        const arr_real nx = -x, sx = x + y, dx = x - y, mx = x * y;
                        const arr_cmplx nu = -u, su = u + v, du = u - v;
                        // scalar on either side (real): the same single IEEE operation per element
                        const arr_real sl = a - y, sr = y - a, pl = a + y, pr = y + a, ml = a * y, mr = y * a;
                        for (int i = 0; i < 2; ++i) {
                            ok = ok && same(sl[i], a - y[i]) && same(sr[i], y[i] - a) && same(pl[i], a + y[i]) && same(pr[i], y[i] + a);
                            ok = ok && same(ml[i], a * y[i]) && same(mr[i], y[i] * a);
                            ok = ok && same(nx[i], -x[i]) && same(sx[i], x[i] + y[i]) && same(dx[i], x[i] - y[i]) && same(mx[i], x[i] * y[i]);
                            ok = ok && same(nu[i].re, -u[i].re) && same(nu[i].im, -u[i].im);
                            ok = ok && same(su[i].re, u[i].re + v[i].re) && same(su[i].im, u[i].im + v[i].im);
                            ok = ok && same(du[i].re, u[i].re - v[i].re) && same(du[i].im, u[i].im - v[i].im);
                        }
                    }
                }
                js.begin("Resid").str("clause", "C03.signed-zero").num("err_milli", ok ? 0 : 1000000).end();
            }
            // unary, concatenation, selection
            AV aR = gen(rng, false, n, false), aC = gen(rng, true, n, false);
            for (int c = 0; c < 2; ++c) {
                const AV& a = c ? aC : aR;
                AV r, r2, a2;
                if (c) {
                    arr_cmplx x = mkC(a);
                    r = from(-x), r2 = from(+x), a2 = from(x);
                } else {
                    arr_real x = mkR(a);
                    r = from(-x), r2 = from(+x), a2 = from(x);
                }
                js.begin("Unary");
                put(js, "a", a);
                put(js, "r", r);
                put(js, "p", r2);
                put(js, "a2", a2);
                js.end();
            }
            for (int m = 0; m <= 3; ++m) {
                AV bR = gen(rng, false, m, false), bC = gen(rng, true, m, false);
                auto cat = [&](const char* kind, const AV& a, const AV& b, const AV& r, const AV& a2, const AV& b2) {
                    js.begin("Concat").str("kind", kind);
                    put(js, "a", a);
                    put(js, "b", b);
                    put(js, "r", r);
                    put(js, "a2", a2);
                    put(js, "b2", b2);
                    js.end();
                };
                { arr_real x = mkR(aR), y = mkR(bR); auto z = x | y; cat("|", aR, bR, from(z), from(x), from(y)); }
                { arr_real x = mkR(aR); arr_cmplx y = mkC(bC); auto z = x | y; cat("|", aR, bC, from(z), from(x), from(y)); }
                { arr_cmplx x = mkC(aC); arr_real y = mkR(bR); auto z = x | y; cat("|", aC, bR, from(z), from(x), from(y)); }
                { arr_cmplx x = mkC(aC), y = mkC(bC); auto z = x | y; cat("|", aC, bC, from(z), from(x), from(y)); }
                { arr_real x = mkR(aR), y = mkR(bR); x |= y; cat("|=", aR, bR, from(x), from(x), from(y)); }
                { arr_cmplx x = mkC(aC); arr_real y = mkR(bR); x |= y; cat("|=", aC, bR, from(x), from(x), from(y)); }
                { arr_cmplx x = mkC(aC), y = mkC(bC); x |= y; cat("|=", aC, bC, from(x), from(x), from(y)); }
                { arr_real x = mkR(aR); x |= x; cat("|=self", aR, aR, from(x), from(x), aR); }
                { arr_cmplx x = mkC(aC); x |= x; cat("|=self", aC, aC, from(x), from(x), aC); }
                // concatenate(a1..a5) with empty operands in any position
                {
                    std::vector<AV> parts;
                    for (int k = 0; k < 5; ++k) {
                        parts.push_back(gen(rng, false, (int)rng.range(0, 2) * (int)rng.range(0, 2), false));
                    }
                    const int np = (int)rng.range(2, 5);
                    arr_real p0 = mkR(parts[0]), p1 = mkR(parts[1]), p2 = mkR(parts[2]), p3 = mkR(parts[3]), p4 = mkR(parts[4]);
                    arr_real z = np == 2 ? concatenate(p0, p1) : np == 3 ? concatenate(p0, p1, p2)
                               : np == 4 ? concatenate(p0, p1, p2, p3) : concatenate(p0, p1, p2, p3, p4);
                    AV all;
                    for (int k = 0; k < np; ++k) {
                        all.re.insert(all.re.end(), parts[k].re.begin(), parts[k].re.end());
                        all.im.insert(all.im.end(), parts[k].im.begin(), parts[k].im.end());
                    }
                    std::vector<long> lens;
                    for (int k = 0; k < np; ++k) {
                        lens.push_back(parts[k].size());
                    }
                    js.begin("ConcatN").arr("lens", lens);
                    put(js, "a", all);
                    put(js, "r", from(z));
                    js.end();
                }
            }
            // index lists with structure on a longer array: permuted runs (first and last count-1 apart), repeats, reversals
            if (n == 3) {
                const AV bigR = gen(rng, false, 9, false), bigC = gen(rng, true, 9, false);
                static const std::vector<std::vector<int>> LISTS = {{1, 3, 2, 4}, {0, 0, 2}, {2, 5, 3, 4, 6}, {4, 3, 2, 1}, {0, 2, 1, 3, 5, 4, 6},
                                                                    {8, 0}, {3, 3, 3}, {1, 2, 3, 4}, {7, 5, 6, 8}, {0, 8, 1, 7, 2}};
                for (const auto& ii : LISTS) {
                    const std::vector<long> ix(ii.begin(), ii.end());
                    for (int c = 0; c < 2; ++c) {
                        const AV& a = c ? bigC : bigR;
                        AV r2, r3;
                        const char* o2 = vh::outcome([&] {
                            r2 = c ? from(mkC(a)[ii]) : from(mkR(a)[ii]);
                            r3 = c ? from(mkC(a)[arr_int(ii)]) : from(mkR(a)[arr_int(ii)]);
                        });
                        for (const AV* r : {&r2, &r3}) {
                            js.begin("Select").str("kind", "idx");
                            put(js, "a", a);
                            js.arr("sel", ix).str("o", o2);
                            put(js, "r", *r);
                            js.end();
                        }
                    }
                }
            }
            // masks on longer arrays: a single selected element at every position in turn, and sparse random masks
            if (n == 2) {
                for (int len : {8, 17, 24}) {
                    const AV lR = gen(rng, false, len, false), lC = gen(rng, true, len, false);
                    for (int pos = -2; pos < len; ++pos) {
                        std::vector<long> mask(len, 0);
                        if (pos >= 0) {
                            mask[pos] = 1;
                        } else {
                            for (int q = 0; q < 3; ++q) {
                                mask[rng.range(0, len - 1)] = 1;
                            }
                        }
                        const std::vector<bool> mb(mask.begin(), mask.end());
                        for (int c = 0; c < 2; ++c) {
                            const AV& a = c ? lC : lR;
                            AV r;
                            const char* o = vh::outcome([&] { r = c ? from(mkC(a)[mb]) : from(mkR(a)[mb]); });
                            js.begin("Select").str("kind", "mask");
                            put(js, "a", a);
                            js.arr("sel", mask).str("o", o);
                            put(js, "r", r);
                            js.end();
                        }
                    }
                }
                // concatenate() of long operands (compared here, element by element and bit by bit)
                for (int c = 0; c < 2; ++c) {
                    const int l1 = (int)rng.range(4000, 9000), l2 = (int)rng.range(0, 3), l3 = (int)rng.range(4096, 5000);
                    bool same = true;
                    if (c) {
                        arr_cmplx p1(l1), p2(l2), p3(l3);
                        for (int i = 0; i < l1; ++i) { p1[i] = cmplx_t(rng.gauss(), rng.gauss()); }
                        for (int i = 0; i < l2; ++i) { p2[i] = cmplx_t(rng.gauss(), rng.gauss()); }
                        for (int i = 0; i < l3; ++i) { p3[i] = cmplx_t(rng.gauss(), rng.gauss()); }
                        const arr_cmplx z = concatenate(p1, p2, p3);
                        same = z.size() == l1 + l2 + l3;
                        for (int i = 0; same && i < z.size(); ++i) {
                            const cmplx_t w = i < l1 ? p1[i] : i < l1 + l2 ? p2[i - l1] : p3[i - l1 - l2];
                            same = std::memcmp(&w, &z[i], sizeof(w)) == 0;
                        }
                    } else {
                        arr_real p1(l1), p2(l2), p3(l3);
                        for (int i = 0; i < l1; ++i) { p1[i] = rng.gauss(); }
                        for (int i = 0; i < l2; ++i) { p2[i] = rng.gauss(); }
                        for (int i = 0; i < l3; ++i) { p3[i] = rng.gauss(); }
                        const arr_real z = concatenate(p1, p2, p3);
                        same = z.size() == l1 + l2 + l3;
                        for (int i = 0; same && i < z.size(); ++i) {
                            const double w = i < l1 ? p1[i] : i < l1 + l2 ? p2[i - l1] : p3[i - l1 - l2];
                            same = std::memcmp(&w, &z[i], sizeof(w)) == 0;
                        }
                    }
                    js.begin("Resid").str("clause", "C03.concat-long").boolean("cplx", c).num("err_milli", same ? 0 : 1000000000L).end();
                }
            }
            // selections
            for (int c = 0; c < 2; ++c) {
                const AV& a = c ? aC : aR;
                std::vector<long> mask;
                std::vector<bool> mb;
                for (int i = 0; i < n + (int)(rng.range(0, 4) == 0); ++i) {
                    mask.push_back(rng.coin());
                    mb.push_back(mask.back());
                }
                AV r;
                const char* o = vh::outcome([&] { r = c ? from(mkC(a)[mb]) : from(mkR(a)[mb]); });
                js.begin("Select").str("kind", "mask");
                put(js, "a", a);
                js.arr("sel", mask).str("o", o);
                put(js, "r", r);
                js.end();
                if (n > 0) {
                    std::vector<long> ix;
                    std::vector<int> ii;
                    for (int i = 0; i < (int)rng.range(1, 5); ++i) {
                        ix.push_back(rng.range(0, n - 1));
                        ii.push_back((int)ix.back());
                    }
                    AV r2, r3;
                    const char* o2 = vh::outcome([&] {
                        r2 = c ? from(mkC(a)[ii]) : from(mkR(a)[ii]);
                        r3 = c ? from(mkC(a)[arr_int(ii)]) : from(mkR(a)[arr_int(ii)]);
                    });
                    js.begin("Select").str("kind", "idx");
                    put(js, "a", a);
                    js.arr("sel", ix).str("o", o2);
                    put(js, "r", r2);
                    js.end();
                    js.begin("Select").str("kind", "idx");
                    put(js, "a", a);
                    js.arr("sel", ix).str("o", o2);
                    put(js, "r", r3);
                    js.end();
                }
            }
        }
    }
}

// ---------------------------------------------------------------- value-semantics programs
struct Env
{
    arr_real a, b;
    arr_cmplx c;
};
static void log_env(Json& js, const Env& e) {
    put(js, "A", from(e.a));
    put(js, "B", from(e.b));
    put(js, "C", from(e.c));
}
static void run_program(Json& js, vh::Rng& rng, long budget) {
    for (long t = 0; t < budget;) {
        Env e;
        e.a = mkR(gen(rng, false, (int)rng.range(0, 3), false));
        e.b = mkR(gen(rng, false, (int)rng.range(0, 3), false));
        e.c = mkC(gen(rng, true, (int)rng.range(0, 3), false));
        js.begin("Prog0");
        log_env(js, e);
        js.end();
        const int steps = (int)rng.range(2, 6);
        for (int s = 0; s < steps; ++s, ++t) {
            const int k = (int)rng.range(0, 9);
            const char ops[] = {'+', '-', '*'};
            const char op = ops[rng.range(0, 2)];
            const std::string sop(1, op);
            std::string kind, dst, src, a1, b1;
            long idx = 0, val = 0;
            const char* o = vh::outcome([&] {
                switch (k) {
                case 0: kind = "copy", dst = "a", src = "b"; e.a = e.b; break;
                case 1: kind = "copy", dst = "b", src = "a"; { arr_real tmp(e.a); e.b = tmp; } break;
                case 2: kind = "compound", dst = "a", src = "b"; compound(op, e.a, e.b); break;
                case 3: kind = "compound", dst = "c", src = "a"; compound(op, e.c, e.a); break;
                case 4: kind = "compound", dst = rng.coin() ? "a" : "c", src = dst;
                    if (dst == "a") { compound(op, e.a, e.a); } else { compound(op, e.c, e.c); }
                    break;
                case 5: kind = "binary", dst = "c", a1 = "a", b1 = "c"; e.c = apply(op, e.a, e.c); break;
                case 6: kind = "binary", dst = "a", a1 = "a", b1 = "b"; e.a = apply(op, e.a, e.b); break;
                case 7: kind = "neg", dst = "b", src = "a"; e.b = -e.a; break;
                case 8: kind = "cat", dst = rng.coin() ? "a" : "c", src = rng.coin() ? dst : "b";
                    if (dst == "a") { if (src == "a") { e.a |= e.a; } else { e.a |= e.b; } }
                    else { if (src == "c") { e.c |= e.c; } else { e.c |= e.b; } }
                    break;
                default: kind = "set", dst = "b", idx = 0, val = rng.range(-9, 9);
                    if (e.b.size() > 0) { e.b[0] = (double)val; } else { kind = "copy", dst = "b", src = "b"; }
                }
            });
            js.begin("ProgStep").str("k", kind).str("op", sop).str("dst", dst).str("src", src).str("a", a1).str("b", b1)
              .num("i", idx).num("v", val).str("o", o);
            log_env(js, e);
            js.end();
            // keep magnitudes and lengths small
            bool big = e.a.size() > 12 || e.c.size() > 12;
            for (int i = 0; i < e.a.size(); ++i) { big = big || std::fabs(e.a[i]) > 1e6; }
            for (int i = 0; i < e.c.size(); ++i) { big = big || std::fabs(e.c[i].re) > 1e6 || std::fabs(e.c[i].im) > 1e6; }
            if (big) {
                break;
            }
        }
    }
}

// ---------------------------------------------------------------- T3: wide magnitudes vs long double
static double wide(vh::Rng& r) {
    const int k = (int)r.range(0, 9);
    if (k == 0) { return 0.0; }
    if (k == 1) { return -0.0; }
    const double m = std::pow(10.0, -100 + 200 * r.unif());
    return (r.coin() ? m : -m) * (1 + r.unif());
}
static void run_wide(Json& js, vh::Rng& rng, long budget) {
    using LC = std::complex<long double>;
    for (long t = 0; t < budget; ++t) {
        const int n = (int)rng.range(1, 64);
        const char op = OPS[rng.range(0, 3)];
        arr_cmplx a(n), b(n);
        for (int i = 0; i < n; ++i) {
            a[i] = cmplx_t(wide(rng), wide(rng));
            b[i] = cmplx_t(wide(rng), wide(rng));
            if (op == '/' && b[i].re == 0 && b[i].im == 0) {
                b[i].re = 1;
            }
            // keep products/quotients of the textbook formulas inside the double range (|.| in 1e-100..1e100)
        }
        const arr_cmplx z = apply(op, a, b);
        double worst = 0;
        for (int i = 0; i < n; ++i) {
            LC x(a[i].re, a[i].im), y(b[i].re, b[i].im), w;
            switch (op) {
            case '+': w = x + y; break;
            case '-': w = x - y; break;
            case '*': w = LC(x.real() * y.real() - x.imag() * y.imag(), x.real() * y.imag() + x.imag() * y.real()); break;
            default: {
                const long double d = y.real() * y.real() + y.imag() * y.imag();
                w = LC((x.real() * y.real() + x.imag() * y.imag()) / d, (y.real() * x.imag() - x.real() * y.imag()) / d);
            }
            }
            // scale of each component: sum of the magnitudes of the terms that form it (cancellation is not an error)
            long double sre, sim;
            if (op == '+' || op == '-') {
                sre = std::fabs(x.real()) + std::fabs(y.real()), sim = std::fabs(x.imag()) + std::fabs(y.imag());
            } else if (op == '*') {
                sre = std::fabs(x.real() * y.real()) + std::fabs(x.imag() * y.imag());
                sim = std::fabs(x.real() * y.imag()) + std::fabs(x.imag() * y.real());
            } else {
                const long double d = y.real() * y.real() + y.imag() * y.imag();
                sre = (std::fabs(x.real() * y.real()) + std::fabs(x.imag() * y.imag())) / d;
                sim = (std::fabs(y.real() * x.imag()) + std::fabs(x.real() * y.imag())) / d;
            }
            const double ere = (double)(std::fabs((long double)z[i].re - w.real()) / (8 * 2.22e-16L * sre + 1e-320L));
            const double eim = (double)(std::fabs((long double)z[i].im - w.imag()) / (8 * 2.22e-16L * sim + 1e-320L));
            if (std::isfinite((double)sre) && std::isfinite((double)sim) && sre < 1e300 && sim < 1e300) {
                worst = std::max(worst, std::max(ere, eim));
            }
        }
        const std::string sop(1, op);
        js.begin("Resid").str("clause", "C03.wide").str("op", sop).num("n", n)
          .num("err_milli", (long)std::min(1e9, worst * 1000)).end();
    }
}

int main(int argc, char** argv) {
    const std::string mode = vh::arg(argc, argv, "--mode", "table");
    const long seed = std::atol(vh::arg(argc, argv, "--seed", "1"));
    const long budget = std::atol(vh::arg(argc, argv, "--budget", "200"));
    FILE* f = vh::open_out(vh::arg(argc, argv, "--out", "/dev/stdout"));
    Json js(f);
    vh::Rng rng(seed);
    const char* jp = vh::arg(argc, argv, "--journal", "");
    (void)jp;
    if (mode == "table") {
        run_table(js, rng, (int)budget);
    } else if (mode == "program") {
        js.flush_each = false;
        run_program(js, rng, budget);
    } else if (mode == "wide") {
        js.flush_each = false;
        run_wide(js, rng, budget);
    } else {
        return 3;
    }
    js.flush();
    std::fclose(f);
    return 0;
}
