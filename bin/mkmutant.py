"""mk(name, [(path, old, new), ...]) inside a scratch worktree (cwd): writes /verif/mutants/<name>.patch"""
import subprocess, sys
sys.path.insert(0, '/verif/bin')
from redit import redit


def mk(name, edits, outdir='/verif/mutants'):
    for (p, o, n) in edits:
        redit(p, o, n)
    d = subprocess.run(['git', 'diff', '--binary'], capture_output=True).stdout
    open('%s/%s.patch' % (outdir, name), 'wb').write(d)
    subprocess.run(['git', 'checkout', '--', '.'])
