"""Line-ending preserving replace for files in /repo: redit(path, old, new[, count])."""
import sys


def redit(path, old, new, count=1):
    s = open(path, newline='').read()
    crlf = '\r\n' in s
    if crlf:
        old = old.replace('\r\n', '\n').replace('\n', '\r\n')
        new = new.replace('\r\n', '\n').replace('\n', '\r\n')
    n = s.count(old)
    if n != count:
        raise SystemExit("redit: %s: expected %d occurrence(s), found %d of:\n%s" % (path, count, n, old))
    s = s.replace(old, new)
    open(path, 'w', newline='').write(s)
