------------------------------ MODULE AgcLoop ------------------------------
(***************************************************************************)
(* The gain loop of Agc (lib/agc.cpp), one action per sample, in fixed     *)
(* point: every quantity is a natural logarithm in UNIT-ths of a neper.    *)
(*                                                                         *)
(*   err = target - ln(power estimate) - 2 g                               *)
(*   g  <- g + err / R      R = Rrise if err > 1 neper, else Rfall         *)
(*   g  <- min(g, gmax)     (every sample, before the gain is applied)     *)
(*   applied gain = exp(g)                                                 *)
(*                                                                         *)
(* (the library multiplies by the step sizes t_rise / t_fall; the model    *)
(* takes their reciprocals so that 32-bit integers suffice.)               *)
(* Variant "hoisted": the limit is enforced once per frame of FrameLen     *)
(* samples instead of every sample - the applied gain may then exceed it.  *)
(***************************************************************************)
EXTENDS AgcStep

CONSTANTS Unit,        \* fixed-point units per neper
          Levels,      \* ln-power levels the input may take
          Targets,     \* ln of the target power
          GMax,        \* ln of the gain limit
          Rr, Rf,      \* reciprocal step sizes
          G0,          \* initial loop state (the library starts at 1 neper)
          Variant,     \* "persample" | "hoisted"
          FrameLen

VARIABLES g,           \* loop state
          applied,     \* ln of the gain applied to the last sample
          lp, target,  \* current input level, target (chosen at Init; the level may switch)
          k            \* position in the frame
vars == <<g, applied, lp, target, k>>

Init == /\ g = G0 /\ applied = G0 /\ lp \in Levels /\ target \in Targets /\ k = 0

Sample ==
    /\ LET raw == Raw(g, lp, target, Unit, Rr, Rf)
           lim == Min(raw, GMax)
       IN IF Variant = "persample"
          THEN g' = lim /\ applied' = lim
          ELSE /\ applied' = lim
               /\ g' = IF k + 1 = FrameLen THEN lim ELSE raw
    /\ k' = (k + 1) % FrameLen
    /\ UNCHANGED <<lp, target>>
Switch == /\ lp' \in Levels \ {lp} /\ UNCHANGED <<g, applied, target, k>>
Next == Sample \/ Switch
Spec == Init /\ [][Next]_vars
FairSpec == Spec /\ WF_vars(Sample)

Need == Div(target - lp, 2)                    \* ln of the gain that meets the target
Err == target - lp - 2 * g

(* the loop state and the applied gain never exceed the limit *)
Bounded == applied <= GMax
StateBounded == g <= GMax
(* no overshoot: with reciprocal step sizes above 2 the state never crosses the point it is heading for *)
NoOvershoot == [][Sample => (Err >= 0 => Err' >= 0) /\ (Err <= 0 => Err' <= 0)]_vars
(* left alone at one level the loop settles: within one step's truncation of the needed gain, or at the limit *)
Settled == Abs(Err) < (IF Rr > Rf THEN Rr ELSE Rf) \/ (g = GMax /\ Err > 0)
(* under a constant level (no Switch taken): eventually always settled *)
ConstSpec == Init /\ [][Sample]_vars /\ WF_vars(Sample)
EventuallySettled == <>[]Settled
(* the closed form agrees with the stepwise loop (used by the trace specification) *)
RunAgrees == \A n \in 0..3 : Run(g, lp, n, target, GMax, Unit, Rr, Rf) =
                 (IF n = 0 THEN g ELSE Run(Step(g, lp, target, GMax, Unit, Rr, Rf), lp, n - 1, target, GMax, Unit, Rr, Rf))
Bound == g >= -40 * Unit /\ g <= 40 * Unit
=============================================================================
