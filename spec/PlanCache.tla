----------------------------- MODULE PlanCache -----------------------------
(***************************************************************************)
(* Per-thread LRU caches of FFT plans (properties C10 and, for confinement, *)
(* C09).  cache[t][k] is the key list of thread t's cache of kind k         *)
(* ("C" complex plans, "R" real plans), most recently used first.           *)
(*                                                                          *)
(* Access(t,k,n) is the only action that changes a cache: one completed     *)
(* lookup-or-create of length n.  Which lengths a public call accesses is   *)
(* the implementation's choice (read from the hook events), not part of     *)
(* the property.                                                            *)
(***************************************************************************)
EXTENDS Integers, Sequences, FiniteSets

Kinds == {"C", "R"}

Remove(s, n) == SelectSeq(s, LAMBDA x : x # n)
Prefix(s, c) == IF Len(s) > c THEN SubSeq(s, 1, c) ELSE s

(* definitional LRU step *)
Touch(s, n, cap) == Prefix(<<n>> \o Remove(s, n), cap)

(* the statement: "at most cap plans, the most recently used ones", from the access history *)
RECURSIVE MRU(_, _)
MRU(h, c) == IF h = <<>> \/ c = 0 THEN <<>>
             ELSE LET x == h[Len(h)] IN <<x>> \o MRU(Remove(SubSeq(h, 1, Len(h) - 1), x), c - 1)

NoDup(s) == \A i, j \in 1..Len(s) : i # j => s[i] # s[j]

(***************************************************************************)
(* Implementation-shaped cache (lib/lru-cache.h): a list of keys plus an   *)
(* index map (here: the set of indexed keys).                               *)
(*   put(k): push_front; erase an older node of the same key; index k;      *)
(*           if the map has more than cap entries drop the list's last node *)
(*   get(k): splice k's node to the front                                   *)
(***************************************************************************)
ImplPut(lst, map, k, cap) ==
    LET l1 == <<k>> \o (IF k \in map THEN Remove(lst, k) ELSE lst)
        m1 == map \cup {k}
    IN IF Cardinality(m1) > cap
       THEN [lst |-> SubSeq(l1, 1, Len(l1) - 1), map |-> m1 \ {l1[Len(l1)]}]
       ELSE [lst |-> l1, map |-> m1]
ImplGet(lst, map, k) == [lst |-> <<k>> \o Remove(lst, k), map |-> map]
ImplAccess(lst, map, k, cap) == IF k \in map THEN ImplGet(lst, map, k) ELSE ImplPut(lst, map, k, cap)
=============================================================================
