------------------------------- MODULE LruInd -------------------------------
(* Inductive invariant of the list+map LRU cache (lib/lru-cache.h as modelled in PlanCache.tla: ImplAccess), checked   *)
(* with Apalache for arbitrary integer keys and histories of any length: the invariant is inductive, hence holds in     *)
(* every reachable state, not only within TLC's bounds.  Capacity is the constant Cap (1..4 are checked).               *)
EXTENDS Integers, Sequences, FiniteSets, Apalache

CONSTANT
    \* @type: Int;
    Cap

VARIABLES
    \* @type: Seq(Int);
    lst,
    \* @type: Set(Int);
    map,
    \* @type: Int;
    last

\* @type: (Seq(Int), Int) => Seq(Int);
Remove(s, n) == SelectSeq(s, LAMBDA x : x # n)

\* @type: (Seq(Int)) => Set(Int);
Range(s) == {s[i] : i \in DOMAIN s}

\* @type: (Seq(Int)) => Bool;
NoDup(s) == \A i, j \in DOMAIN s : i # j => s[i] # s[j]

Put(k) ==
    LET l1 == <<k>> \o (IF k \in map THEN Remove(lst, k) ELSE lst)
        m1 == map \union {k}
    IN IF Cardinality(m1) > Cap
       THEN /\ lst' = SubSeq(l1, 1, Len(l1) - 1)
            /\ map' = m1 \ {l1[Len(l1)]}
       ELSE /\ lst' = l1
            /\ map' = m1
Get(k) == /\ lst' = <<k>> \o Remove(lst, k)
          /\ map' = map
Access(k) == (IF k \in map THEN Get(k) ELSE Put(k)) /\ last' = k

Init == lst = <<>> /\ map = {} /\ last = 0
Next == \E k \in Int : Access(k)

IndInv == /\ Len(lst) <= Cap
          /\ NoDup(lst)
          /\ map = Range(lst)

\* arbitrary state of bounded size satisfying the invariant (Gen: Apalache's bounded data generator)
IndInit == /\ lst = Gen(5)
           /\ map = Gen(5)
           /\ last = Gen(1)
           /\ IndInv
\* @type: (Seq(Int), Int) => Seq(Int);
Prefix(s, c) == IF Len(s) > c THEN SubSeq(s, 1, c) ELSE s
\* every step of the list+map implementation is the definitional LRU step Touch of PlanCache.tla (action invariant),
\* in particular the accessed key is in front afterwards
StepIsTouch == lst' = Prefix(<<last'>> \o Remove(lst, last'), Cap)
FrontIsLast == lst' # <<>> /\ lst'[1] = last'
CInit == Cap \in 1..4
=============================================================================
