------------------------------- MODULE AgcInd -------------------------------
(* The per-sample limit of the Agc gain loop (AgcLoop.tla, variant "persample") as an inductive invariant, checked with   *)
(* Apalache for ARBITRARY integer levels, targets, limits and reciprocal step sizes - not only the grid TLC enumerates:    *)
(* loop state and applied gain never exceed the limit, whatever the input does.  With the limit enforced once per frame   *)
(* ("hoisted", HoistedNext) the same invariant is not inductive (a counterexample to induction must be found).            *)
EXTENDS Integers, Apalache

CONSTANTS
    \* @type: Int;
    GMax,
    \* @type: Int;
    Rr,
    \* @type: Int;
    Rf,
    \* @type: Int;
    Unit

VARIABLES
    \* @type: Int;
    g,
    \* @type: Int;
    applied

\* @type: (Int, Int) => Int;
Div(a, b) == IF a >= 0 THEN a \div b ELSE -((-a) \div b)
\* @type: (Int, Int) => Int;
Min(a, b) == IF a < b THEN a ELSE b
\* @type: (Int, Int, Int) => Int;
Raw(x, lp, target) == LET err == target - lp - 2 * x IN x + Div(err, IF err > Unit THEN Rr ELSE Rf)

CInit == GMax \in Int /\ Rr \in Int /\ Rf \in Int /\ Unit \in Int /\ Rr >= 3 /\ Rf >= 3 /\ Unit >= 1
Init == g \in Int /\ applied = g /\ g <= GMax
Next == \E lp \in Int : \E target \in Int :
            LET lim == Min(Raw(g, lp, target), GMax) IN g' = lim /\ applied' = lim
HoistedNext == \E lp \in Int : \E target \in Int : \E last \in BOOLEAN :
            LET raw == Raw(g, lp, target)  lim == Min(raw, GMax)
            IN applied' = lim /\ g' = (IF last THEN lim ELSE raw)
IndInv == g <= GMax /\ applied <= GMax
IndInit == g \in Int /\ applied \in Int /\ IndInv
=============================================================================
