----------------------------- MODULE MC_Design -----------------------------
(* Theorems on the design rules + a small machine enumerating (type, order, window length) requests. *)
EXTENDS Design, TLC
CONSTANTS NMax
(* the tap count is always odd for high-pass / band-stop designs (a type-I filter is needed for a non-zero
   response at Nyquist), and n+1 otherwise *)
T1 == \A n \in 1..NMax : /\ Fir1Len("high", n) % 2 = 1 /\ Fir1Len("bandstop", n) % 2 = 1
                         /\ Fir1Len("low", n) = n + 1 /\ Fir1Len("bandpass", n) = n + 1
(* mirror is an involution on the tap indices *)
T2 == \A N \in 1..NMax : \A i \in 0..(N - 1) : Mirror(N, Mirror(N, i)) = i /\ Mirror(N, i) \in 0..(N - 1)
(* applicability is monotone in the order and symmetric under low <-> high with w -> 1000 - w *)
T3 == \A n \in 2..NMax : \A w \in {100, 250, 500, 750, 900} :
        /\ (Applicable("low", n, w, w) => Applicable("low", n + 1, w, w))
        /\ (Applicable("low", n, w, w) <=> Applicable("high", n, 1000 - w, 1000 - w))
ASSUME T1
ASSUME T2
ASSUME T3
VARIABLES type, n, wl, out
Init == type \in Types /\ n \in 1..8 /\ wl \in 1..11 /\ out = "none"
Next == out = "none" /\ out' = (IF WinLenOK(type, n, wl) THEN "ret" ELSE "throw") /\ UNCHANGED <<type, n, wl>>
Spec == Init /\ [][Next]_<<type, n, wl, out>>
ExactlyOneLength == out = "ret" => wl = Fir1Len(type, n)
=============================================================================
