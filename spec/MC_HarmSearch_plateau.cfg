CONSTANTS SLen = 4 Vals = {0, 1, 2} Variant = "plateau"
SPECIFICATION Spec
PROPERTY Terminates
CHECK_DEADLOCK FALSE
