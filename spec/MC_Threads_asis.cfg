CONSTANTS Thr = {1, 2} Plans = {"a", "b"} Scratch = "perPlan" Calls = 2
SPECIFICATION Spec
INVARIANTS ResultPreserved RaceFree
CHECK_DEADLOCK FALSE
