--------------------------- MODULE Trace_AgcLoop ---------------------------
(* Recorded Agc runs (averaging length 1, constant-magnitude input per frame) against the loop of AgcLoop.tla.           *)
(*   AgcNew   {unit, target, gmax, rr, rf, g0}     a new Agc: ln target power, ln gain limit, reciprocal step sizes     *)
(*   AgcFrame {lp, n, gend}                        n samples at ln-power lp; ln of the gain applied to the last one     *)
(* TLC steps the fixed-point loop n times per frame from ITS OWN state (the library's value is only compared, adopted      *)
(* once, at the end of an object's first segment) and accepts the frame if the library's gain is within Tol units.  Where the error is within Slack of the     *)
(* rise/fall boundary (1 neper) either step size is allowed; the model state is then whichever explains the frame.       *)
EXTENDS AgcStep, TLC, Json, IOUtils, FiniteSets, SequencesExt
Log == ndJsonDeserialize(IOEnv.TRACE)
VARIABLES par, gm, l
tvars == <<par, gm, l>>
Ev == Log[l]
Tol == 400
Slack == 2000

StepSet(x, lpw) ==
    LET err == par.target - lpw - 2 * x
        one(r) == Min(x + Div(err, r), par.gmax)
    IN IF Abs(err - par.unit) <= Slack THEN {one(par.rr), one(par.rf)}
       ELSE {one(IF err > par.unit THEN par.rr ELSE par.rf)}
(* n samples from any state of G (FoldLeft is evaluated iteratively by TLC's Java override: no deep recursion) *)
RunSet(G, lpw, n) == FoldLeft(LAMBDA acc, i : UNION {StepSet(x, lpw) : x \in acc}, G, [i \in 1..n |-> i])

Init == TLCSet(1, 0) /\ par = [unit |-> 1, fresh |-> TRUE] /\ gm = 0 /\ l = 1
TNew == /\ Ev.e = "AgcNew"
        /\ Ev.rr >= 3 /\ Ev.rf >= 3
        /\ par' = [unit |-> Ev.unit, target |-> Ev.target, gmax |-> Ev.gmax, rr |-> Ev.rr, rf |-> Ev.rf, fresh |-> TRUE]
        /\ gm' = Ev.g0
(* the gain a new object starts from is not specified anywhere: the first segment only has to respect the limit, and the    *)
(* model takes over the library's state at its end; from then on the model runs on its own                                *)
TFrame == /\ Ev.e = "AgcFrame"
          /\ Ev.gend <= par.gmax + Tol                       \* the applied gain never exceeds the limit
          /\ IF par.fresh
             THEN gm' = Min(Ev.gend, par.gmax) /\ par' = [par EXCEPT !.fresh = FALSE]
             ELSE /\ \E m \in RunSet({gm}, Ev.lp, Ev.n) : Abs(Ev.gend - m) <= Tol /\ gm' = m
                  /\ UNCHANGED par
Next == /\ l <= Len(Log)
         /\ (TNew \/ TFrame)
         /\ l' = l + 1
Spec == Init /\ [][Next]_tvars
Furthest == IF l > TLCGet(1) THEN TLCSet(1, l) ELSE TRUE
Accepted == /\ PrintT(<<"FURTHEST", TLCGet(1), Len(Log)>>)
            /\ TLCGet(1) = Len(Log) + 1
=============================================================================
