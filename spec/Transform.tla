------------------------------ MODULE Transform ------------------------------
(***************************************************************************)
(* API layer of the Fourier transforms (C01, C02): which abstract          *)
(* transform each public call denotes, output shapes, the discrete         *)
(* structure of the DFT matrix (twiddle exponents), plan selection and     *)
(* factor splitting (implementation shape, used to stratify lengths),      *)
(* parity rejection of irfft, STFT framing arithmetic.                      *)
(*                                                                          *)
(* The DFT of a unit impulse at position m is X[k] = w^(m*k mod n) with     *)
(* w = exp(-2 pi i / n): the k-th output is "twiddle number m*k mod n".     *)
(* Which twiddle multiplies which sample is an integer question and is      *)
(* what the impulse rows of the conformance driver pin exactly; the         *)
(* magnitudes are left to the residual clauses (T3).                        *)
(***************************************************************************)
EXTENDS Integers, Sequences, FiniteSets

DftExp(n, m, k) == (m * k) % n
ImpulseRow(n, m) == [k \in 1..n |-> DftExp(n, m, k - 1)]
(* real input => conjugate symmetry: exponent of bin n-k is the negative of bin k *)
ConjSymExp(n, m, k) == DftExp(n, m, (n - k) % n) = (n - DftExp(n, m, k)) % n

(* fft(x, n'): zero-pad or truncate to n' samples, then the n'-point transform *)
Resize(x, np) == [i \in 1..np |-> IF i <= Len(x) THEN x[i] ELSE 0]
OutLenFft(nx, np) == np
(* irfft accepts n or n/2+1 bins and only even n *)
IrfftAccepts(nbins, n) == n >= 2 /\ n % 2 = 0 /\ (nbins = n \/ nbins = n \div 2 + 1)

(* ------------------------- implementation shape ------------------------- *)
IsPrime(n) == n >= 2 /\ \A d \in 2..(n - 1) : d * d > n \/ n % d # 0
IsPow2(n) == n >= 1 /\ \E k \in 0..30 : 2 ^ k = n
PlanKind(n) ==
    IF n \in {1, 2, 4, 8} THEN "small"
    ELSE IF IsPrime(n) THEN (IF n = 3 THEN "dft3" ELSE IF n <= 41 THEN "dftslow" ELSE "bluestein")
    ELSE IF IsPow2(n) THEN "pow2" ELSE "factor"
RealPlanKind(n) ==
    IF n \in {1, 2, 4, 8} THEN "small"
    ELSE IF IsPrime(n) THEN "prime-via-complex"
    ELSE IF n % 2 = 0 THEN "half-length-pack" ELSE "odd-composite-via-complex"
(* factor list with the power-of-two part merged, sorted: (2,2,2,3,5) -> <<3,5,8>> *)
Pow2Part(n) == CHOOSE p \in {2 ^ k : k \in 0..30} : n % p = 0 /\ (n \div p) % 2 = 1
RECURSIVE OddFactors(_, _)
OddFactors(n, d) == IF n = 1 THEN <<>> ELSE IF n % d = 0 THEN <<d>> \o OddFactors(n \div d, d) ELSE OddFactors(n, d + 2)
RECURSIVE Ins(_, _)
Ins(s, v) == IF s = <<>> THEN <<v>> ELSE IF v <= Head(s) THEN <<v>> \o s ELSE <<Head(s)>> \o Ins(Tail(s), v)
FactorList(n) == LET p2 == Pow2Part(n)  odd == OddFactors(n \div p2, 3)
                 IN IF p2 = 1 THEN odd ELSE Ins(odd, p2)
(* P = first factor times the following ones while the product stays <= sqrt(n); Q = n / P *)
RECURSIVE Grow(_, _, _, _)
Grow(f, i, P, n) == IF i > Len(f) \/ (P * f[i]) * (P * f[i]) > n THEN P ELSE Grow(f, i + 1, P * f[i], n)
SplitP(n) == LET f == FactorList(n) IN Grow(f, 2, f[1], n)
SplitQ(n) == n \div SplitP(n)
(* Cooley-Tukey index algebra of the P x Q split (transpose, inner FFT of size P over q, twiddle, outer FFT of
   size Q): input sample at q*P... the split is a valid DFT iff for all input (a,b) / output (c,d) index pairs
   the exponent a*... equals the direct exponent; stated as a theorem in MC_Transform. *)
CtInIdx(P, Q, p, q) == p * Q + q          \* x is read as a P x Q matrix (row p, column q)
CtOutIdx(P, Q, kp, kq) == kq * P + kp     \* output bin of inner bin kp and outer bin kq
CtExp(P, Q, p, q, kp, kq) == ((p * kp * Q) + (q * kp) + (q * kq * P)) % (P * Q)
                              \* inner w_P^(p kp) = w_N^(p kp Q); twiddle w_N^(q kp); outer w_Q^(q kq) = w_N^(q kq P)

(* ------------------------------ STFT arithmetic ------------------------------ *)
Hop(nwin, ov) == nwin - ov
NSeg(nx, nwin, ov) == IF nx < nwin THEN 0 ELSE (nx - ov) \div Hop(nwin, ov)
BinsOf(range, nfft) == IF range = 0 THEN nfft \div 2 + 1 ELSE nfft          \* 0 one-sided, 1 two-sided, 2 centred
IstftLen(nseg, nwin, ov) == IF nseg = 0 THEN 0 ELSE nwin + (nseg - 1) * Hop(nwin, ov)
(* centred <-> two-sided bin permutations (stft and istft directions) are mutually inverse *)
CentredOfTwo(nfft) == [j \in 1..nfft |-> IF j <= nfft - (nfft \div 2 + 1) THEN nfft \div 2 + 1 + j ELSE j - (nfft - (nfft \div 2 + 1))]
TwoOfCentred(nfft) == [j \in 1..nfft |-> IF j <= nfft \div 2 + 1 THEN (nfft \div 2 - 1) + j ELSE j - (nfft \div 2 + 1)]
=============================================================================
