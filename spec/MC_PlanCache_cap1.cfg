CONSTANTS Cap = 1 Keys = {6, 12, 16} Threads = {1} MaxHist = 6
SPECIFICATION Spec
INVARIANTS Inv Refines
PROPERTIES Confined
CONSTRAINT Bounded
CHECK_DEADLOCK FALSE
