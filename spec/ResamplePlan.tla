---------------------------- MODULE ResamplePlan ----------------------------
(***************************************************************************)
(* The integer planning behind resample() and the FIRResampler wrapper     *)
(* (lib/resample/*.cpp): ratio reduction, which converter the wrapper      *)
(* builds, prototype length of the default design, polyphase layout,       *)
(* reported delay, and the flush arithmetic of the one-shot resample().    *)
(***************************************************************************)
EXTENDS Integers, Sequences

RECURSIVE Gcd(_, _)
Gcd(a, b) == IF b = 0 THEN a ELSE Gcd(b, a % b)
Reduced(p, q) == <<p \div Gcd(p, q), q \div Gcd(p, q)>>
Max2(a, b) == IF a > b THEN a ELSE b

(* which object the wrapper holds for a reduced ratio L/M *)
Mode(L, M) == IF L = M THEN "bypass" ELSE IF L = 1 THEN "decimator" ELSE IF M = 1 THEN "interpolator" ELSE "rateconverter"

(* default prototype: order N, and the number of taps returned (the last tap is dropped unless the odd-order case applies) *)
OddCase(L, M, P) == L > 1 /\ M > L /\ (P * L) % M # 0
DesignOrder(L, M, P) == LET R == IF L > 1 THEN L ELSE M IN IF OddCase(L, M, P) THEN 2 * P * R + 1 ELSE 2 * P * R
DesignTaps(L, M, P) == IF L = M THEN 1 ELSE IF OddCase(L, M, P) THEN DesignOrder(L, M, P) + 1 ELSE DesignOrder(L, M, P)

(* polyphase decomposition into m branches: the prototype is zero padded to a multiple of m; branch i holds h[i], h[i+m], ... *)
PadLen(nh, m) == IF nh % m = 0 THEN nh ELSE (nh \div m + 1) * m
SubLen(nh, m) == PadLen(nh, m) \div m
Tap(h, j) == IF j < Len(h) THEN h[j + 1] ELSE 0                       \* 0-based, zero beyond the end
Branch(h, m, i, flip) == LET n == SubLen(Len(h), m)
                         IN [k \in 1..n |-> Tap(h, i + m * (IF flip THEN n - k ELSE k - 1))]
Polyphase(h, m, flip) == [i \in 1..m |-> Branch(h, m, i - 1, flip)]

(* reported delay (output samples) of the object built for reduced L/M from a prototype of nh taps *)
Delay(L, M, nh) ==
    CASE Mode(L, M) = "bypass" -> 0
      [] Mode(L, M) = "decimator" -> SubLen(nh, M) \div 2
      [] Mode(L, M) = "interpolator" -> (SubLen(nh, L) * L) \div 2
      [] OTHER -> LET n2 == (SubLen(nh, L) * L) \div 2
                      d == (n2 - (M - 1) + M \div 2) \div M
                  IN IF n2 - (M - 1) + M \div 2 < 0 THEN 0 ELSE IF d > 0 THEN d ELSE 0

(* one-shot resample(x, p, q, h): sizes *)
NextSize(size, M) == IF size % M = 0 THEN size ELSE (size \div M + 1) * M
Plan(len, L, M, nh) ==
    LET nx == NextSize(len, M)
        ny == (nx * L) \div M
        dl == Delay(L, M, nh)
        mdl == (dl * M + L - 1) \div L
        nn == NextSize(nx + mdl, M)
    IN [nx |-> nx, ny |-> ny, dl |-> dl, mdl |-> mdl, nn |-> nn, produced |-> (nn * L) \div M]
(* the flush is long enough: the slice [dl, dl + ny) lies inside what the converter produced *)
FlushSuffices(len, L, M, nh) == LET pl == Plan(len, L, M, nh) IN pl.dl + pl.ny <= pl.produced
=============================================================================
