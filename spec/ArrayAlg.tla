------------------------------ MODULE ArrayAlg ------------------------------
(***************************************************************************)
(* Element-wise array arithmetic, type promotion and value semantics (C03) *)
(* over Gaussian integers.  An array value is [ty |-> "R" | "C", re, im]   *)
(* (im all zero for "R").  Scalars are one-element arrays with a kind.     *)
(***************************************************************************)
EXTENDS Integers, Sequences, FiniteSets

Ops == {"+", "-", "*", "/"}
IsC(t) == t \in {"C", "cmplx", "std"}                 \* complex array / cmplx_t scalar / std::complex scalar
Promote(ta, tb) == IF IsC(ta) \/ IsC(tb) THEN "C" ELSE "R"

(* field formulas on pairs <<re, im>> *)
CAdd(x, y) == <<x[1] + y[1], x[2] + y[2]>>
CSub(x, y) == <<x[1] - y[1], x[2] - y[2]>>
CMul(x, y) == <<x[1] * y[1] - x[2] * y[2], x[1] * y[2] + x[2] * y[1]>>
CNeg(x) == <<-x[1], -x[2]>>
(* r = x / y exactly (the driver only divides where the quotient is a Gaussian integer) *)
IsQuot(x, y, r) == y # <<0, 0>> /\ CMul(r, y) = x

El(a, i) == <<a.re[i], a.im[i]>>
N(a) == Len(a.re)
WellFormed(a) == Len(a.im) = Len(a.re) /\ (a.ty = "R" => \A i \in 1..N(a) : a.im[i] = 0)

(* element-wise result check: r is the array a (op) b, b possibly a scalar (length-1, broadcast) *)
ElemOK(op, x, y, r) ==
    CASE op = "+" -> r = CAdd(x, y)
      [] op = "-" -> r = CSub(x, y)
      [] op = "*" -> r = CMul(x, y)
      [] op = "/" -> IsQuot(x, y, r)

(* array (op) array *)
BinAAOK(op, a, b, o, r) ==
    IF N(a) # N(b) THEN o = "throw"
    ELSE /\ o = "ret" /\ r.ty = Promote(a.ty, b.ty) /\ WellFormed(r) /\ N(r) = N(a)
         /\ \A i \in 1..N(a) : ElemOK(op, El(a, i), El(b, i), El(r, i))
(* array (op) scalar; left = TRUE for scalar (op) array *)
BinASOK(op, a, s, left, o, r) ==
    /\ o = "ret" /\ r.ty = Promote(a.ty, s.ty) /\ WellFormed(r) /\ N(r) = N(a)
    /\ \A i \in 1..N(a) : IF left THEN ElemOK(op, El(s, 1), El(a, i), El(r, i))
                                   ELSE ElemOK(op, El(a, i), El(s, 1), El(r, i))

Concat(a, b) == [ty |-> Promote(a.ty, b.ty), re |-> a.re \o b.re, im |-> a.im \o b.im]
RECURSIVE ConcatAll(_)
ConcatAll(s) == IF Len(s) = 1 THEN s[1] ELSE Concat(s[1], ConcatAll(Tail(s)))

SelMask(a, m) == LET idx == SelectSeq([i \in 1..N(a) |-> i], LAMBDA i : m[i] = 1)
                 IN [ty |-> a.ty, re |-> [k \in 1..Len(idx) |-> a.re[idx[k]]], im |-> [k \in 1..Len(idx) |-> a.im[idx[k]]]]
SelIdx(a, ix) == [ty |-> a.ty, re |-> [k \in 1..Len(ix) |-> a.re[ix[k] + 1]], im |-> [k \in 1..Len(ix) |-> a.im[ix[k] + 1]]]

(* ---------------- value semantics: a small environment of named arrays ---------------- *)
(* program steps over variables; every step returns the new environment or "throw" (unchanged) *)
Same(a, b) == a.ty = b.ty /\ a.re = b.re /\ a.im = b.im
ApplyElem(op, a, b) ==     \* + - * only (closed over the Gaussian integers)
    [ty |-> Promote(a.ty, b.ty),
     re |-> [i \in 1..N(a) |-> (CASE op = "+" -> CAdd(El(a, i), El(b, i)) [] op = "-" -> CSub(El(a, i), El(b, i))
                                 [] op = "*" -> CMul(El(a, i), El(b, i)))[1]],
     im |-> [i \in 1..N(a) |-> (CASE op = "+" -> CAdd(El(a, i), El(b, i)) [] op = "-" -> CSub(El(a, i), El(b, i))
                                 [] op = "*" -> CMul(El(a, i), El(b, i)))[2]]]
Step(env, st) ==
    CASE st.k = "copy" -> [env EXCEPT ![st.dst] = env[st.src]]                        \* dst = src  /  dst(src)
      [] st.k = "compound" ->                                                          \* dst op= src (src may be dst)
            IF N(env[st.dst]) # N(env[st.src]) \/ Promote(env[st.dst].ty, env[st.src].ty) # env[st.dst].ty THEN env
            ELSE [env EXCEPT ![st.dst] = ApplyElem(st.op, env[st.dst], env[st.src])]
      [] st.k = "binary" ->                                                            \* dst = a op b
            IF N(env[st.a]) # N(env[st.b]) \/ Promote(env[st.a].ty, env[st.b].ty) # env[st.dst].ty THEN env
            ELSE [env EXCEPT ![st.dst] = ApplyElem(st.op, env[st.a], env[st.b])]
      [] st.k = "neg" -> [env EXCEPT ![st.dst] = [ty |-> env[st.src].ty, re |-> [i \in 1..N(env[st.src]) |-> -env[st.src].re[i]],
                                                   im |-> [i \in 1..N(env[st.src]) |-> -env[st.src].im[i]]]]
      [] st.k = "cat" -> [env EXCEPT ![st.dst] = Concat(env[st.dst], env[st.src])]   \* dst |= src (src may be dst)
      [] st.k = "set" -> [env EXCEPT ![st.dst] = [ty |-> env[st.dst].ty,
                                                   re |-> [env[st.dst].re EXCEPT ![st.i + 1] = st.v],
                                                   im |-> env[st.dst].im]]               \* dst[i] = v
Throws(env, st) ==
    CASE st.k = "compound" -> N(env[st.dst]) # N(env[st.src])
      [] st.k = "binary" -> N(env[st.a]) # N(env[st.b])
      [] OTHER -> FALSE
=============================================================================
