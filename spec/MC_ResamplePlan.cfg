CONSTANTS RMax = 12 PMax = 4 HMax = 60 LenMax = 40
SPECIFICATION Spec
INVARIANTS ReducedOK DesignOK FlushOK FlushDefaultOK PolyOK
CHECK_DEADLOCK FALSE
