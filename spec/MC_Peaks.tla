------------------------------ MODULE MC_Peaks ------------------------------
(* findpeaks as a state machine over every small non-empty array; what the loop guarantees. *)
EXTENDS Peaks, FiniteSets, TLC
CONSTANTS Vals, MaxLen, MaxPeaks
VARIABLES orig, data, left, found, regions

vars == <<orig, data, left, found, regions>>
Arrays == UNION {[1..n -> Vals] : n \in 1..MaxLen}

Init == /\ orig \in Arrays /\ data = orig /\ left \in 0..MaxPeaks /\ found = <<>> /\ regions = <<>>
Step == /\ left > 0
        /\ LET s == Pick(data) IN
             /\ data' = s[1] /\ found' = Append(found, s[2]) /\ regions' = Append(regions, <<s[3], s[4]>>)
        /\ left' = left - 1 /\ UNCHANGED orig
Next == Step
Spec == Init /\ [][Next]_vars

Positive(i) == found[i][2] > 0
InEarlier(i, q) == \E j \in 1..(i - 1) : regions[j][1] <= q /\ q <= regions[j][2]
\* a reported peak with positive height is a sample of the original data that no earlier region had swallowed, and a
\* local maximum of the original: a higher neighbour can only be one that an earlier peak's region already covered
IsPeakOfOriginal ==
    \A i \in 1..Len(found) : Positive(i) =>
        LET p == found[i][1] + 1 IN
        /\ orig[p] = found[i][2]
        /\ ~InEarlier(i, p)
        /\ (p > 1 /\ orig[p - 1] > orig[p]) => InEarlier(i, p - 1)
        /\ (p < Len(orig) /\ orig[p + 1] > orig[p]) => InEarlier(i, p + 1)
\* heights come out in non-increasing order while they are positive, at distinct places; regions may run into samples
\* that an earlier peak zeroed (so they can overlap: <<1, 1>> gives regions 1..1 then 1..2), but the peak's own sample
\* is covered by its own region
Ordered == \A i \in 1..(Len(found) - 1) : Positive(i + 1) => found[i][2] >= found[i + 1][2]
Disjoint == \A i, j \in 1..Len(found) : (i < j /\ Positive(i) /\ Positive(j)) => found[i][1] # found[j][1]
OwnRegion == \A i \in 1..Len(found) : regions[i][1] <= found[i][1] + 1 /\ found[i][1] + 1 <= regions[i][2]
WidthIsRegion == \A i \in 1..Len(found) : found[i][3] = regions[i][2] - regions[i][1] + 1 /\ found[i][3] >= 1
\* the state machine and the recursive definition used by the trace spec agree
SameAsFunction == found = FindPeaks(orig, Len(found))
\* non-negative data: the global maximum is always the first report
FirstIsMax == Len(found) >= 1 => found[1][2] = MaxVal(orig)

\* vacuity guard (MC_Peaks_asis.cfg expects a violation): peaks are NOT always isolated strict local maxima on both
\* sides - a plateau's first sample is reported although its right neighbour is equal
StrictBothSides == \A i \in 1..Len(found) : Positive(i) =>
        LET p == found[i][1] + 1 IN (p < Len(orig)) => orig[p + 1] < orig[p]
=============================================================================
