CONSTANTS
  K = 4
  Cases <- CasesMulti
SPECIFICATION Spec
INVARIANT FramingInvariant
CHECK_DEADLOCK FALSE
