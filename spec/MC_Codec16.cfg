SPECIFICATION Spec
CONSTANTS
  Alphabet = {0, 1, 128, 255}
  MaxLen = 5
  TypeSet = {"int16", "uint16"}
  Offsets <- Off16
  CountSet <- Cnt16
INVARIANTS LoopEqualsDecode InRange NeverTooMany
PROPERTY Terminates
CHECK_DEADLOCK FALSE
