----------------------------- MODULE FftKernels -----------------------------
(***************************************************************************)
(* The FFT kernels of dsplib transcribed one to one and evaluated EXACTLY  *)
(* in a finite field (C01, C02).                                           *)
(*                                                                         *)
(* Numbers.  Let N be a multiple of 8 and of the transform length, P a     *)
(* prime with N | P-1 (P < 46341 so that products fit 31 bits) and G an    *)
(* element of order exactly N in F_P.  A "complex number" is a pair        *)
(* <<a, b>> of field elements: a is its image under the embedding that     *)
(* sends exp(-2 pi i / N) to G, b the image under the conjugate embedding  *)
(* (exp(-2 pi i / N) -> G^-1).  All ring operations are componentwise,     *)
(* complex conjugation swaps the components, real numbers have a = b.      *)
(* An algebraic identity between cyclotomic numbers holds in this model    *)
(* whenever it holds over the complex numbers; an index or sign error of   *)
(* a kernel shows up as an exact mismatch.                                 *)
(*    W(k)  = exp(-2 pi i k / N)  = <<G^k, G^-k>>                           *)
(*    I     = exp(+ pi i / 2)     = W(-N/4)                                 *)
(*    Cos(k) = cos(2 pi k / N), Sin(k) = sin(2 pi k / N): real pairs        *)
(***************************************************************************)
EXTENDS Integers, Sequences, FiniteSets

CONSTANTS P, G, N          \* supplied per instantiation (see MC_FftKernels)
VARIABLE wtab              \* table of the powers of G, computed once by the instantiating module's Init
                           \* (TLC re-evaluates parameterless definitions on every use; a state variable is evaluated once)

Md(x) == ((x % P) + P) % P
PowM(b, e) == LET RECURSIVE PW(_, _, _)
                  PW(x, k, acc) == IF k = 0 THEN acc
                                   ELSE PW((x * x) % P, k \div 2, IF k % 2 = 1 THEN (acc * x) % P ELSE acc)
              IN PW(Md(b), e, 1)
Inv(x) == PowM(x, P - 2)

Add(x, y) == <<Md(x[1] + y[1]), Md(x[2] + y[2])>>
Sub(x, y) == <<Md(x[1] - y[1]), Md(x[2] - y[2])>>
Mul(x, y) == <<(x[1] * y[1]) % P, (x[2] * y[2]) % P>>
Neg(x) == <<Md(-x[1]), Md(-x[2])>>
Conj(x) == <<x[2], x[1]>>
Rl(r) == <<Md(r), Md(r)>>                                   \* a real (rational integer) number
Zero == <<0, 0>>
One == <<1, 1>>
WTable == [e \in 1..N |-> <<PowM(G, e - 1), PowM(G, (N - (e - 1)) % N)>>]
W(k) == wtab[(((k % N) + N) % N) + 1]
Imag == W(-(N \div 4))                                      \* i
Half == Rl(Inv(2))
Cos(k) == Mul(Half, Add(W(k), W(-k)))                       \* real pair
Sin(k) == Mul(Mul(Half, Neg(Imag)), Sub(W(-k), W(k)))       \* (e^{i t} - e^{-i t}) / (2 i), real pair
Re(x) == Mul(Half, Add(x, Conj(x)))                         \* real part as a real pair
Im(x) == Mul(Mul(Half, Neg(Imag)), Sub(x, Conj(x)))         \* imaginary part as a real pair
Cx(re, im) == Add(re, Mul(Imag, im))                        \* re + i im from two real pairs
Force(s) == s \o <<>>                                       \* materialise a lazily defined sequence

(* the defining sum: X[k] = sum_m x[m] exp(-2 pi i m k / n), n | N *)
SumSeq(F(_), n) == LET RECURSIVE S(_)
                       S(m) == IF m >= n THEN Zero ELSE Add(F(m), S(m + 1))
                   IN S(0)
Dft(x) == LET n == Len(x) IN Force([k \in 1..n |-> SumSeq(LAMBDA m : Mul(x[m + 1], W((N \div n) * m * (k - 1))), n)])
Idft(x) == LET n == Len(x) IN Force([k \in 1..n |-> Mul(Rl(Inv(n)), SumSeq(LAMBDA m : Mul(x[m + 1], W(-(N \div n) * m * (k - 1))), n))])

(* ------------------------- small hard-coded kernels (lib/fft/small-fft.h) ------------------------- *)
S707 == Cos(N \div 8)                                       \* 0.7071...
Fft2(x) == << Add(x[1], x[2]), Sub(x[1], x[2]) >>
(* _fft_n4, written on re / im parts exactly as in the source *)
Fft4(x) ==
    LET r(j) == Re(x[j + 1])  i(j) == Im(x[j + 1]) IN
    << Cx(Add(Add(r(0), r(1)), Add(r(2), r(3))), Add(Add(i(0), i(1)), Add(i(2), i(3)))),
       Cx(Sub(Sub(Add(r(0), i(1)), r(2)), i(3)), Add(Sub(Sub(i(0), r(1)), i(2)), r(3))),
       Cx(Sub(Add(Sub(r(0), r(1)), r(2)), r(3)), Sub(Add(Sub(i(0), i(1)), i(2)), i(3))),
       Cx(Add(Sub(Sub(r(0), i(1)), r(2)), i(3)), Sub(Sub(Add(i(0), r(1)), i(2)), r(3))) >>
Fft8(x) ==
    LET p1 == << Add(x[1], x[5]), Add(x[2], x[6]), Add(x[3], x[7]), Add(x[4], x[8]) >>
        c1 == Cx(S707, Neg(S707))                            \* {0.7071, -0.7071}
        c3 == Cx(Neg(S707), Neg(S707))                       \* {-0.7071, -0.7071}
        p2 == << Sub(x[1], x[5]),
                 Mul(Sub(x[2], x[6]), c1),
                 Cx(Sub(Im(x[3]), Im(x[7])), Sub(Re(x[7]), Re(x[3]))),
                 Mul(Sub(x[4], x[8]), c3) >>
        r1 == Fft4(p1)  r2 == Fft4(p2)
    IN << r1[1], r2[1], r1[2], r2[2], r1[3], r2[3], r1[4], r2[4] >>
SmallFft(x) == CASE Len(x) = 1 -> x [] Len(x) = 2 -> Fft2(x) [] Len(x) = 4 -> Fft4(x) [] Len(x) = 8 -> Fft8(x)

(* ------------------------- radix-2 plan (lib/fft/pow2-fft.cpp) ------------------------- *)
RECURSIVE Log2(_)
Log2(n) == IF n <= 1 THEN 0 ELSE 1 + Log2(n \div 2)
(* _gen_bitrev_table: half table, res[k+h] = res[k] + 1 after doubling, finally doubled *)
BitrevHalf(n) ==
    LET s == Log2(n)
        RECURSIVE Build(_, _, _)
        Build(res, i, h) == IF i >= s - 1 THEN res
                            ELSE Build([k \in 1..(n \div 2) |->
                                          IF k <= h THEN 2 * res[k]
                                          ELSE IF k <= 2 * h THEN 2 * res[k - h] + 1
                                          ELSE res[k]], i + 1, 2 * h)
        b == Build([k \in 1..(n \div 2) |-> 0], 0, 1)
    IN [k \in 1..(n \div 2) |-> 2 * b[k]]
(* _gen_coeffs_table: exp(-2 pi i t / n) filled from the first quarter wave of cosines *)
CoeffTable(n) ==
    LET n4 == n \div 4  n2 == n \div 2  n3 == 3 * n4
        st == N \div n
        re(t) == IF t = 0 THEN One ELSE IF t = n2 THEN Neg(One) ELSE IF t = n4 \/ t = n3 THEN Zero
                 ELSE IF t < n4 THEN Cos(st * t) ELSE IF t > n3 THEN Cos(st * (n - t))
                 ELSE IF t > n2 THEN Neg(Cos(st * (t - n2))) ELSE Neg(Cos(st * (n2 - t)))
        im(t) == IF t = 0 \/ t = n2 THEN Zero ELSE IF t = n4 THEN Neg(One) ELSE IF t = n3 THEN One
                 ELSE IF t > n4 /\ t < n2 THEN Neg(Cos(st * (t - n4))) ELSE IF t < n4 THEN Neg(Cos(st * (n4 - t)))
                 ELSE IF t > n3 THEN Cos(st * (t - n3)) ELSE Cos(st * (n3 - t))
    IN Force([t \in 1..n |-> Cx(re(t - 1), im(t - 1))])
(* _bitreverse: y[i] = x[bitrev[i]], y[n/2 + i] = x[bitrev[i] + 1] *)
BitReverse(x) == LET n == Len(x)  br == BitrevHalf(n)
                 IN Force([k \in 1..n |-> IF k <= n \div 2 THEN x[br[k] + 1] ELSE x[br[k - n \div 2] + 2]])
(* the butterfly cascade: l stages; stage with h butterflies per cluster, m clusters, r = 2h elements per cluster *)
Pow2Fft(x) ==
    LET n == Len(x)
        cf == CoeffTable(n)
        RECURSIVE Stage(_, _, _)
        Stage(y, h, m) ==
            IF m = 0 THEN y
            ELSE LET r == 2 * h
                     nxt == Force([q \in 1..n |->
                               LET c == (q - 1) \div r          \* cluster
                                   o == (q - 1) % r             \* offset in cluster
                                   k == o % h
                                   x1 == y[c * r + k + 1]
                                   x2 == y[c * r + h + k + 1]
                                   pp == Mul(cf[k * m + 1], x2)
                               IN IF o < h THEN Add(x1, pp) ELSE Sub(x1, pp)])
                 IN Stage(nxt, 2 * h, m \div 2)
    IN Stage(BitReverse(x), 1, n \div 2)

(* ------------------------- prime lengths (lib/fft/primes-fft.h) ------------------------- *)
Dft3(x) ==
    LET c == Neg(Half)  d == Sin(N \div 3)                  \* -0.5, 0.8660...
        r(j) == Re(x[j + 1])  i(j) == Im(x[j + 1])
        re1c == Mul(r(1), c)  im1d == Mul(i(1), d)  re2c == Mul(r(2), c)  im2d == Mul(i(2), d)
        re1d == Mul(r(1), d)  im1c == Mul(i(1), c)  re2d == Mul(r(2), d)  im2c == Mul(i(2), c)
    IN << Cx(Add(Add(r(0), r(1)), r(2)), Add(Add(i(0), i(1)), i(2))),
          Cx(Add(Add(r(0), Add(re1c, im1d)), Sub(re2c, im2d)), Add(Add(i(0), Add(Neg(re1d), im1c)), Add(re2d, im2c))),
          Cx(Add(Add(r(0), Sub(re1c, im1d)), Add(re2c, im2d)), Add(Add(i(0), Add(re1d, im1c)), Add(Neg(re2d), im2c))) >>
(* _dft_slow: table w[t] = exp(-2 pi i t / n), running index iw += k (mod n) *)
DftSlow(x) == LET n == Len(x) IN
    Force([k \in 1..n |-> SumSeq(LAMBDA m : Mul(x[m + 1], W((N \div n) * ((m * (k - 1)) % n))), n)])
(* Bluestein / chirp-z with w = exp(-2 pi i / n), m = n (PrimesFftC for n > 41): index algebra over 2n-th roots.
   chirp[t] = exp(i arg(w) t^2 / 2) for t = 1-n .. n-1; the power-of-two FFT / IFFT pair is abstracted to the exact
   circular convolution of length n2 >= 2n-1 it computes *)
Chirp(n, t) == W((N \div (2 * n)) * (t * t))                 \* exp(-2 pi i t^2 / (2n)); needs 2n | N
Bluestein(x) ==
    LET n == Len(x)
        n2 == 2 ^ (Log2(2 * n - 2) + 1)                        \* 2^nextpow2(2n-1)
        xp == [j \in 1..n2 |-> IF j <= n THEN Mul(x[j], Chirp(n, j - 1)) ELSE Zero]     \* x[j] * chirp[n-1+j], a = 1
        ker == [j \in 1..n2 |-> IF j <= 2 * n - 1 THEN Conj(Chirp(n, j - n)) ELSE Zero]  \* 1/chirp[0..2n-2] = conj (|chirp| = 1)
        conv(q) == SumSeq(LAMBDA j : Mul(xp[j + 1], ker[((q - j + n2) % n2) + 1]), n2)  \* circular convolution, index q
    IN Force([k \in 1..n |-> Mul(conv(n - 1 + k - 1), Chirp(n, k - 1))])

(* ------------------------- plan selection and the factor tree (lib/fft/fft.cpp, fact-fft.cpp) ------------------------- *)
IsPrime(n) == n >= 2 /\ \A d \in 2..(n - 1) : d * d > n \/ n % d # 0
IsPow2(n) == n >= 1 /\ 2 ^ Log2(n) = n
Pow2Part(n) == LET RECURSIVE PP(_, _)
                   PP(m, acc) == IF m % 2 = 0 THEN PP(m \div 2, 2 * acc) ELSE acc
               IN PP(n, 1)
RECURSIVE OddFactors(_, _)
OddFactors(n, d) == IF n = 1 THEN <<>> ELSE IF n % d = 0 THEN <<d>> \o OddFactors(n \div d, d) ELSE OddFactors(n, d + 2)
RECURSIVE Ins(_, _)
Ins(s, v) == IF s = <<>> THEN <<v>> ELSE IF v <= Head(s) THEN <<v>> \o s ELSE <<Head(s)>> \o Ins(Tail(s), v)
FactorList(n) == LET p2 == Pow2Part(n)  odd == OddFactors(n \div p2, 3) IN IF p2 = 1 THEN odd ELSE Ins(odd, p2)
RECURSIVE Grow(_, _, _, _)
Grow(f, i, Pq, n) == IF i > Len(f) \/ (Pq * f[i]) * (Pq * f[i]) > n THEN Pq ELSE Grow(f, i + 1, Pq * f[i], n)
SplitP(n) == LET f == FactorList(n) IN Grow(f, 2, f[1], n)

RECURSIVE Fft(_)
(* leaves: the kernel create_fft_plan() selects *)
Leaf(x) == LET n == Len(x) IN
    IF n \in {1, 2, 4, 8} THEN SmallFft(x)
    ELSE IF IsPrime(n) THEN (IF n = 3 THEN Dft3(x) ELSE IF n <= 41 THEN DftSlow(x) ELSE Bluestein(x))
    ELSE Pow2Fft(x)
(* _transpose(x, n, m): x is n x m (row i, column j) -> m x n *)
Transpose(x, n, m) == Force([q \in 1..(n * m) |-> LET j == (q - 1) \div n  i == (q - 1) % n IN x[i * m + j + 1]])
RECURSIVE FacFft(_, _)
FacFft(x, head) ==
    LET n == Len(x) IN
    IF IsPow2(n) \/ IsPrime(n) THEN Leaf(x)
    ELSE LET plen == SplitP(n)  qlen == n \div plen
             t1 == Transpose(x, plen, qlen)                                  \* now qlen rows of plen
             inner == Force([q \in 1..n |->
                         LET k == (q - 1) \div plen IN FacFft(SubSeq(t1, k * plen + 1, (k + 1) * plen), head)[((q - 1) % plen) + 1]])
             decim == head \div (plen * qlen)
             tw == Force([q \in 1..n |->
                         LET qq == (q - 1) \div plen  pp == (q - 1) % plen
                         IN IF pp >= 1 /\ qq >= 1 THEN Mul(inner[q], W((N \div head) * (qq * pp * decim))) ELSE inner[q]])
             t2 == Transpose(tw, qlen, plen)                                 \* plen rows of qlen
             outer == Force([q \in 1..n |->
                         LET k == (q - 1) \div qlen IN FacFft(SubSeq(t2, k * qlen + 1, (k + 1) * qlen), head)[((q - 1) % qlen) + 1]])
         IN Transpose(outer, plen, qlen)
Fft(x) == FacFft(x, Len(x))

(* ------------------------- real input (lib/fft/real-fft.h), inverses (lib/fft/ifft.cpp) ------------------------- *)
(* RealFftPlan: even n; z[k] = x[2k] + i x[2k+1], Z = fft(z / 2), untangle with w[i] = exp(-2 pi i i / n) *)
RealFft(x) ==     \* x: sequence of real pairs, even length n
    LET n == Len(x)  n2 == n \div 2
        z == Force([k \in 1..n2 |-> Mul(Half, Cx(x[2 * k - 1], x[2 * k]))])
        Z == Fft(z)
        w(i) == W((N \div n) * i)
        Xe(i) == Add(Z[i + 1], Conj(Z[((n2 - i) % n2) + 1]))
        Xo(i) == Mul(Sub(Conj(Z[((n2 - i) % n2) + 1]), Z[i + 1]), w(i))
        bin(i) == Cx(Sub(Re(Xe(i)), Im(Xo(i))), Add(Im(Xe(i)), Re(Xo(i))))
        nyq == LET e == Add(Z[1], Conj(Z[1]))  o == Sub(Conj(Z[1]), Z[1]) IN Add(Re(e), Im(o))     \* real value
    IN Force([k \in 1..n |-> LET i == k - 1 IN
                IF i < n2 THEN bin(i) ELSE IF i = n2 THEN nyq ELSE Conj(bin(n - i))])
(* ifft = conj(fft(conj(x / n))) *)
Ifft(x) == LET n == Len(x)  y == Fft(Force([k \in 1..n |-> Conj(Mul(Rl(Inv(n)), x[k]))])) IN Force([k \in 1..n |-> Conj(y[k])])
(* _irfft_coeffs: exp(+2 pi i k / n), k < n/2: quarter-wave fill when 4 | n ("quarter"), direct fill otherwise;
   variant "asis" applies the quarter-wave fill for every even n (the repaired defect) *)
IrfftCoeffs(n, variant) ==
    LET n4 == n \div 4  n2 == n \div 2  st == N \div n
        direct == [k \in 1..n2 |-> W(-st * (k - 1))]
        re(t) == IF t = 0 THEN One ELSE IF t < n4 THEN Cos(st * t) ELSE IF t > n4 /\ n2 - t < n4 /\ n2 - t >= 1 THEN Neg(Cos(st * (n2 - t))) ELSE Zero
        im(t) == IF t = n4 THEN One ELSE IF t > n4 /\ t - n4 < n4 THEN Cos(st * (t - n4)) ELSE IF t < n4 /\ n4 - t >= 1 /\ t >= 1 THEN Cos(st * (n4 - t)) ELSE Zero
        quarter == [k \in 1..n2 |-> Cx(re(k - 1), im(k - 1))]
    IN Force(IF n % 4 = 0 \/ variant = "asis" THEN quarter ELSE direct)
(* IfftPlanR::solve for the full spectrum X (n bins) of a real signal *)
Irfft(X, variant) ==
    LET n == Len(X)  n2 == n \div 2  dn == Rl(Inv(n))
        w == IrfftCoeffs(n, variant)
        Z == Force([k \in 1..n2 |->
                LET i == k - 1
                    v == Conj(X[n2 - i + 1])
                    Xe == Mul(Add(X[i + 1], v), dn)
                    Xo == Mul(Mul(Sub(X[i + 1], v), dn), w[k])
                IN Cx(Sub(Re(Xe), Im(Xo)), Sub(Neg(Im(Xe)), Re(Xo)))])
        z == Fft(Z)
    IN Force([q \in 1..n |-> LET i == (q - 1) \div 2 IN IF (q - 1) % 2 = 0 THEN Re(z[i + 1]) ELSE Neg(Im(z[i + 1]))])
=============================================================================
