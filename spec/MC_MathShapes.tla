--------------------------- MODULE MC_MathShapes ---------------------------
(* Theorems on the index maps (small scope) and a machine over up/down-sampling chains. *)
EXTENDS MathShapes, TLC
CONSTANTS NMax
Seqs(n) == [1..n -> {1, 2}]
AsSeq(f, n) == [k \in 1..n |-> f[k]]
T1 == \A n \in 0..NMax, f \in 1..4 : \A ph \in 0..(f - 1) : \A g \in Seqs(n) :
        Downsample(Upsample(AsSeq(g, n), f, ph), f, ph) = AsSeq(g, n)                       \* round trip
T2 == \A start \in -6..6, stop \in -6..6, step \in {-3, -2, -1, 1, 2, 3} :
        LET a == ArangeInt(start, stop, step) IN
        /\ \A k \in 1..Len(a) : IF step > 0 THEN a[k] < stop ELSE a[k] > stop               \* strictly before stop
        /\ (Len(a) > 0 => a[1] = start)
        /\ LET nxt == start + Len(a) * step IN IF step > 0 THEN nxt >= stop ELSE nxt <= stop  \* and maximal
T3 == \A n \in 0..NMax : \A g \in Seqs(n) : Flip(Flip(AsSeq(g, n))) = AsSeq(g, n)
T4 == \A n \in 1..NMax : \A g \in Seqs(n) : \A d \in -(n + 1)..(n + 1) :
        LET y == Delayseq(AsSeq(g, n), d) IN Len(y) = n /\ \A k \in 1..n : (k - d \in 1..n) => y[k] = g[k - d]
ASSUME T1
ASSUME T2
ASSUME T3
ASSUME T4
VARIABLES x, depth
Init == x \in {<<1>>, <<1, 2>>, <<1, 2, 3>>} /\ depth = 0
Next == /\ depth < 3 /\ depth' = depth + 1
        /\ \E f \in 1..3, ph \in 0..2 : ph < f /\ (x' = Upsample(x, f, ph) \/ x' = Downsample(x, f, ph) \/ x' = Repelem(x, f) \/ x' = Flip(x))
Spec == Init /\ [][Next]_<<x, depth>>
LenBound == Len(x) <= 81
=============================================================================
