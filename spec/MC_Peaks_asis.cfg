SPECIFICATION Spec
CONSTANTS
  Vals = {0, 1, 2}
  MaxLen = 4
  MaxPeaks = 2
INVARIANTS StrictBothSides
CHECK_DEADLOCK FALSE
