CONSTANTS
  K = 4
  Cases <- CasesMultiFull
SPECIFICATION Spec
INVARIANT FramingInvariant
CHECK_DEADLOCK FALSE
