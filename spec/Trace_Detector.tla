--------------------------- MODULE Trace_Detector ---------------------------
EXTENDS Detector, TLC, Json, IOUtils
Log == ndJsonDeserialize(IOEnv.TRACE)
VARIABLE l
Ev == Log[l]
Init == TLCSet(1, 0) /\ l = 1

(* delayseq shifts exactly; finddelay recovers the shift; gccphat within half a sample *)
TDelay == /\ Ev.e = "Delay" /\ Ev.o = "ret"
          /\ Ev.shift_ok = TRUE
          /\ Ev.fd = Ev.d
          /\ Ev.gcc_dev_milli <= 500
(* delayseq over the whole shift range: y[i] = x[i - d] where that exists, 0 elsewhere - also for |d| >= length *)
Shifted(x, d) == [i \in 1..Len(x) |-> IF i - d >= 1 /\ i - d <= Len(x) THEN x[i - d] ELSE 0]
TShift == /\ Ev.e = "Shift" /\ Ev.o = "ret" /\ Ev.agree = TRUE
          /\ Ev.yr = Shifted(Ev.xr, Ev.d) /\ Ev.yi = Shifted(Ev.xi, Ev.d)
TPeakloc == /\ Ev.e = "Peakloc"
            /\ IF Ev.edge THEN Ev.q = 0 ELSE PeakAgrees(Ev.q, Ev.l, Ev.m, Ev.r)
(* one preamble whose last sample has stream index e: detection in frame e div F at offset e mod F, the returned
   samples are the Lp inputs ending at e, score near 1; without a preamble nothing is reported *)
TDetect == /\ Ev.e = "Detect" /\ Ev.nthrow = 0
           /\ Ev.F = FrameLen(Ev.Lp)
           /\ IF Ev.present
              THEN /\ Ev.det_frame = DetFrame(Ev.end, Ev.Lp)
                   /\ Ev.det_off = DetOffset(Ev.end, Ev.Lp)
                   /\ Ev.plen = Ev.Lp
                   /\ Ev.match = AlignedStart(Ev.end, Ev.Lp)
                   /\ Ev.score_ppm >= 900000 /\ Ev.score_ppm <= 1000010
              ELSE Ev.det_frame = -1
TDetFrame == Ev.e = "DetFrame" /\ Ev.o = "throw" /\ Ev.F = FrameLen(Ev.Lp)
Next == /\ l <= Len(Log)
        /\ (TDelay \/ TShift \/ TPeakloc \/ TDetect \/ TDetFrame) = TRUE
        /\ l' = l + 1
Spec == Init /\ [][Next]_l
Furthest == IF l > TLCGet(1) THEN TLCSet(1, l) ELSE TRUE
Accepted == /\ PrintT(<<"FURTHEST", TLCGet(1), Len(Log)>>)
            /\ TLCGet(1) = Len(Log) + 1
=============================================================================
