CONSTANTS NMax = 10 Margin = 3 StepMax = 5 NPair = 6 NState = 3
SPECIFICATION Spec
PROPERTIES LenStable Frame
VIEW View
CHECK_DEADLOCK FALSE
