CONSTANTS Cap = 2 Keys = {6, 12, 43} Threads = {1, 2} MaxHist = 3
SPECIFICATION Spec
INVARIANTS Inv Refines
PROPERTIES Confined
CONSTRAINT Bounded
CHECK_DEADLOCK FALSE
