---------------------------- MODULE DetectorSeq ----------------------------
(***************************************************************************)
(* Growth beyond the listed properties: PreambleDetector over a stream     *)
(* with SEVERAL detections (C18 speaks of one preamble).                   *)
(*                                                                         *)
(* lib/detector.cpp processes a frame of F samples like this: both filters *)
(* consume the whole frame first; then, sample by sample, the sample is    *)
(* pushed into the delay line of Lp samples and the metric is tested; at   *)
(* the first hit the call RETURNS - the rest of the frame is never pushed. *)
(* ("asis": what the code does.)  The variant "pushall" pushes the rest of *)
(* the frame before returning: what one would specify.                     *)
(*                                                                         *)
(* Samples are numbered 1, 2, ... (0 = the initial zeros of the line).     *)
(* Hits = the set of sample numbers at which the metric exceeds the        *)
(* threshold (a property of the signal, here chosen freely by TLC).        *)
(***************************************************************************)
EXTENDS Integers, Sequences, FiniteSets

CONSTANTS Lp,        \* preamble / delay-line length
          F,         \* frame length
          NFrames,   \* frames processed
          Variant    \* "asis" or "pushall"

VARIABLES hits,      \* set of sample numbers where the metric is above the threshold
          ring,      \* delay line, oldest first: sequence of Lp sample numbers
          frame,     \* frames processed so far
          reports    \* sequence of [frame, off, idx]: one per detection

vars == <<hits, ring, frame, reports>>

LastN(s, n) == SubSeq(s, Len(s) - n + 1, Len(s))
Samples(k) == [i \in 1..F |-> (k - 1) * F + i]            \* sample numbers of frame k (1-based frames)

\* first offset (0-based) of frame k at which the metric is above the threshold, or -1
FirstHit(k) == IF \E i \in 0..(F - 1) : ((k - 1) * F + i + 1) \in hits
               THEN CHOOSE i \in 0..(F - 1) : /\ ((k - 1) * F + i + 1) \in hits
                                               /\ \A j \in 0..(i - 1) : ((k - 1) * F + j + 1) \notin hits
               ELSE -1

Init == /\ hits \in SUBSET (1..(NFrames * F))
        /\ ring = [i \in 1..Lp |-> 0] /\ frame = 0 /\ reports = <<>>

ProcessFrame ==
    /\ frame < NFrames
    /\ LET k == frame + 1
           h == FirstHit(k)
           pushed == IF h = -1 \/ Variant = "pushall" THEN F ELSE h + 1      \* samples of this frame that reach the line
           atHit == LastN(ring \o SubSeq(Samples(k), 1, h + 1), Lp)            \* the line when the hit is tested
       IN /\ ring' = LastN(ring \o SubSeq(Samples(k), 1, pushed), Lp)
          /\ reports' = IF h = -1 THEN reports ELSE Append(reports, [frame |-> k, off |-> h, idx |-> atHit])
    /\ frame' = frame + 1
    /\ UNCHANGED hits
Next == ProcessFrame
Spec == Init /\ [][Next]_vars

\* what a caller wants: every report carries the Lp consecutive samples that end at the reported position
Aligned == \A r \in 1..Len(reports) :
               LET e == (reports[r].frame - 1) * F + reports[r].off + 1
               IN reports[r].idx = [i \in 1..Lp |-> IF e - Lp + i >= 1 THEN e - Lp + i ELSE 0]
\* true of both variants: the first report of a stream is aligned; at most one report per frame, at the first hit
FirstAligned == Len(reports) >= 1 =>
               LET e == (reports[1].frame - 1) * F + reports[1].off + 1
               IN reports[1].idx = [i \in 1..Lp |-> IF e - Lp + i >= 1 THEN e - Lp + i ELSE 0]
OnePerFrame == \A r, q \in 1..Len(reports) : r < q => reports[r].frame < reports[q].frame
AtFirstHit == \A r \in 1..Len(reports) : reports[r].off = FirstHit(reports[r].frame)
\* the line always holds Lp sample numbers in increasing order (zeros first): it never reorders or repeats
Monotone == \A i \in 1..(Lp - 1) : ring[i] = 0 \/ ring[i] < ring[i + 1]
=============================================================================
