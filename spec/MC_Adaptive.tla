---------------------------- MODULE MC_Adaptive ----------------------------
(* Small-scope model: a 2-tap integer LMS filter driven by every input/desired pair over a small alphabet with   *)
(* every lock/unlock schedule.  Invariants: while locked the coefficients never change; e = d - y; the output    *)
(* of sample k uses the coefficients held BEFORE the update of sample k (a-priori).                               *)
EXTENDS Adaptive, TLC
CONSTANTS MaxK, Mu
Vals == {<<1, 0>>, <<0, 1>>, <<-1, 1>>}
VARIABLES c, x, d, locked, lastc, lasty, laste, waslocked
vars == <<c, x, d, locked, lastc, lasty, laste, waslocked>>
Init == /\ c = ZeroC(2) /\ x = <<>> /\ d = <<>> /\ locked = FALSE
        /\ lastc = ZeroC(2) /\ lasty = Z /\ laste = Z /\ waslocked = FALSE
Toggle == /\ locked' = ~locked /\ UNCHANGED <<c, x, d, lastc, lasty, laste, waslocked>>
Sample == /\ Len(x) < MaxK
          /\ \E xv \in Vals, dv \in Vals :
               LET x1 == Append(x, xv)  d1 == Append(d, dv)
                   r == Run(c, x1, d1, Len(x1), Len(x1), Mu, locked, <<>>, <<>>)
               IN /\ x' = x1 /\ d' = d1 /\ lastc' = c /\ c' = r.c
                  /\ lasty' = r.y[1] /\ laste' = r.e[1] /\ waslocked' = locked
          /\ UNCHANGED locked
Next == Toggle \/ Sample
Spec == Init /\ [][Next]_vars
LockHolds == waslocked => c = lastc
ErrorIsAPriori == x # <<>> => /\ laste = CSub(d[Len(d)], lasty)
                              /\ lasty = Output(lastc, x, Len(x))
UpdateRule == (x # <<>> /\ ~waslocked) => c = LmsUpdate(lastc, x, Len(x), laste, Mu)
=============================================================================
