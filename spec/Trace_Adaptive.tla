--------------------------- MODULE Trace_Adaptive ---------------------------
(* Trace validation of adaptive filters (C12).                                                        *)
(*  New   {id, kind, len, mu, exact}       a filter is built (exact: integer LMS, validated sample by sample)   *)
(*  Lock  {id, v}                          set_lock_coeffs(v)                                                    *)
(*  Proc  {id, xr, xi, dr, di, yr, yi, er, ei, cr, ci, e_exact, same}   one process() call (exact filters)      *)
(*  ProcN {id, n, e_exact, same, locked_fir_milli, apriori_milli}        one call of a non-integer filter        *)
(*  Resid {...}                            convergence / least-squares clauses                                    *)
EXTENDS Adaptive, TLC, Json, IOUtils
Log == ndJsonDeserialize(IOEnv.TRACE)
VARIABLES flt, l
Ev == Log[l]
Init == TLCSet(1, 0) /\ flt = <<>> /\ l = 1
Has(f, x) == x \in DOMAIN f
Put(f, x, v) == [y \in (DOMAIN f) \cup {x} |-> IF y = x THEN v ELSE f[y]]

TNew == /\ Ev.e = "New" /\ ~Has(flt, Ev.id)
        /\ flt' = Put(flt, Ev.id, [p |-> Ev, locked |-> FALSE, c |-> ZeroC(Ev.len), x |-> <<>>, d |-> <<>>])
TLock == /\ Ev.e = "Lock" /\ Has(flt, Ev.id)
         /\ Ev.reported = Ev.v                                   \* coeffs_locked() reports the flag
         /\ flt' = [flt EXCEPT ![Ev.id].locked = Ev.v]
TProc ==
    /\ Ev.e = "Proc" /\ Has(flt, Ev.id)
    /\ LET f == flt[Ev.id]
           x == f.x \o Pairs(Ev.xr, Ev.xi)
           d == f.d \o Pairs(Ev.dr, Ev.di)
           r == Run(f.c, x, d, Len(f.x) + 1, Len(x), f.p.mu, f.locked, <<>>, <<>>)
       IN /\ Ev.e_exact = TRUE                                   \* e[k] == d[k] - y[k] bit for bit
          /\ (Ev.yr = Res(r.y) /\ Ev.yi = Ims(r.y)) = TRUE        \* a-priori output of the coefficients held before k
          /\ (Ev.er = Res(r.e) /\ Ev.ei = Ims(r.e)) = TRUE
          /\ (Ev.cr = Res(r.c) /\ Ev.ci = Ims(r.c)) = TRUE        \* coeffs() after the call
          /\ f.locked => Ev.same = TRUE                           \* locked: coeffs() bit-identical before/after
          /\ flt' = [flt EXCEPT ![Ev.id] = [@ EXCEPT !.c = r.c, !.x = x, !.d = d]]
TProcN ==
    /\ Ev.e = "ProcN" /\ Has(flt, Ev.id)
    /\ Ev.e_exact = TRUE
    /\ flt[Ev.id].locked => (Ev.same = TRUE /\ Ev.locked_fir_milli <= 1000)    \* locked = fixed FIR with coeffs()
    /\ Ev.apriori_milli <= 1000                                                   \* vs extended-precision recursion
    /\ flt' = flt
TResid == Ev.e = "Resid" /\ Ev.err_milli <= 1000 /\ flt' = flt
TDrop == Ev.e = "Drop" /\ Has(flt, Ev.id) /\ flt' = [i \in (DOMAIN flt) \ {Ev.id} |-> flt[i]]

Next == /\ l <= Len(Log)
        /\ (TNew \/ TLock \/ TProc \/ TProcN \/ TResid \/ TDrop)
        /\ l' = l + 1
Spec == Init /\ [][Next]_<<flt, l>>
Furthest == IF l > TLCGet(1) THEN TLCSet(1, l) ELSE TRUE
Accepted == /\ PrintT(<<"FURTHEST", TLCGet(1), Len(Log)>>)
            /\ TLCGet(1) = Len(Log) + 1
=============================================================================
