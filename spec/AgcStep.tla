------------------------------ MODULE AgcStep ------------------------------
(* The arithmetic of one sample of the Agc gain loop in fixed point (see AgcLoop.tla); no state, shared by the model and *)
(* the trace specification.                                                                                               *)
EXTENDS Integers, Sequences


Div(a, b) == IF a >= 0 THEN a \div b ELSE -((-a) \div b)      \* truncation toward zero, as C++ does
Min(a, b) == IF a < b THEN a ELSE b
Abs(a) == IF a < 0 THEN -a ELSE a

(* one sample of the loop; lp = ln of the power estimate; returns the new loop state (before any limit) *)
Raw(g, lp, target, unit, rr, rf) ==
    LET err == target - lp - 2 * g
    IN g + Div(err, IF err > unit THEN rr ELSE rf)
Step(g, lp, target, gmax, unit, rr, rf) == Min(Raw(g, lp, target, unit, rr, rf), gmax)

RECURSIVE Run(_, _, _, _, _, _, _, _)
Run(g, lp, n, target, gmax, unit, rr, rf) ==
    IF n = 0 THEN g ELSE Run(Step(g, lp, target, gmax, unit, rr, rf), lp, n - 1, target, gmax, unit, rr, rf)

=============================================================================
