------------------------------ MODULE MC_Order ------------------------------
(* The median filter's incrementally maintained sorted window (lib/medfilt.cpp, _update_sort) for EVERY   *)
(* input over a small alphabet (the filter is not linear, so impulses do not suffice): after each sample the *)
(* sorted copy is the sorted multiset of the ring and the output is the window median; any framing is a     *)
(* path of this graph.  Also: Median2 (by counting) = Median2Sort, and the rank statistics' ranges.         *)
EXTENDS Order, TLC
CONSTANTS N, Alphabet, Init0

VARIABLES ring, sorted, i, out2, hist
vars == <<ring, sorted, i, out2, hist>>

Init == /\ ring = [k \in 1..N |-> Init0] /\ sorted = [k \in 1..N |-> Init0]
        /\ i = 0 /\ out2 = 2 * Init0 /\ hist = <<>>

Push(v) == LET i1 == (i + 1) % N
               srt == UpdateSort(sorted, v, ring[i1 + 1])
           IN /\ i' = i1
              /\ sorted' = srt
              /\ ring' = [ring EXCEPT ![i1 + 1] = v]
              /\ out2' = IF N % 2 = 1 THEN 2 * srt[N \div 2 + 1] ELSE srt[N \div 2 + 1] + srt[N \div 2]
              /\ hist' = IF Len(hist) < N THEN Append(hist, v) ELSE Tail(hist) \o <<v>>
Next == \E v \in Alphabet : Push(v)
Spec == Init /\ [][Next]_vars

Window == [k \in 1..N |-> IF k <= N - Len(hist) THEN Init0 ELSE hist[k - (N - Len(hist))]]
SortedIsSortedRing == sorted = SortSeq(ring)
OutputIsMedian == out2 = Median2(Window) /\ Median2(Window) = Median2Sort(Window)
RingIsWindow == SortSeq(ring) = SortSeq(Window)

Perms(n) == {f \in [1..n -> 1..n] : \A a, b \in 1..n : a # b => f[a] # f[b]}
AsSeq(f, n) == [k \in 1..n |-> f[k]]
(* rank statistics: range, symmetry, +-1 on monotone relations, for every permutation pair of length 4 *)
ASSUME \A f, g \in Perms(4) :
          LET x == AsSeq(f, 4)  y == AsSeq(g, 4) IN
          /\ KendallNum(x, y) = KendallNum(y, x) /\ SpearmanNum(x, y) = SpearmanNum(y, x)
          /\ KendallNum(x, y) <= KendallDen(x) /\ -KendallNum(x, y) <= KendallDen(x)
          /\ SpearmanNum(x, y) <= SpearmanDen(x) /\ -SpearmanNum(x, y) <= SpearmanDen(x)
          /\ (x = y) => KendallNum(x, y) = KendallDen(x) /\ SpearmanNum(x, y) = SpearmanDen(x)
          /\ (\A k \in 1..4 : y[k] = 5 - x[k]) => KendallNum(x, y) = -KendallDen(x) /\ SpearmanNum(x, y) = -SpearmanDen(x)
=============================================================================
