------------------------------ MODULE Trace_Api ------------------------------
EXTENDS ApiContract, TLC, Json, IOUtils
Log == ndJsonDeserialize(IOEnv.TRACE)
VARIABLE l
Ev == Log[l]
Init == TLCSet(1, 0) /\ l = 1
(* one executed call case; observations "crash", "sanitizer", "timeout" are not in Outcomes: rejected here *)
TCall == /\ Ev.e = "Call"
         /\ OutcomeOK(Ev.entry, Ev.p, Ev.o)
Next == /\ l <= Len(Log) /\ TCall = TRUE /\ l' = l + 1
Spec == Init /\ [][Next]_l
Furthest == IF l > TLCGet(1) THEN TLCSet(1, l) ELSE TRUE
Accepted == /\ PrintT(<<"FURTHEST", TLCGet(1), Len(Log)>>)
            /\ TLCGet(1) = Len(Log) + 1
=============================================================================
