CONSTANTS Cap = 4 Keys = {6, 12, 15, 16, 21, 43} Threads = {1} MaxHist = 6
SPECIFICATION Spec
INVARIANTS Inv Refines
PROPERTIES Confined
CONSTRAINT Bounded
CHECK_DEADLOCK FALSE
