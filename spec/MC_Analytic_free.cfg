CONSTANTS Fs = 4 BSet = {1, 2, 3} Variant = "free" KMax = 10
SPECIFICATION Spec
INVARIANT PhaseExact
CHECK_DEADLOCK FALSE
