---------------------------- MODULE Trace_Threads ----------------------------
(* Trace validation for C09, on the actions of Threads.tla themselves (per-call scratch: the claim).                   *)
(* Forced schedules: Reset {kind,...}; Step {t, a, plan} in executed order; Result {t, ok}.                            *)
(*   kind = "factfft": interleavings chosen by the driver; kind = "tlcpath": maximal paths of the model's state graph  *)
(*   exported by TLC (vlib/tlcgraph.py) and imposed on the real threads.  Each Step must be the enabled spec action;   *)
(*   the spec then says that no thread's result is corrupted, so every Result must be ok.                              *)
(* Stress {kind, threads, calls, mismatches}: free-running threads from a barrier; RaceReport / Crash (sanitizer)      *)
(* have no action.                                                                                                     *)
EXTENDS Threads, TLC, Json, IOUtils
Log == ndJsonDeserialize(IOEnv.TRACE)
VARIABLES kind, l
Ev == Log[l]
tvars == <<pc, cur, left, writer, corrupt, kind, l>>
Fresh == /\ pc' = [t \in Thr |-> "idle"] /\ cur' = [t \in Thr |-> CHOOSE p \in Plans : TRUE]
         /\ left' = [t \in Thr |-> Calls] /\ writer' = [a \in Areas |-> 0] /\ corrupt' = {}
TInit == TLCSet(1, 0) /\ Init /\ kind = "none" /\ l = 1

TReset == /\ Ev.e = "Reset" /\ Fresh /\ kind' = Ev.kind
TStep ==
    /\ Ev.e = "Step" /\ kind' = kind
    /\ IF kind \notin {"factfft", "tlcpath"} THEN UNCHANGED vars
       ELSE CASE Ev.a = "Begin" -> Begin(Ev.t, Ev.plan)
              [] Ev.a = "Mid" -> Mid(Ev.t)
              [] Ev.a = "End" -> End(Ev.t)
TResult == /\ Ev.e = "Result"
           /\ Ev.diverged = FALSE                               \* the real threads followed the imposed schedule
           /\ Ev.ok = (Ev.t \notin corrupt)                     \* result preserved under this interleaving
           /\ UNCHANGED <<vars, kind>>
TStress == /\ Ev.e = "Stress"
           /\ Ev.mismatches = 0                                       \* each call returned its single-threaded result
           /\ ("cache_shared" \in DOMAIN Ev) => Ev.cache_shared = 0   \* a plan cache is touched by one thread only
           /\ UNCHANGED <<vars, kind>>
TNext == /\ l <= Len(Log)
         /\ (TReset \/ TStep \/ TResult \/ TStress)
         /\ l' = l + 1
TSpec == TInit /\ [][TNext]_tvars
Furthest == IF l > TLCGet(1) THEN TLCSet(1, l) ELSE TRUE
Accepted == /\ PrintT(<<"FURTHEST", TLCGet(1), Len(Log)>>)
            /\ TLCGet(1) = Len(Log) + 1
=============================================================================
