---------------------------- MODULE Trace_Threads ----------------------------
(* Trace validation for C09.  Forced schedules: Reset {kind,...}; Step {t, a, plan} in executed order; Result {t, ok}. *)
(* For kind = "factfft" the steps are replayed on Threads.tla with per-call scratch (the claim): the spec then says   *)
(* that no thread's result is corrupted, so every Result must be ok.  Stress {kind, threads, calls, mismatches}:       *)
(* free-running threads from a barrier; RaceReport / Crash (sanitizer) have no action.                                 *)
EXTENDS Integers, Sequences, FiniteSets, TLC, Json, IOUtils
Log == ndJsonDeserialize(IOEnv.TRACE)
VARIABLES pc, writer, corrupt, kind, l
Ev == Log[l]
Init == TLCSet(1, 0) /\ pc = <<"idle", "idle">> /\ writer = <<0, 0>> /\ corrupt = {} /\ kind = "none" /\ l = 1

TReset == /\ Ev.e = "Reset"
          /\ pc' = <<"idle", "idle">> /\ writer' = <<0, 0>> /\ corrupt' = {} /\ kind' = Ev.kind
(* per-call scratch: area of thread t is its own slot t *)
TStep ==
    /\ Ev.e = "Step"
    /\ IF kind # "factfft" THEN UNCHANGED <<pc, writer, corrupt, kind>>
       ELSE LET t == Ev.t IN
            CASE Ev.a = "Begin" -> pc[t] = "idle" /\ pc' = [pc EXCEPT ![t] = "begun"] /\ UNCHANGED <<writer, corrupt, kind>>
              [] Ev.a = "Mid" -> pc[t] = "begun" /\ pc' = [pc EXCEPT ![t] = "mid"] /\ writer' = [writer EXCEPT ![t] = t]
                                 /\ UNCHANGED <<corrupt, kind>>
              [] Ev.a = "End" -> pc[t] = "mid" /\ pc' = [pc EXCEPT ![t] = "idle"]
                                 /\ corrupt' = (IF writer[t] # t THEN corrupt \cup {t} ELSE corrupt)
                                 /\ UNCHANGED <<writer, kind>>
TResult == /\ Ev.e = "Result"
           /\ (Ev.diverged \/ Ev.ok = (Ev.t \notin corrupt))       \* result preserved under this interleaving
           /\ UNCHANGED <<pc, writer, corrupt, kind>>
TStress == /\ Ev.e = "Stress"
           /\ Ev.mismatches = 0                                       \* each call returned its single-threaded result
           /\ ("cache_shared" \in DOMAIN Ev) => Ev.cache_shared = 0   \* a plan cache is touched by one thread only
           /\ UNCHANGED <<pc, writer, corrupt, kind>>
Next == /\ l <= Len(Log)
        /\ (TReset \/ TStep \/ TResult \/ TStress)
        /\ l' = l + 1
Spec == Init /\ [][Next]_<<pc, writer, corrupt, kind, l>>
Furthest == IF l > TLCGet(1) THEN TLCSet(1, l) ELSE TRUE
Accepted == /\ PrintT(<<"FURTHEST", TLCGet(1), Len(Log)>>)
            /\ TLCGet(1) = Len(Log) + 1
=============================================================================
