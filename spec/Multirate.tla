----------------------------- MODULE Multirate -----------------------------
(***************************************************************************)
(* Polyphase rate converters (C08, C06) over the integers.                 *)
(*                                                                         *)
(* Definition (the statement): insert L-1 zeros, filter with h normalised  *)
(* to DC gain L, keep every M-th sample, at a fixed phase phi:             *)
(*     y[j] = (L / S) * sum_t h[t] * u[j*M + phi - t],  u[n*L] = x[n]      *)
(* All operators below return S*y (S = sum of h), an integer.              *)
(* Implementation shape: IResampler::polyphase, FIRDecimator,              *)
(* FIRInterpolator, FIRRateConverter (branch schedule of the `st` loop).   *)
(***************************************************************************)
EXTENDS Fir

Gcd(a, b) == LET RECURSIVE G(_, _)
                 G(x, y) == IF y = 0 THEN x ELSE G(y, x % y)
             IN G(a, b)
CeilDiv(a, b) == (a + b - 1) \div b

(* zero-stuffed input: u[p] = x[p/L] when L | p *)
U(x, L, p) == IF p >= 0 /\ p % L = 0 THEN X(x, p \div L) ELSE 0

(* S * y[j] of the textbook chain *)
ChainAt(L, M, h, x, j, phi) == L * SumN(LAMBDA t : h[t + 1] * U(x, L, j * M + phi - t), Len(h))
OutLen(L, M, n) == (n * L) \div M
PhaseCandidates(L, M, h) == 0..(Len(h) + 2 * L * M)

(* length rules *)
NextSize(size, L, M) == LET d == M \div Gcd(L, M) IN IF size % d = 0 THEN size ELSE (size \div d + 1) * d
PrevSize(size, L, M) == LET d == M \div Gcd(L, M) IN (size \div d) * d
ResampleLen(len, p, q) == LET g == Gcd(p, q) IN (p \div g) * CeilDiv(len, q \div g)

(* ------------------------------ implementation shape ------------------------------ *)
PadLen(nh, m) == IF nh % m = 0 THEN nh ELSE (nh \div m + 1) * m
Padded(h, m) == h \o Zeros(PadLen(Len(h), m) - Len(h))
(* polyphase(h, m, gain, flip): branch i (0-based) = hp[i], hp[i+m], ... times gain, optionally reversed *)
Reverse(s) == [k \in 1..Len(s) |-> s[Len(s) - k + 1]]
Branch(h, m, gain, flip, i) ==
    LET hp == Padded(h, m)
        n == Len(hp) \div m
        b == [k \in 1..n |-> gain * hp[i + (k - 1) * m + 1]]
    IN IF flip THEN Reverse(b) ELSE b
SubLen(h, m) == PadLen(Len(h), m) \div m

(* FIRDecimator: history of M*(sublen-1) samples *)
DecimInit(M, h) == Zeros(M * (SubLen(h, M) - 1))
DecimImplStep(M, h, hist, frame) ==
    LET sub == SubLen(h, M)
        x == hist \o frame
        ny == Len(frame) \div M
    IN [out |-> [i \in 1..ny |->
                   SumN(LAMBDA k : SumN(LAMBDA j : x[(i - 1) * M + k + j * M + 1] * Branch(h, M, 1, FALSE, k)[j + 1], sub), M)],
        hist |-> Last(x, Len(hist))]

(* FIRInterpolator: history of sublen-1 samples, flipped gain-L branches *)
InterpInit(L, h) == Zeros(SubLen(h, L) - 1)
InterpImplStep(L, h, hist, frame) ==
    LET sub == SubLen(h, L)
        x == hist \o frame
    IN [out |-> [q \in 1..(Len(frame) * L) |->
                   LET i == (q - 1) \div L   k == (q - 1) % L
                   IN SumN(LAMBDA j : x[i + j + 1] * Branch(h, L, L, TRUE, k)[j + 1], sub)],
        hist |-> Last(x, Len(hist))]

(* FIRRateConverter: branch schedule produced by the st-counter loop *)
RECURSIVE Sched(_, _, _, _, _, _)
Sched(L, M, i, k, st, acc) ==   \* acc: sequence of <<branch, input offset>>
    IF i = M THEN acc
    ELSE LET st1 == st + 1
             hitp == st1 = M
             acc1 == IF hitp THEN Append(acc, <<k, i>>) ELSE acc
             st2 == IF hitp THEN 0 ELSE st1
         IN IF k + 1 = L THEN Sched(L, M, i + 1, 0, st2, acc1) ELSE Sched(L, M, i, k + 1, st2, acc1)
Schedule(L, M) == Sched(L, M, 0, 0, 0, <<>>)

RateInit(L, h) == Zeros(SubLen(h, L) - 1)
RateImplStep(L, M, h, hist, frame) ==
    LET sub == SubLen(h, L)
        x == hist \o frame
        np == Len(frame) \div M
        sch == Schedule(L, M)
    IN [out |-> [q \in 1..(np * L) |->
                   LET i == (q - 1) \div L   k == (q - 1) % L
                       br == sch[k + 1][1]   off == sch[k + 1][2]
                   IN SumN(LAMBDA j : x[i * M + off + j + 1] * Branch(h, L, L, TRUE, br)[j + 1], sub)],
        hist |-> Last(x, Len(hist))]
=============================================================================
