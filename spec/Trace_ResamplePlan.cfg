SPECIFICATION Spec
CONSTRAINT Furthest
POSTCONDITION Accepted
CHECK_DEADLOCK FALSE
