SPECIFICATION Spec
CONSTANTS
  Vals = {0, 1, 2, 3}
  MaxLen = 6
  MaxPeaks = 3
INVARIANTS IsPeakOfOriginal Ordered Disjoint OwnRegion WidthIsRegion SameAsFunction FirstIsMax
CHECK_DEADLOCK FALSE
