CONSTANTS Threads = {1, 2} Seeds = {0, 7} MaxSteps = 6 Variant = "shared"
SPECIFICATION Spec
INVARIANT Deterministic
CHECK_DEADLOCK FALSE
