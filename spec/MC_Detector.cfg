CONSTANTS LpSet = {1, 2, 3, 5, 8, 16} NMax = 70
SPECIFICATION Spec
INVARIANTS ExtractIsLastLp FrameLaw
CHECK_DEADLOCK FALSE
