CONSTANTS
  K = 10
  Cases <- CasesFull
SPECIFICATION Spec
INVARIANT FramingInvariant
CHECK_DEADLOCK FALSE
