CONSTANTS N = 5 Alphabet = {0, 1, 2} Init0 = 1
SPECIFICATION Spec
INVARIANTS SortedIsSortedRing OutputIsMedian RingIsWindow
CHECK_DEADLOCK FALSE
