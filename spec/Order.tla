------------------------------- MODULE Order -------------------------------
(***************************************************************************)
(* Sorting, medians, the running median filter and rank correlations over  *)
(* the integers (C16, C06).  Medians are represented by 2*median.          *)
(***************************************************************************)
EXTENDS Integers, Sequences, FiniteSets

RECURSIVE InsertSorted(_, _)
InsertSorted(s, v) == IF s = <<>> THEN <<v>>
                      ELSE IF v <= Head(s) THEN <<v>> \o s ELSE <<Head(s)>> \o InsertSorted(Tail(s), v)
RECURSIVE SortSeq(_)
SortSeq(s) == IF s = <<>> THEN <<>> ELSE InsertSorted(SortSeq(Tail(s)), Head(s))

IsSortedAsc(s) == \A i \in 1..(Len(s) - 1) : s[i] <= s[i + 1]
IsSortedDesc(s) == \A i \in 1..(Len(s) - 1) : s[i] >= s[i + 1]
IsPerm0(idx, n) == Len(idx) = n /\ {idx[i] : i \in 1..n} = 0..(n - 1)     \* 0-based index vector

(* the statement for sort: sorted order, index vector a permutation, sorted[i] = x[idx[i]] *)
SortOK(x, asc, sorted, idx) ==
    /\ Len(sorted) = Len(x)
    /\ IF asc THEN IsSortedAsc(sorted) ELSE IsSortedDesc(sorted)
    /\ IsPerm0(idx, Len(x))
    /\ \A i \in 1..Len(x) : sorted[i] = x[idx[i] + 1]

(* k-th smallest (1-based) by counting, no sorting: v with #{< v} < k <= #{<= v} *)
Kth(w, k) == CHOOSE v \in {w[i] : i \in 1..Len(w)} :
                /\ Cardinality({i \in 1..Len(w) : w[i] < v}) < k
                /\ Cardinality({i \in 1..Len(w) : w[i] <= v}) >= k
(* 2 * median of a non-empty window *)
Median2(w) == LET n == Len(w)
              IN IF n % 2 = 1 THEN 2 * Kth(w, n \div 2 + 1) ELSE Kth(w, n \div 2) + Kth(w, n \div 2 + 1)
(* the same through an explicit sort (small windows; MC_Order checks both agree) *)
Median2Sort(w) == LET s == SortSeq(w)  n == Len(w)
                  IN IF n % 2 = 1 THEN 2 * s[n \div 2 + 1] ELSE s[n \div 2] + s[n \div 2 + 1]

(* MedianFilter(n, init): window = last n samples of (n copies of init) | stream *)
XI(x, i, init) == IF i >= 0 THEN x[i + 1] ELSE init
MedianStream2(n, init, x, i) == Median2([k \in 1..n |-> XI(x, i - n + k, init)])
(* medfilt(x, n): zero padding n/2 left, centred window *)
Medfilt2(n, x, i) == LET X0(j) == IF j >= 0 /\ j < Len(x) THEN x[j + 1] ELSE 0
                     IN Median2([k \in 1..n |-> X0(i - (n \div 2) + k - 1)])

(* implementation shape of _update_sort (lib/medfilt.cpp): remove one occurrence of vold from the
   sorted window (linear search from the left, falling back to the last slot), insert vnew before the
   first element not smaller than it (or in the last slot) *)
UpdateSort(s, vnew, vold) ==
    LET n == Len(s)
        P1 == {p \in 1..(n - 1) : s[p] = vold}
        pos == IF P1 = {} THEN n ELSE CHOOSE p \in P1 : \A q \in P1 : p <= q
        er == [k \in 1..n |-> IF k < pos THEN s[k] ELSE IF k < n THEN s[k + 1] ELSE s[n]]
        P2 == {p \in 1..(n - 1) : ~(er[p] < vnew)}
        ins == IF P2 = {} THEN n ELSE CHOOSE p \in P2 : \A q \in P2 : p <= q
    IN [k \in 1..n |-> IF k < ins THEN er[k] ELSE IF k = ins THEN vnew ELSE er[k - 1]]

(* rank correlations on tie-free integer data, as exact rationals num/den *)
Sgn(v) == IF v > 0 THEN 1 ELSE IF v < 0 THEN -1 ELSE 0
SumRange(lo, hi, F(_)) == LET RECURSIVE S(_)
                              S(i) == IF i > hi THEN 0 ELSE F(i) + S(i + 1)
                          IN S(lo)
(* sum over pairs i < k, as nested sums (recursion depth n, not n^2) *)
PairSum(n, F(_, _)) == SumRange(1, n - 1, LAMBDA i : SumRange(i + 1, n, LAMBDA k : F(i, k)))
KendallNum(x, y) == PairSum(Len(x), LAMBDA i, k : Sgn(x[i] - x[k]) * Sgn(y[i] - y[k]))
KendallDen(x) == (Len(x) * (Len(x) - 1)) \div 2
Rank(x, i) == Cardinality({k \in 1..Len(x) : x[k] < x[i]})
SumI(n, F(_)) == LET RECURSIVE S(_)
                     S(i) == IF i > n THEN 0 ELSE F(i) + S(i + 1)
                 IN S(1)
(* rho = 1 - 6 sum d^2 / (n (n^2-1))  =>  rho * n(n^2-1) = n(n^2-1) - 6 sum d^2 *)
SpearmanNum(x, y) == LET n == Len(x) IN n * (n * n - 1) - 6 * SumI(n, LAMBDA i : (Rank(x, i) - Rank(y, i)) * (Rank(x, i) - Rank(y, i)))
SpearmanDen(x) == LET n == Len(x) IN n * (n * n - 1)
(* Pearson: r = N / sqrt(Dx Dy) with N = n Sxy - Sx Sy, Dx = n Sxx - Sx^2 *)
PearsonN(x, y) == LET n == Len(x) IN n * SumI(n, LAMBDA i : x[i] * y[i]) - SumI(n, LAMBDA i : x[i]) * SumI(n, LAMBDA i : y[i])
PearsonD(x) == LET n == Len(x) IN n * SumI(n, LAMBDA i : x[i] * x[i]) - SumI(n, LAMBDA i : x[i]) * SumI(n, LAMBDA i : x[i])
=============================================================================
