--------------------------- MODULE Trace_Analytic ---------------------------
(* Conformance of Tuner / hilbert / HilbertFilter with Analytic.tla (C14). Stateless observations. *)
EXTENDS Analytic, TLC, Json, IOUtils
Log == ndJsonDeserialize(IOEnv.TRACE)
VARIABLE l
Ev == Log[l]
Init == TLCSet(1, 0) /\ l = 1

(* tuner phase of sampled stream positions ks: robs[i] = nearest multiple of 1/M turn, dev[i] = distance in 1e-9 turns *)
TTuner == /\ Ev.e = "Tuner" /\ Ev.o = "ret"
          /\ Len(Ev.robs) = Len(Ev.ks) /\ Len(Ev.dev) = Len(Ev.ks)
          /\ \A i \in 1..Len(Ev.ks) : /\ Ev.robs[i] = TunerPhase(Ev.a, Ev.b, Ev.fs, Ev.ks[i])
                                      /\ Ev.dev[i] <= 1000                      \* within 1e-6 turn
          /\ Ev.amp_ok = TRUE /\ Ev.outlen = Ev.n                                \* |w| = 1, same length as the input
THF == /\ Ev.e = "HF" /\ Ev.o = "ret"
       /\ Ev.M = HilbertLen(Ev.flen)
       /\ Ev.exact = TRUE
       /\ DelayedOK(Ev.x, Ev.re, Ev.M)                                         \* real part = input delayed by the group delay
TResid == Ev.e = "Resid" /\ Ev.err_milli <= 1000
Next == /\ l <= Len(Log)
        /\ (TTuner \/ THF \/ TResid) = TRUE
        /\ l' = l + 1
Spec == Init /\ [][Next]_l
Furthest == IF l > TLCGet(1) THEN TLCSet(1, l) ELSE TRUE
Accepted == /\ PrintT(<<"FURTHEST", TLCGet(1), Len(Log)>>)
            /\ TLCGet(1) = Len(Log) + 1
=============================================================================
