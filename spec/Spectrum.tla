------------------------------ MODULE Spectrum ------------------------------
(***************************************************************************)
(* Welch spectral estimates (C13): segment arithmetic, output shapes, the  *)
(* bin <-> frequency-label map for real (one-sided) and complex (centred)  *)
(* input, and the peak-label rule for a pure tone at a rational frequency. *)
(* Frequencies are carried as integers: label*nfft, tone = p / (8*nfft).   *)
(***************************************************************************)
EXTENDS Integers, Sequences

Segments(N, winlen, noverlap) == (N - winlen) \div (winlen - noverlap) + 1
OutLen(cplx, nfft) == IF cplx THEN nfft ELSE nfft \div 2 + 1
(* label (times nfft) of output entry i (0-based) *)
Label(cplx, nfft, i) == IF cplx THEN i - nfft \div 2 + 1 ELSE i
LabelsOK(cplx, nfft, f) == Len(f) = OutLen(cplx, nfft) /\ \A i \in 1..Len(f) : f[i] = Label(cplx, nfft, i - 1)
(* the label nearest to a tone at p/(8 nfft) cycles per sample, |p mod 8| away from 4: round(p/8) *)
Nearest(p) == (p + 4) \div 8 - (IF p + 4 < 0 /\ (p + 4) % 8 # 0 THEN 0 ELSE 0)
Centre(nfft, k) == LET r == ((k % nfft) + nfft) % nfft IN IF r > nfft \div 2 THEN r - nfft ELSE r
(* what the arg-max entry's label must be: real input: the bin of |f|; complex input: the centred bin *)
PeakLabel(cplx, nfft, p) == IF cplx THEN Centre(nfft, Nearest(p)) ELSE Nearest(p)
(* the label that results when the spectrum is left in FFT order under a centred frequency vector
   (the recorded finding): FFT bin r sits at output entry r *)
FftOrderLabel(nfft, p) == LET r == ((Nearest(p) % nfft) + nfft) % nfft IN Label(TRUE, nfft, r)
=============================================================================
