----------------------------- MODULE MC_AgcLoop -----------------------------
(* Model values for AgcLoop (negative numbers cannot be written in a .cfg). Unit = 100: centi-nepers. *)
EXTENDS AgcLoop
MCLevels == {-900, -200, 0, 300}
MCLevelsConst == {-900, -500, -200, 0, 300}
MCTargets == {-200, 0, 200}
=============================================================================
