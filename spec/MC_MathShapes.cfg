CONSTANTS NMax = 5
SPECIFICATION Spec
INVARIANT LenBound
CHECK_DEADLOCK FALSE
