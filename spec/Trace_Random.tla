---------------------------- MODULE Trace_Random ----------------------------
(*  Seed {tid, seed}; Draw {tid, kind, p1, p2, n, digest, head}; Randi {lo, hi, n, min, max}; Thread {tid} (a new  *)
(*  thread starts); Resid {..} calibration clauses.                                                                   *)
EXTENDS Random, TLC, Json, IOUtils
Log == ndJsonDeserialize(IOEnv.TRACE)
VARIABLES gen, canon, l
Ev == Log[l]
Init == TLCSet(1, 0) /\ gen = <<>> /\ canon = <<>> /\ l = 1

TThread == /\ Ev.e = "Thread" /\ gen' = Put(gen, Ev.tid, Fresh) /\ canon' = canon
TSeed == /\ Ev.e = "Seed" /\ gen' = SeedStep(gen, Ev.tid, Ev.seed) /\ canon' = canon
TDraw == /\ Ev.e = "Draw"
         /\ LET r == DrawStep(gen, canon, Ev.tid, <<Ev.kind, Ev.p1, Ev.p2, Ev.n>>, <<Ev.digest, Ev.head>>) IN
            /\ r[1] = TRUE                          \* same (seed, call history) => same values, bit for bit
            /\ gen' = r[2] /\ canon' = r[3]
         /\ Ev.len = Ev.n
(* randi stays inside its inclusive bounds; small ranges reach both ends in a long draw *)
TRandi == /\ Ev.e = "Randi" /\ Ev.all_int = TRUE
          /\ Ev.min >= Ev.lo /\ Ev.max <= Ev.hi
          /\ (Ev.hi - Ev.lo <= 5 /\ Ev.n >= 500) => (Ev.min = Ev.lo /\ Ev.max = Ev.hi)
          /\ UNCHANGED <<gen, canon>>
(* rand in [0,1) (or the requested interval) *)
TRange == /\ Ev.e = "Range" /\ Ev.inside = TRUE /\ UNCHANGED <<gen, canon>>
TResid == /\ Ev.e = "Resid" /\ Ev.err_milli <= 1000 /\ UNCHANGED <<gen, canon>>
Next == /\ l <= Len(Log)
        /\ (TThread \/ TSeed \/ TDraw \/ TRandi \/ TRange \/ TResid)
        /\ l' = l + 1
Spec == Init /\ [][Next]_<<gen, canon, l>>
Furthest == IF l > TLCGet(1) THEN TLCSet(1, l) ELSE TRUE
Accepted == /\ PrintT(<<"FURTHEST", TLCGet(1), Len(Log)>>)
            /\ TLCGet(1) = Len(Log) + 1
=============================================================================
