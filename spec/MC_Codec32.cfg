SPECIFICATION Spec
CONSTANTS
  Alphabet = {1, 128, 255}
  MaxLen = 6
  TypeSet = {"int32", "uint32"}
  Offsets <- Off32
  CountSet <- Cnt32
INVARIANTS LoopEqualsDecode InRange NeverTooMany
PROPERTY Terminates
CHECK_DEADLOCK FALSE
