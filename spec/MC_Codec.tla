------------------------------ MODULE MC_Codec ------------------------------
(***************************************************************************)
(* The reading loop of _from_file as a state machine, compared with the    *)
(* closed form Codec!Decode on every small file.                           *)
(* pc: "seek" -> "loop" -> "done"; the loop mirrors                         *)
(*     while (!feof(fid) && count) { if (fread(item)) { push; --count; } } *)
(* including the C stdio detail that feof only turns true after a read     *)
(* attempt hit the end.                                                    *)
(***************************************************************************)
EXTENDS Codec, TLC
CONSTANTS Alphabet, MaxLen, TypeSet, Offsets, CountSet
VARIABLES bytes, typ, ord, offset, count, pc, pos, eof, left, out

Off16 == {-1, 0, 1, 2, 3, 5, 6}
Off32 == {-1, 0, 1, 2, 4, 6, 7}
Cnt16 == {-1, 0, 1, 2, 3}
Cnt32 == {-1, 0, 1, 2}
CntAll == {-1}

vars == <<bytes, typ, ord, offset, count, pc, pos, eof, left, out>>

Files == UNION {[1..n -> Alphabet] : n \in 0..MaxLen}

Init == /\ bytes \in Files /\ typ \in TypeSet /\ ord \in Orders /\ offset \in Offsets /\ count \in CountSet
        /\ pc = "seek" /\ pos = 0 /\ eof = FALSE /\ left = count /\ out = <<>>

Seek == /\ pc = "seek"
        /\ pos' = IF offset < 0 THEN 0 ELSE offset       \* fseek fails on a negative position
        /\ pc' = "loop"
        /\ UNCHANGED <<bytes, typ, ord, offset, count, eof, left, out>>

\* one iteration of the while loop
ReadItem == /\ pc = "loop" /\ ~eof /\ left # 0
            /\ IF pos + Size(typ) <= Len(bytes)
               THEN /\ out' = Append(out, Item(SubSeq(bytes, pos + 1, pos + Size(typ)), typ, ord))
                    /\ pos' = pos + Size(typ) /\ left' = left - 1 /\ eof' = FALSE
               ELSE /\ eof' = TRUE                        \* short read: nothing pushed, count unchanged
                    /\ pos' = IF pos > Len(bytes) THEN pos ELSE Len(bytes)
                    /\ UNCHANGED <<out, left>>
            /\ UNCHANGED <<bytes, typ, ord, offset, count, pc>>

Stop == /\ pc = "loop" /\ (eof \/ left = 0)
        /\ pc' = "done"
        /\ UNCHANGED <<bytes, typ, ord, offset, count, pos, eof, left, out>>

Next == Seek \/ ReadItem \/ Stop
Spec == Init /\ [][Next]_vars /\ WF_vars(Next)

LoopEqualsDecode == pc = "done" => out = Decode(bytes, typ, ord, offset, count)
\* every item is a legal value of its type
InRange == \A i \in 1..Len(out) :
             /\ out[i][2] \in 0..65535
             /\ out[i][1] \in (IF Size(typ) = 2 THEN (IF Signed(typ) THEN -1..0 ELSE {0})
                               ELSE (IF Signed(typ) THEN -32768..32767 ELSE 0..65535))
             /\ (Size(typ) = 2 /\ Signed(typ)) => (out[i][1] = -1 <=> out[i][2] >= 32768)
NeverTooMany == count >= 0 => Len(out) <= count
Terminates == <>(pc = "done")

\* vacuity guard: a decoder that keeps the trailing partial item must be caught (MC_Codec_asis.cfg expects a violation)
KeepsPartial == pc = "done" => Len(out) = (IF Start(offset) >= Len(bytes) THEN 0
                                           ELSE (Len(bytes) - Start(offset) + Size(typ) - 1) \div Size(typ))
=============================================================================
