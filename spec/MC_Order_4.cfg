CONSTANTS N = 4 Alphabet = {0, 1, 2} Init0 = 0
SPECIFICATION Spec
INVARIANTS SortedIsSortedRing OutputIsMedian RingIsWindow
CHECK_DEADLOCK FALSE
