----------------------------- MODULE MC_Stream -----------------------------
(***************************************************************************)
(* Every implementation-shaped block processor equals its definition under *)
(* every framing.  A behaviour picks a case (processor + parameters) and an *)
(* input (unit impulse at any position, or a ramp), then repeatedly feeds a *)
(* frame of any admissible length; because the processor state after a     *)
(* frame determines its future, the reachable graph covers all 2^(K-1)     *)
(* framings of K granules.  By linearity the impulses cover every input.   *)
(***************************************************************************)
EXTENDS Multirate, Order, TLC

CONSTANTS K,        \* stream length in granules
          Cases     \* set of records [p |-> proc, ...parameters]

VARIABLES c, imp, pos, st, prod, ok
vars == <<c, imp, pos, st, prod, ok>>

Gran(cs) == CASE cs.p \in {"decim", "rate"} -> cs.M [] OTHER -> 1
Total(cs) == K * Gran(cs)
(* the input stream: impulse at 0-based position imp-1, or a ramp when imp = 0 *)
Stream(cs, im) == [m \in 1..Total(cs) |-> IF im = 0 THEN m + (m % 3) ELSE IF m = im THEN 1 ELSE 0]

SymTaps(n) == [t \in 1..n |-> IF t <= (n + 1) \div 2 THEN t ELSE n - t + 1]     \* 1,2,3,2,1
AsymTaps(n) == [t \in 1..n |-> t + 1]                                          \* 2,3,4,...

InitState(cs) ==
    CASE cs.p = "fir" -> Zeros(cs.nh - 1)
      [] cs.p = "ola" -> OlaInit(AsymTaps(cs.nh))
      [] cs.p = "ma" -> MaInit(cs.n)
      [] cs.p = "decim" -> DecimInit(cs.M, SymTaps(cs.nh))
      [] cs.p = "interp" -> InterpInit(cs.L, SymTaps(cs.nh))
      [] cs.p = "rate" -> RateInit(cs.L, SymTaps(cs.nh))
      [] cs.p = "median" -> [ring |-> [k \in 1..cs.n |-> 0], sorted |-> [k \in 1..cs.n |-> 0], i |-> 0]

(* whole-stream phase of the rate converter: the phi for which a single call equals the chain
   on every impulse (exists by ASSUME below) *)
OneShot(cs, im) ==
    LET x == Stream(cs, im) IN
    CASE cs.p = "decim" -> DecimImplStep(cs.M, SymTaps(cs.nh), DecimInit(cs.M, SymTaps(cs.nh)), x).out
      [] cs.p = "interp" -> InterpImplStep(cs.L, SymTaps(cs.nh), InterpInit(cs.L, SymTaps(cs.nh)), x).out
      [] cs.p = "rate" -> RateImplStep(cs.L, cs.M, SymTaps(cs.nh), RateInit(cs.L, SymTaps(cs.nh)), x).out
LM(cs) == CASE cs.p = "decim" -> <<1, cs.M>> [] cs.p = "interp" -> <<cs.L, 1>> [] cs.p = "rate" -> <<cs.L, cs.M>>
PhiOK(cs, phi) == \A im \in 0..Total(cs) :
    LET o == OneShot(cs, im)  x == Stream(cs, im) IN
    \A j \in 1..Len(o) : o[j] = ChainAt(LM(cs)[1], LM(cs)[2], SymTaps(cs.nh), x, j - 1, phi)
(* the fixed textbook phase in closed form (derived from the code's index arithmetic):
     interpolator 0; decimator nh-1-M*(sublen-1); rate converter M-1.  That these phases make the
     one-call output equal the chain is the single-frame path of FramingInvariant. *)
Phi(cs) == CASE cs.p = "interp" -> 0
             [] cs.p = "decim" -> cs.nh - 1 - cs.M * (SubLen(SymTaps(cs.nh), cs.M) - 1)
             [] cs.p = "rate" -> cs.M - 1
PhiSet(cs) == {phi \in PhaseCandidates(LM(cs)[1], LM(cs)[2], SymTaps(cs.nh)) : PhiOK(cs, phi)}
(* spot check that the phase is found by search as well (what Trace_Stream does on real traces) *)
ASSUME \A cs \in {[p |-> "rate", L |-> 2, M |-> 3, nh |-> 6], [p |-> "decim", M |-> 3, nh |-> 7]} : Phi(cs) \in PhiSet(cs)

(* median filter step in implementation shape: ring + incrementally maintained sorted window *)
RECURSIVE MedianRun(_, _, _, _)
MedianRun(n, s, frame, out) ==
    IF frame = <<>> THEN [out |-> out, st |-> s]
    ELSE LET i1 == (s.i + 1) % n
             srt == UpdateSort(s.sorted, Head(frame), s.ring[i1 + 1])
             rg == [s.ring EXCEPT ![i1 + 1] = Head(frame)]
             y2 == IF n % 2 = 1 THEN 2 * srt[n \div 2 + 1] ELSE srt[n \div 2 + 1] + srt[n \div 2]
         IN MedianRun(n, [ring |-> rg, sorted |-> srt, i |-> i1], Tail(frame), Append(out, y2))

Step(cs, s, frame) ==
    CASE cs.p = "fir" -> LET r == FirImplStep(AsymTaps(cs.nh), s, frame) IN [out |-> r.out, st |-> r.hist]
      [] cs.p = "ola" -> OlaImplStep(AsymTaps(cs.nh), s, frame)
      [] cs.p = "ma" -> MaImplStep(cs.n, s, frame)
      [] cs.p = "decim" -> LET r == DecimImplStep(cs.M, SymTaps(cs.nh), s, frame) IN [out |-> r.out, st |-> r.hist]
      [] cs.p = "interp" -> LET r == InterpImplStep(cs.L, SymTaps(cs.nh), s, frame) IN [out |-> r.out, st |-> r.hist]
      [] cs.p = "rate" -> LET r == RateImplStep(cs.L, cs.M, SymTaps(cs.nh), s, frame) IN [out |-> r.out, st |-> r.hist]
      [] cs.p = "median" -> MedianRun(cs.n, s, frame, <<>>)

(* definitional output number j (0-based) of the whole stream x *)
Def(cs, x, j) ==
    CASE cs.p \in {"fir", "ola"} -> FirDef(AsymTaps(cs.nh), x, j)
      [] cs.p = "ma" -> MaDef2(cs.n, x, j)
      [] cs.p \in {"decim", "interp", "rate"} -> ChainAt(LM(cs)[1], LM(cs)[2], SymTaps(cs.nh), x, j, Phi(cs))
      [] cs.p = "median" -> MedianStream2(cs.n, 0, x, j)
(* how many outputs exist after `n` input samples *)
Produced(cs, n) ==
    CASE cs.p = "ola" -> FftProduced(cs.nh, n)
      [] cs.p \in {"decim", "interp", "rate"} -> OutLen(LM(cs)[1], LM(cs)[2], n)
      [] OTHER -> n

CasesQuick ==
  { [p |-> "fir", nh |-> 2], [p |-> "fir", nh |-> 3], [p |-> "fir", nh |-> 5],
    [p |-> "ola", nh |-> 2], [p |-> "ola", nh |-> 3],
    [p |-> "ma", n |-> 1], [p |-> "ma", n |-> 3], [p |-> "ma", n |-> 4],
    [p |-> "median", n |-> 3], [p |-> "median", n |-> 4], [p |-> "median", n |-> 5],
    [p |-> "decim", M |-> 2, nh |-> 4], [p |-> "decim", M |-> 2, nh |-> 5], [p |-> "decim", M |-> 3, nh |-> 7],
    [p |-> "interp", L |-> 2, nh |-> 4], [p |-> "interp", L |-> 3, nh |-> 7], [p |-> "interp", L |-> 2, nh |-> 5],
    [p |-> "rate", L |-> 2, M |-> 3, nh |-> 6], [p |-> "rate", L |-> 3, M |-> 2, nh |-> 7],
    [p |-> "rate", L |-> 3, M |-> 4, nh |-> 9] }
CasesFull == CasesQuick \cup
  { [p |-> "fir", nh |-> 8], [p |-> "ola", nh |-> 5], [p |-> "ma", n |-> 7], [p |-> "median", n |-> 6],
    [p |-> "decim", M |-> 4, nh |-> 9], [p |-> "decim", M |-> 5, nh |-> 12], [p |-> "interp", L |-> 4, nh |-> 10],
    [p |-> "interp", L |-> 5, nh |-> 11], [p |-> "rate", L |-> 4, M |-> 3, nh |-> 13],
    [p |-> "rate", L |-> 2, M |-> 5, nh |-> 8], [p |-> "rate", L |-> 5, M |-> 3, nh |-> 16],
    [p |-> "rate", L |-> 5, M |-> 7, nh |-> 21] }

CasesFir == { cs \in CasesQuick : cs.p \in {"fir", "ola", "ma"} } \cup { [p |-> "fir", nh |-> 8], [p |-> "ma", n |-> 7] }
(* every coprime ratio L/M with L, M <= 6 (quick) / <= 9 (full), two filter lengths each *)
Ratios(n) == { lm \in (1..n) \X (1..n) : Gcd(lm[1], lm[2]) = 1 /\ lm # <<1, 1>> }
CaseOf(lm, nh) == IF lm[1] = 1 THEN [p |-> "decim", M |-> lm[2], nh |-> nh]
                  ELSE IF lm[2] = 1 THEN [p |-> "interp", L |-> lm[1], nh |-> nh]
                  ELSE [p |-> "rate", L |-> lm[1], M |-> lm[2], nh |-> nh]
Max2(a, b) == IF a > b THEN a ELSE b
CasesMulti == { CaseOf(lm, nh) : lm \in Ratios(6), nh \in {3} } \cup
              { CaseOf(lm, 2 * Max2(lm[1], lm[2]) + 1) : lm \in Ratios(6) }
CasesMultiFull == { CaseOf(lm, nh) : lm \in Ratios(9), nh \in {2, 5} } \cup
              { CaseOf(lm, 2 * Max2(lm[1], lm[2]) + 1) : lm \in Ratios(9) } \cup
              { CaseOf(lm, 3 * Max2(lm[1], lm[2]) + 2) : lm \in Ratios(9) }

Init == /\ c \in Cases
        /\ imp \in 0..(K * 12)
        /\ imp <= Total(c)
        /\ pos = 0 /\ prod = 0 /\ ok = TRUE
        /\ st = InitState(c)

Feed(f) ==
    LET g == Gran(c)
        x == Stream(c, imp)
        frame == SubSeq(x, pos + 1, pos + f * g)
        r == Step(c, st, frame)
        p1 == pos + f * g
    IN /\ pos' = p1
       /\ st' = r.st
       /\ prod' = prod + Len(r.out)
       /\ ok' = /\ prod + Len(r.out) = Produced(c, p1)
                /\ \A j \in 1..Len(r.out) : r.out[j] = Def(c, x, prod + j - 1)
       /\ UNCHANGED <<c, imp>>

Next == \E f \in 1..K : pos + f * Gran(c) <= Total(c) /\ Feed(f)
Spec == Init /\ [][Next]_vars

FramingInvariant == ok
(* the processor state after consuming a prefix does not depend on how the prefix was framed *)
View == <<c, imp, pos, st, prod, ok>>
=============================================================================
