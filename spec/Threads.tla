------------------------------- MODULE Threads -------------------------------
(***************************************************************************)
(* Concurrent use of transform plans (C09).  A solve() on plan p by thread  *)
(* t is three steps: Begin (take the input), Mid (write intermediate data   *)
(* into the scratch area), End (read the scratch area into the result).     *)
(* The scratch area is either owned by the call ("perCall": one per thread  *)
(* and call) or by the plan object ("perPlan": one per plan, shared by all  *)
(* callers).  Result preservation = every End reads what its own Mid wrote. *)
(* Plan caches and random generators are per thread (PlanCache.tla,         *)
(* Random.tla); here: a thread's cache/generator is touched by it alone.    *)
(***************************************************************************)
EXTENDS Integers, Sequences, FiniteSets

CONSTANTS Thr,        \* threads
          Plans,      \* plan objects
          Scratch,    \* "perCall" or "perPlan"
          Calls       \* solves per thread

VARIABLES pc,         \* pc[t] \in {"idle", "begun", "mid", "done"}
          cur,        \* cur[t]: plan being solved by t
          left,       \* left[t]: solves still to do
          writer,     \* writer[area]: thread that last wrote the scratch area
          corrupt     \* set of threads that read a scratch area last written by someone else
vars == <<pc, cur, left, writer, corrupt>>

Area(t, p) == IF Scratch = "perPlan" THEN <<"plan", p>> ELSE <<"call", t>>
Areas == {<<"plan", p>> : p \in Plans} \cup {<<"call", t>> : t \in Thr}

Init == /\ pc = [t \in Thr |-> "idle"] /\ cur = [t \in Thr |-> CHOOSE p \in Plans : TRUE]
        /\ left = [t \in Thr |-> Calls] /\ writer = [a \in Areas |-> 0] /\ corrupt = {}

Begin(t, p) == /\ pc[t] = "idle" /\ left[t] > 0
               /\ pc' = [pc EXCEPT ![t] = "begun"] /\ cur' = [cur EXCEPT ![t] = p]
               /\ UNCHANGED <<left, writer, corrupt>>
Mid(t) == /\ pc[t] = "begun"
          /\ writer' = [writer EXCEPT ![Area(t, cur[t])] = t]
          /\ pc' = [pc EXCEPT ![t] = "mid"] /\ UNCHANGED <<cur, left, corrupt>>
End(t) == /\ pc[t] = "mid"
          /\ corrupt' = IF writer[Area(t, cur[t])] # t THEN corrupt \cup {t} ELSE corrupt
          /\ pc' = [pc EXCEPT ![t] = "idle"] /\ left' = [left EXCEPT ![t] = @ - 1]
          /\ UNCHANGED <<cur, writer>>
Next == \E t \in Thr : (\E p \in Plans : Begin(t, p)) \/ Mid(t) \/ End(t)
Spec == Init /\ [][Next]_vars

(* C09: each call returns what it would return single-threaded *)
ResultPreserved == corrupt = {}
(* a data race in the happens-before sense: two threads inside Mid..End on the same area *)
RaceFree == \A t, u \in Thr : (t # u /\ pc[t] \in {"mid"} /\ pc[u] \in {"mid"}) => Area(t, cur[t]) # Area(u, cur[u])
=============================================================================
