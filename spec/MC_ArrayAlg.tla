---------------------------- MODULE MC_ArrayAlg ----------------------------
(* Value semantics in small scope: three variables, every program of copy / compound / binary / neg / cat /   *)
(* set steps; invariants: a copy stays equal to nothing but its own later updates (independence), operands of *)
(* non-compound steps are unchanged, a throwing step changes nothing.                                          *)
EXTENDS ArrayAlg, TLC
CONSTANTS Vars, MaxLen, Depth

VARIABLES env, depth, last
vars == <<env, depth, last>>

Arr(ty, re, im) == [ty |-> ty, re |-> re, im |-> im]
Init == /\ env = [v \in Vars |-> IF v = "a" THEN Arr("R", <<1, 2>>, <<0, 0>>)
                                 ELSE IF v = "b" THEN Arr("R", <<3>>, <<0>>)
                                 ELSE Arr("C", <<1, 0>>, <<1, 2>>)]
        /\ depth = 0 /\ last = [k |-> "init"]

Steps == [k : {"copy"}, dst : Vars, src : Vars] \cup [k : {"compound"}, op : {"+", "*"}, dst : Vars, src : Vars]
         \cup [k : {"binary"}, op : {"-"}, dst : Vars, a : Vars, b : Vars]
         \cup [k : {"neg"}, dst : Vars, src : Vars] \cup [k : {"cat"}, dst : Vars, src : Vars]
         \cup [k : {"set"}, dst : Vars, i : {0}, v : {9}]

TypeOKStep(st) ==   \* what C++ would compile: the destination type must be able to hold the result
    CASE st.k = "copy" -> env[st.dst].ty = env[st.src].ty
      [] st.k = "compound" -> Promote(env[st.dst].ty, env[st.src].ty) = env[st.dst].ty
      [] st.k = "binary" -> Promote(env[st.a].ty, env[st.b].ty) = env[st.dst].ty
      [] st.k = "neg" -> env[st.dst].ty = env[st.src].ty
      [] st.k = "cat" -> Promote(env[st.dst].ty, env[st.src].ty) = env[st.dst].ty /\ N(env[st.dst]) + N(env[st.src]) <= MaxLen
      [] st.k = "set" -> N(env[st.dst]) > st.i

Next == /\ depth < Depth
        /\ \E st \in Steps : /\ TypeOKStep(st)
                             /\ env' = Step(env, st)
                             /\ last' = st
                             /\ depth' = depth + 1
Spec == Init /\ [][Next]_vars

WF == \A v \in Vars : WellFormed(env[v])
(* only the destination of a step may change; a throwing step changes nothing *)
OnlyDst == [][\A v \in Vars : (v # last'.dst \/ Throws(env, last')) => env'[v] = env[v]]_vars
(* a copy is independent of its source: after dst = src, a later "set" on one leaves the other alone —
   subsumed by OnlyDst; stated separately on values: right after the copy both are equal *)
CopyEqual == [][last'.k = "copy" => Same(env'[last'.dst], env'[last'.src])]_vars
Bounded == \A v \in Vars : \A i \in 1..N(env[v]) : env[v].re[i] \in -100000..100000
=============================================================================
