CONSTANTS NMax = 300
SPECIFICATION Spec
INVARIANT ExactlyOneLength
CHECK_DEADLOCK FALSE
