---------------------------- MODULE MC_Detector ----------------------------
(* The detector's cyclic delay line (lib/detector.cpp CDelay): push one sample per step, extraction at any time *)
(* returns the last Lp pushed samples in order; frames of F samples; the frame/offset of stream index e.        *)
EXTENDS Detector, TLC
CONSTANTS LpSet, NMax
VARIABLES Lp, buf, idx, n
vars == <<Lp, buf, idx, n>>
Init == Lp \in LpSet /\ buf = [k \in 1..Lp |-> 0] /\ idx = 0 /\ n = 0
Push == /\ n < NMax /\ n' = n + 1
        /\ buf' = [buf EXCEPT ![idx + 1] = n + 1]            \* store the sample number
        /\ idx' = (IF idx + 1 = Lp THEN 0 ELSE idx + 1)
        /\ UNCHANGED Lp
Next == Push
Spec == Init /\ [][Next]_vars
Extract == [k \in 1..Lp |-> buf[((idx + k - 1) % Lp) + 1]]
ExtractIsLastLp == Extract = RingAfter(Lp, n)
(* sample number n (index e = n-1) lies in frame e div F at offset e mod F, and offsets stay below F *)
FrameLaw == n > 0 => /\ DetFrame(n - 1, Lp) * FrameLen(Lp) + DetOffset(n - 1, Lp) = n - 1
                     /\ DetOffset(n - 1, Lp) < FrameLen(Lp) /\ FrameLen(Lp) > Lp
=============================================================================
