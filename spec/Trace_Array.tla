----------------------------- MODULE Trace_Array -----------------------------
(* Conformance of array arithmetic with ArrayAlg.tla (C03).                   *)
(*   Bin / Unary / Concat / ConcatN / Select / Resid : stateless observations *)
(*   Prog0 / ProgStep : value-semantics programs over three variables (state) *)
EXTENDS ArrayAlg, TLC, Json, IOUtils

Log == ndJsonDeserialize(IOEnv.TRACE)
VARIABLES env, l
Ev == Log[l]
Init == TLCSet(1, 0) /\ env = <<>> /\ l = 1

Arr(t, re, im) == [ty |-> (IF IsC(t) THEN "C" ELSE "R"), re |-> re, im |-> im]
A == Arr(Ev.at, Ev.are, Ev.aim)
B == [ty |-> Ev.bt, re |-> Ev.bre, im |-> Ev.bim]          \* bt may be a scalar kind
R == Arr(Ev.rt, Ev.rre, Ev.rim)
A2 == Arr(Ev.a2t, Ev.a2re, Ev.a2im)
B2 == [ty |-> Ev.b2t, re |-> Ev.b2re, im |-> Ev.b2im]
SameV(x, y) == x.re = y.re /\ x.im = y.im

TBin ==
    /\ Ev.e = "Bin"
    /\ LET op == Ev.op  f == Ev.form IN
       CASE f = "AA" -> /\ BinAAOK(op, A, B, Ev.o, R)
                        /\ SameV(A2, A) /\ SameV(B2, B)            \* non-compound: operands untouched, also on throw
         [] f = "CAA" -> IF N(A) # N(B) THEN Ev.o = "throw" /\ SameV(A2, A) /\ SameV(B2, B)    \* rejected, unchanged
                         ELSE /\ BinAAOK(op, A, B, Ev.o, R) /\ R.ty = A.ty
                              /\ SameV(A2, R)                        \* the left operand now holds the result
         [] f = "AS" -> BinASOK(op, A, B, FALSE, Ev.o, R) /\ SameV(A2, A)
         [] f = "SA" -> BinASOK(op, A, B, TRUE, Ev.o, R) /\ SameV(A2, A)
         [] f = "CAS" -> BinASOK(op, A, B, FALSE, Ev.o, R) /\ R.ty = A.ty /\ SameV(A2, R)
    /\ UNCHANGED env

TUnary == /\ Ev.e = "Unary"
          /\ R.ty = A.ty /\ N(R) = N(A) /\ \A i \in 1..N(A) : El(R, i) = CNeg(El(A, i))
          /\ SameV(Arr(Ev.pt, Ev.pre, Ev.pim), A) /\ SameV(A2, A)
          /\ UNCHANGED env

TConcat == /\ Ev.e = "Concat"
           /\ LET bb == Arr(Ev.bt, Ev.bre, Ev.bim)  exp == Concat(A, bb) IN
              /\ R.ty = exp.ty /\ SameV(R, exp)
              /\ (Ev.kind = "|") => SameV(A2, A) /\ SameV(Arr(Ev.b2t, Ev.b2re, Ev.b2im), bb)
              /\ (Ev.kind # "|") => SameV(A2, exp)
           /\ UNCHANGED env
TConcatN == /\ Ev.e = "ConcatN" /\ SameV(R, A) /\ UNCHANGED env      \* a = the operands joined in order
TSelect == /\ Ev.e = "Select"
           /\ IF Ev.kind = "mask"
              THEN IF Len(Ev.sel) # N(A) THEN Ev.o = "throw"
                   ELSE Ev.o = "ret" /\ R.ty = A.ty /\ SameV(R, SelMask(A, Ev.sel))
              ELSE Ev.o = "ret" /\ R.ty = A.ty /\ SameV(R, SelIdx(A, Ev.sel))
           /\ UNCHANGED env
TResid == Ev.e = "Resid" /\ Ev.err_milli <= 1000 /\ UNCHANGED env

EnvOf == [a |-> Arr(Ev.At, Ev.Are, Ev.Aim), b |-> Arr(Ev.Bt, Ev.Bre, Ev.Bim), c |-> Arr(Ev.Ct, Ev.Cre, Ev.Cim)]
TProg0 == Ev.e = "Prog0" /\ env' = EnvOf
TProgStep ==
    /\ Ev.e = "ProgStep"
    /\ LET st == [k |-> Ev.k, op |-> Ev.op, dst |-> Ev.dst, src |-> Ev.src, a |-> Ev.a, b |-> Ev.b, i |-> Ev.i, v |-> Ev.v]
           thr == Throws(env, st)
           nxt == IF thr THEN env ELSE Step(env, st)
       IN /\ Ev.o = (IF thr THEN "throw" ELSE "ret")
          /\ \A v \in {"a", "b", "c"} : EnvOf[v].ty = nxt[v].ty /\ SameV(EnvOf[v], nxt[v])
          /\ env' = nxt

Next == /\ l <= Len(Log)
        /\ (TBin \/ TUnary \/ TConcat \/ TConcatN \/ TSelect \/ TResid \/ TProg0 \/ TProgStep)
        /\ l' = l + 1
Spec == Init /\ [][Next]_<<env, l>>
Furthest == IF l > TLCGet(1) THEN TLCSet(1, l) ELSE TRUE
Accepted == /\ PrintT(<<"FURTHEST", TLCGet(1), Len(Log)>>)
            /\ TLCGet(1) = Len(Log) + 1
=============================================================================
