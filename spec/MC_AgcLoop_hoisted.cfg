CONSTANTS Unit = 100 Levels <- MCLevels Targets <- MCTargets GMax = 460 Rr = 100 Rf = 50 G0 = 100
          Variant = "hoisted" FrameLen = 4
SPECIFICATION Spec
INVARIANTS StateBounded
CONSTRAINT Bound
CHECK_DEADLOCK FALSE
