------------------------------ MODULE Detector ------------------------------
(***************************************************************************)
(* Delay estimators and the preamble detector (C18).                       *)
(* Frame arithmetic of PreambleDetector: frames have F = BlockLen(Lp)      *)
(* samples (the FFT matched filter's block size); a preamble whose last    *)
(* sample has stream index e (0-based) is reported in frame e div F at     *)
(* offset e mod F, together with the Lp input samples ending at e.         *)
(* peakloc: vertex of the parabola through (i-1, l), (i, m), (i+1, r):     *)
(*    i + (l - r) / (2 (l - 2m + r))                                       *)
(***************************************************************************)
EXTENDS Integers, Sequences

RECURSIVE NextPow2(_)
NextPow2(m) == IF m <= 1 THEN 0 ELSE 1 + NextPow2((m \div 2) + (m % 2))
BlockLen(m) == 2 ^ NextPow2(2 * m) - m + 1
FrameLen(Lp) == BlockLen(Lp)
DetFrame(e, Lp) == e \div FrameLen(Lp)
DetOffset(e, Lp) == e % FrameLen(Lp)
AlignedStart(e, Lp) == e - Lp + 1

Abs(x) == IF x < 0 THEN -x ELSE x
(* observed offset from the index, q in 1e-6 samples, agrees with (l - r) / (2 (l - 2m + r)) *)
PeakNum(l, m, r) == l - r
PeakDen(l, m, r) == 2 * (l - 2 * m + r)
PeakAgrees(q, l, m, r) == Abs(q * PeakDen(l, m, r) - 1000000 * PeakNum(l, m, r)) <= Abs(PeakDen(l, m, r))

(* ring buffer of the detector in implementation shape: after pushing samples 0..e the extraction returns the
   last Lp of them in order (MC_Detector) *)
RingAfter(Lp, n) == [k \in 1..Lp |-> LET idx == n - Lp + k IN IF idx >= 1 THEN idx ELSE 0]    \* sample numbers, 0 = initial zero
=============================================================================
