CONSTANTS Unit = 100 Levels <- MCLevels Targets <- MCTargets GMax = 460 Rr = 100 Rf = 50 G0 = 100
          Variant = "persample" FrameLen = 4
SPECIFICATION Spec
INVARIANTS Bounded StateBounded
PROPERTY NoOvershoot
CONSTRAINT Bound
CHECK_DEADLOCK FALSE
