CONSTANTS MaxK = 3 Mu = 1
SPECIFICATION Spec
INVARIANTS LockHolds ErrorIsAPriori UpdateRule
CHECK_DEADLOCK FALSE
