CONSTANTS NMax = 40
SPECIFICATION Spec
INVARIANT LeavesOK
CHECK_DEADLOCK FALSE
