CONSTANTS SLen = 6 Vals = {0, 1, 2, 3} Variant = "asis"
SPECIFICATION Spec
INVARIANTS StepBound PeakOK Theorems
PROPERTY Terminates
CHECK_DEADLOCK FALSE
