SPECIFICATION Spec
CONSTANTS
  Alphabet = {1, 255}
  MaxLen = 3
  TypeSet = {"int16"}
  Offsets = {0}
  CountSet <- CntAll
INVARIANTS KeepsPartial
CHECK_DEADLOCK FALSE
