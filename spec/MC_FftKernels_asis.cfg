CONSTANTS P = 15121 G = 1331 N = 5040 Lens = {6, 10, 12} Variant = "asis"
SPECIFICATION Spec
INVARIANT KernelsEqualDft
CHECK_DEADLOCK FALSE
