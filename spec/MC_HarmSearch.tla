---------------------------- MODULE MC_HarmSearch ----------------------------
(* The peak walk of lib/snr.cpp as a loop, step by step, over EVERY spectrum of SLen bins with values in Vals and every   *)
(* start bin: it terminates (WF), within SLen steps, at the bin LocatePeak names, which is a local maximum not lower than  *)
(* the start.  Variant "plateau" (one loop that also steps onto an equal positive neighbour, in either direction) must     *)
(* violate Terminates: two equal neighbouring bins make it walk back and forth for ever.                                  *)
(* Theorems about the operators used by the trace specification are checked as invariants on the same spectra.            *)
EXTENDS HarmSearch, TLC
CONSTANTS SLen, Vals, Variant
VARIABLES s, idx, peak, phase, steps
vars == <<s, idx, peak, phase, steps>>

Init == /\ s \in [1..SLen -> Vals] /\ idx \in 0..(SLen - 1) /\ peak = idx /\ phase = "left" /\ steps = 0

AsIs ==
    \/ /\ phase = "left"
       /\ IF peak > 0 /\ At(s, peak - 1) > At(s, peak)
          THEN peak' = peak - 1 /\ phase' = "left" /\ steps' = steps + 1
          ELSE peak' = peak /\ phase' = "right" /\ steps' = steps
    \/ /\ phase = "right"
       /\ IF peak < SLen - 1 /\ At(s, peak) < At(s, peak + 1)
          THEN peak' = peak + 1 /\ phase' = "right" /\ steps' = steps + 1
          ELSE peak' = peak /\ phase' = "done" /\ steps' = steps
Plateau ==
    /\ phase # "done"
    /\ IF peak > 0 /\ At(s, peak - 1) >= At(s, peak) /\ At(s, peak - 1) > 0
       THEN peak' = peak - 1 /\ phase' = phase /\ steps' = Min2(steps + 1, 2 * SLen)
       ELSE IF peak < SLen - 1 /\ At(s, peak + 1) >= At(s, peak) /\ At(s, peak + 1) > 0
            THEN peak' = peak + 1 /\ phase' = phase /\ steps' = Min2(steps + 1, 2 * SLen)
            ELSE peak' = peak /\ phase' = "done" /\ steps' = steps
Step == (IF Variant = "asis" THEN AsIs ELSE Plateau) /\ UNCHANGED <<s, idx>>
Next == Step \/ (phase = "done" /\ UNCHANGED vars)
Spec == Init /\ [][Next]_vars /\ WF_vars(Step)

Terminates == <>(phase = "done")
StepBound == steps <= SLen
PeakOK == phase = "done" =>
            /\ peak = LocatePeak(s, idx)
            /\ At(s, peak) >= At(s, idx)
            /\ (peak > 0 => At(s, peak - 1) <= At(s, peak))
            /\ (peak < SLen - 1 => At(s, peak + 1) <= At(s, peak))

(* ---- theorems about Tone / AnalyzeSet on the same spectra (evaluated in the initial states) ---- *)
Total(q) == SumRange(q, 0, Len(q) - 1)
ToneOK == LET t == Tone(s, idx) IN
            /\ t.l <= t.pk /\ t.pk <= t.r
            /\ \A i \in t.l..(t.pk - 1) : At(s, i) < At(s, i + 1)            \* rising flank
            /\ \A i \in t.pk..(t.r - 1) : At(s, i) > At(s, i + 1)            \* falling flank
            /\ (t.l > 0 => At(s, t.l - 1) >= At(s, t.l))                     \* maximal
            /\ (t.r < SLen - 1 => At(s, t.r + 1) >= At(s, t.r))
            /\ t.pow = SumRange(s, t.l, t.r) /\ t.pow >= At(s, t.pk)
AnalysisOK == \A al \in BOOLEAN : \A st \in AnalyzeSet(s, 3, al) :
            /\ Len(st.tones) >= 1 /\ Len(st.tones) <= 3
            /\ st.tones[1].pk = ArgMax(s)                                     \* the fundamental sits on the largest bin
            /\ Total(st.s) + FoldLeft(LAMBDA a, t : a + t.pow, 0, st.tones) = Total(s)       \* power is moved, never lost
            /\ \A k \in 1..Len(st.tones) : \A i \in st.tones[k].l..st.tones[k].r : At(st.s, i) = 0   \* every lobe is erased
            /\ Noise2(st) >= 0
Theorems == (phase = "left" /\ steps = 0) => (ToneOK /\ AnalysisOK)
=============================================================================
