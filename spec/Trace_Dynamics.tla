--------------------------- MODULE Trace_Dynamics ---------------------------
(* Conformance of the dynamics processors with Dynamics.tla (C20).  Stateless observations. *)
EXTENDS Dynamics, TLC, Json, IOUtils

Log == ndJsonDeserialize(IOEnv.TRACE)
VARIABLE l
Ev == Log[l]
Init == TLCSet(1, 0) /\ l = 1

(* static characteristic: observed gain (mdB) on the level grid agrees with the documented curve within 2 mdB,
   and the gain is never positive *)
TStatic ==
    /\ Ev.e = "Static" /\ Len(Ev.qs) = Len(Ev.vs)
    /\ LET Wc == 100 * Ev.W IN
       \A i \in 1..Len(Ev.vs) :
          LET v == Ev.vs[i]  q == Ev.qs[i] IN
          /\ q <= 0
          /\ q >= -2000000                          \* a gain of zero or a non-number is logged as -2^29: never on the curve
          /\ IF Ev.proc = "comp" THEN Agrees(q, CompNum(v, Ev.R, Wc), CompDen(v, Ev.R, Wc), 2)
                                 ELSE Agrees(q, LimNum(v, Wc), LimDen(v, Wc), 2)
TRange == /\ Ev.e = "Range"
          /\ Ev.glo = TRUE /\ Ev.ghi = TRUE          \* gain in [0, 1] on every sample
          /\ Ev.ceil = TRUE                          \* zero-attack limiter: |out| <= threshold
          /\ Ev.outeq = TRUE                         \* out = in * reported gain
TGate == /\ Ev.e = "Gate"
         /\ GateClausesOK(Ev.xs, Ev.gains, Ev.hold)
(* smoothed gate: the gain moves toward its target only - never up while the input is below the threshold, never down
   while it is at or above it *)
TGateDyn == /\ Ev.e = "GateDyn" /\ Ev.inrange = TRUE /\ Len(Ev.dir) = Len(Ev.xs)
            /\ \A i \in 1..Len(Ev.xs) : (Ev.xs[i] = 0 => Ev.dir[i] <= 0) /\ (Ev.xs[i] = 1 => Ev.dir[i] >= 0)
TStep == /\ Ev.e = "Step"
         /\ Ev.mono = TRUE                           \* monotone approach, no overshoot
         /\ Ev.n10 >= 0 /\ Ev.n90 >= Ev.n10
         /\ RiseOK(Ev.n10, Ev.n90, Ev.fs, Ev.t_us)
         /\ (Ev.tau_ppm >= 0) => (Ev.tau_ppm >= 990000 /\ Ev.tau_ppm <= 1010000)   \* the configured time constant, to 1 %
(* AGC: never above max_gain; when the required gain is below max_gain (0.5 dB margin) the output power is
   within 1 % of the target *)
TAgc == /\ Ev.e = "Agc"
        /\ Ev.gmax_mdb <= Ev.max_mdb + 1
        /\ (Ev.need_mdb <= Ev.max_mdb - 500) => (Ev.ratio_ppm >= 990000 /\ Ev.ratio_ppm <= 1010000)

Next == /\ l <= Len(Log)
        /\ (TStatic \/ TRange \/ TGate \/ TGateDyn \/ TStep \/ TAgc) = TRUE
        /\ l' = l + 1
Spec == Init /\ [][Next]_l
Furthest == IF l > TLCGet(1) THEN TLCSet(1, l) ELSE TRUE
Accepted == /\ PrintT(<<"FURTHEST", TLCGet(1), Len(Log)>>)
            /\ TLCGet(1) = Len(Log) + 1
=============================================================================
