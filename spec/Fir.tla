-------------------------------- MODULE Fir --------------------------------
(***************************************************************************)
(* FIR filtering, overlap-add FFT filtering, moving average and            *)
(* cross-correlation over the integers / Gaussian integers (C07, C06).     *)
(*                                                                         *)
(* Definitional layer : FirDef, MaDef2 (n * moving average), XcorrDef      *)
(* Implementation-shaped layer (one operator per critical section of       *)
(* lib/fir.cpp, include/dsplib/fir.h, lib/ma-filter.h): FirImplStep,       *)
(* OlaImplStep, MaImplStep.  MC_Stream checks that the implementation-     *)
(* shaped layer equals the definitions under every framing.                *)
(* Sequences are 1-based; X(s, i) reads 0-based index i with zero fill.    *)
(***************************************************************************)
EXTENDS Integers, Sequences

X(s, i) == IF i >= 0 /\ i < Len(s) THEN s[i + 1] ELSE 0
Zeros(n) == [k \in 1..n |-> 0]
Last(s, n) == SubSeq(s, Len(s) - n + 1, Len(s))
Pow2(k) == 2 ^ k
RECURSIVE NextPow2(_)
NextPow2(m) == IF m <= 1 THEN 0 ELSE 1 + NextPow2((m + 1) \div 2)    \* ceil(log2 m), nextpow2(0)=nextpow2(1)=0

(* Sum_{k=0}^{n-1} F(k) *)
SumN(F(_), n) == LET RECURSIVE S(_)
                     S(k) == IF k >= n THEN 0 ELSE F(k) + S(k + 1)
                 IN S(0)

(* ------------------------------ definitions ------------------------------ *)
(* y[i] = sum_k h[k] x[i-k]   (real taps) *)
FirDef(h, x, i) == SumN(LAMBDA k : h[k + 1] * X(x, i - k), Len(h))
(* complex: y[i] = sum_k conj(h[k]) x[i-k], the library's convention *)
FirDefRe(hr, hi, xr, xi, i) == SumN(LAMBDA k : hr[k + 1] * X(xr, i - k) + hi[k + 1] * X(xi, i - k), Len(hr))
FirDefIm(hr, hi, xr, xi, i) == SumN(LAMBDA k : hr[k + 1] * X(xi, i - k) - hi[k + 1] * X(xr, i - k), Len(hr))
(* the plain (unconjugated) sum, used by the adaptive filters *)
FirPlainRe(hr, hi, xr, xi, i) == SumN(LAMBDA k : hr[k + 1] * X(xr, i - k) - hi[k + 1] * X(xi, i - k), Len(hr))
FirPlainIm(hr, hi, xr, xi, i) == SumN(LAMBDA k : hr[k + 1] * X(xi, i - k) + hi[k + 1] * X(xr, i - k), Len(hr))

(* n times the moving average: sum of the last n inputs *)
MaDef2(n, x, i) == SumN(LAMBDA k : X(x, i - k), n)

(* xcorr(a,b)[lag] = sum_n a[n+lag] conj(b[n]); output index j <-> lag = j - (Len(b)-1) *)
XcorrRe(ar, ai, br, bi, lag) == SumN(LAMBDA n : X(ar, n + lag) * br[n + 1] + X(ai, n + lag) * bi[n + 1], Len(br))
XcorrIm(ar, ai, br, bi, lag) == SumN(LAMBDA n : X(ai, n + lag) * br[n + 1] - X(ar, n + lag) * bi[n + 1], Len(br))

(* FFT filter geometry *)
FftLen(m) == Pow2(NextPow2(2 * m))
BlockLen(m) == FftLen(m) - m + 1
FftProduced(m, total) == (total \div BlockLen(m)) * BlockLen(m)

(* --------------------------- implementation shape --------------------------- *)
(* FirFilter::process: x = history | frame; r[i] = sum_k x[i+k] h[nh-k-1]; history = last nh-1 of x *)
FirImplStep(h, hist, frame) ==
    LET nh == Len(h)
        x == hist \o frame
    IN [out |-> [i \in 1..Len(frame) |-> SumN(LAMBDA k : x[i + k] * h[nh - k], nh)],
        hist |-> Last(x, nh - 1)]

(* circular convolution of length N: what ifft(fft(x) .* fft(h, N)) computes *)
CircConv(x, h, N, i) == SumN(LAMBDA j : X(x, j) * X(h, (i - j + N) % N), N)

(* FftFilter::process, sample by sample.  st = [nx, buf, olap]; returns [out, st] *)
RECURSIVE OlaImplRun(_, _, _, _)
OlaImplRun(h, st, frame, out) ==
    IF frame = <<>> THEN [out |-> out, st |-> st]
    ELSE LET m == Len(h)
             N == FftLen(m)
             B == BlockLen(m)
             buf1 == [st.buf EXCEPT ![st.nx + 1] = Head(frame)]
             nx1 == st.nx + 1
         IN IF nx1 < B
            THEN OlaImplRun(h, [nx |-> nx1, buf |-> buf1, olap |-> st.olap], Tail(frame), out)
            ELSE LET ry == [i \in 1..N |-> CircConv(buf1, h, N, i - 1)]
                     blk == [i \in 1..B |-> ry[i] + (IF i <= m - 1 THEN st.olap[i] ELSE 0)]
                     ol == [i \in 1..(m - 1) |-> ry[i + B]]
                 IN OlaImplRun(h, [nx |-> 0, buf |-> buf1, olap |-> ol], Tail(frame), out \o blk)
OlaInit(h) == [nx |-> 0, buf |-> Zeros(FftLen(Len(h))), olap |-> Zeros(Len(h) - 1)]
OlaImplStep(h, st, frame) == OlaImplRun(h, st, frame, <<>>)

(* MAFilter::process(sample): st = [buf, pos, acc]; output is acc (= n * y) *)
SumSeq(s) == SumN(LAMBDA k : s[k + 1], Len(s))
RECURSIVE MaImplRun(_, _, _, _)
MaImplRun(n, st, frame, out) ==
    IF frame = <<>> THEN [out |-> out, st |-> st]
    ELSE LET x == Head(frame)
             acc1 == st.acc - st.buf[st.pos + 1] + x
             buf1 == [st.buf EXCEPT ![st.pos + 1] = x]
             pos1 == st.pos + 1
             st1 == IF pos1 = n THEN [buf |-> buf1, pos |-> 0, acc |-> SumSeq(buf1)]
                                ELSE [buf |-> buf1, pos |-> pos1, acc |-> acc1]
         IN MaImplRun(n, st1, Tail(frame), Append(out, st1.acc))
MaInit(n) == [buf |-> Zeros(n), pos |-> 0, acc |-> 0]
MaImplStep(n, st, frame) == MaImplRun(n, st, frame, <<>>)
=============================================================================
