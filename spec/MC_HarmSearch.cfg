CONSTANTS SLen = 5 Vals = {0, 1, 2} Variant = "asis"
SPECIFICATION Spec
INVARIANTS StepBound PeakOK Theorems
PROPERTY Terminates
CHECK_DEADLOCK FALSE
