------------------------------- MODULE Peaks -------------------------------
(***************************************************************************)
(* Growth beyond the listed properties: findpeaks (lib/findpeaks.cpp).     *)
(* The routine is a loop over a working copy of the data: take the first   *)
(* maximum, walk down both flanks while the samples strictly decrease,     *)
(* report (location, height, width of the walked region), zero the region, *)
(* repeat npeaks times.  One loop iteration = one Pick action.             *)
(* Sequences are 1-based here, the logged locations 0-based.               *)
(***************************************************************************)
EXTENDS Integers, Sequences

MaxVal(d) == CHOOSE v \in {d[i] : i \in 1..Len(d)} : \A i \in 1..Len(d) : d[i] <= v
ArgMax(d) == CHOOSE i \in 1..Len(d) : d[i] = MaxVal(d) /\ \A j \in 1..(i - 1) : d[j] < MaxVal(d)

RECURSIVE LeftDescent(_, _), RightDescent(_, _)
LeftDescent(d, p) == IF p > 1 /\ d[p - 1] < d[p] THEN LeftDescent(d, p - 1) ELSE p
RightDescent(d, p) == IF p < Len(d) /\ d[p] > d[p + 1] THEN RightDescent(d, p + 1) ELSE p

\* one iteration: <<new data, <<loc0, pk, width>> >>
Pick(d) == LET im == ArgMax(d)
               lp == LeftDescent(d, im)
               rp == RightDescent(d, im)
           IN <<[i \in 1..Len(d) |-> IF i >= lp /\ i <= rp THEN 0 ELSE d[i]], <<im - 1, d[im], rp - lp + 1>>, lp, rp>>

RECURSIVE FindPeaks(_, _)
FindPeaks(d, k) == IF k <= 0 THEN <<>> ELSE LET s == Pick(d) IN <<s[2]>> \o FindPeaks(s[1], k - 1)
=============================================================================
