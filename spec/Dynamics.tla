------------------------------ MODULE Dynamics ------------------------------
(***************************************************************************)
(* Dynamics processors (C20): static characteristics of compressor and     *)
(* limiter as exact rationals on a level grid, the noise gate as a state   *)
(* machine, attack/release timing and AGC steady state as integer bounds.  *)
(*                                                                         *)
(* Units: levels relative to the threshold, v = x - T, in centi-dB (cB);   *)
(* knee width Wc = 100*W cB; gains in milli-dB (mdB).  The static gain     *)
(* g(v) = y - x of the documented curve is                                 *)
(*    v <= -Wc/2          : 0                                              *)
(*    |v| <  Wc/2 (knee)  : (1/R - 1) (v + Wc/2)^2 / (2 Wc)                *)
(*    v >=  Wc/2          : (1/R - 1) v              (limiter: R = inf)    *)
(* GainNum/GainDen give g in mdB as an exact fraction.                     *)
(***************************************************************************)
EXTENDS Integers, Sequences, FiniteSets

Abs(x) == IF x < 0 THEN -x ELSE x
(* compressor: g[mdB] = GainNum / GainDen, v in cB, Wc in cB, R >= 1 *)
CompNum(v, R, Wc) ==
    IF 2 * v <= -Wc THEN 0
    ELSE IF 2 * v < Wc THEN -5 * (R - 1) * (((2 * v + Wc) * (2 * v + Wc)) \div 4)     \* (v + Wc/2)^2, Wc even
    ELSE -10 * (R - 1) * v
CompDen(v, R, Wc) == IF 2 * v <= -Wc THEN 1 ELSE IF 2 * v < Wc THEN R * Wc ELSE R
(* limiter (R = infinity) *)
LimNum(v, Wc) ==
    IF 2 * v <= -Wc THEN 0
    ELSE IF 2 * v < Wc THEN -5 * (((2 * v + Wc) * (2 * v + Wc)) \div 4)
    ELSE -10 * v
LimDen(v, Wc) == IF 2 * v <= -Wc THEN 1 ELSE IF 2 * v < Wc THEN Wc ELSE 1

(* observed gain q (mdB, rounded) agrees with num/den within tol mdB (plus half a unit of rounding) *)
Agrees(q, num, den, tol) == 2 * Abs(q * den - num) <= (2 * tol + 1) * den

(* output level y = x + g in mdB relative to threshold, as a fraction with denominator den: (10 v den + num)/den *)
OutNum(v, num, den) == 10 * v * den + num

(* -------- noise gate with zero attack / release: st = [g, c] (last gain 0/1, hold counter) -------- *)
GateStep(st, above, hold) ==
    LET gc == IF above THEN 1 ELSE 0 IN
    IF gc = st.g THEN [g |-> gc, c |-> st.c]
    ELSE IF gc < st.g
         THEN (IF st.c < hold THEN [g |-> st.g, c |-> st.c + 1] ELSE [g |-> 0, c |-> st.c])
         ELSE [g |-> 1, c |-> 0]
RECURSIVE GateRun(_, _, _, _)
GateRun(st, xs, hold, out) == IF xs = <<>> THEN out
                              ELSE LET s1 == GateStep(st, Head(xs) = 1, hold) IN GateRun(s1, Tail(xs), hold, Append(out, s1.g))
(* statement-level clauses for the gate (what does not depend on how the hold counter is kept):
   open whenever the input is at or above the threshold; closed once it has been below it for more than
   `hold` consecutive samples *)
RunBelow(xs, i) == LET RECURSIVE B(_)
                       B(k) == IF k < 1 \/ xs[k] = 1 THEN 0 ELSE 1 + B(k - 1)
                   IN B(i)
GateClausesOK(xs, gains, hold) ==
    /\ Len(gains) = Len(xs)
    /\ \A i \in 1..Len(xs) : gains[i] \in {0, 1}
    /\ \A i \in 1..Len(xs) : xs[i] = 1 => gains[i] = 1
    /\ \A i \in 1..Len(xs) : RunBelow(xs, i) > hold => gains[i] = 0

(* one-pole smoothing: 10 % -> 90 % of a step takes fs*t samples (within 2 % and 2 samples) *)
RiseOK(n10, n90, fs, t_us) == LET want == ((fs \div 100) * t_us) \div 10000         \* fs * t, t in microseconds (fs a multiple of 100)
                              IN 50 * Abs((n90 - n10) - want) <= want + 100
=============================================================================
