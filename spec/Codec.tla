------------------------------- MODULE Codec -------------------------------
(***************************************************************************)
(* Growth beyond the listed properties: the file decoder from_file and the *)
(* interleaved real <-> complex conversions of include/dsplib/utils.h.     *)
(*                                                                         *)
(* from_file(file, dtype, endian, offset, count) is a little reading loop  *)
(* (lib/utils.cpp:_from_file): seek, then read one item of Size(dtype)     *)
(* bytes at a time until `count` items were produced or the file ends; a   *)
(* trailing partial item is dropped.  The loop is written here as actions  *)
(* (Seek, ReadItem, Stop) and MC_Codec shows it equal to the closed form   *)
(* Decode for every small file; Trace_Codec holds the real function to     *)
(* Decode on recorded calls.  Values are carried as <<hi, lo>> 16-bit      *)
(* words (TLC integers are 32 bit; uint32 is not).                         *)
(***************************************************************************)
EXTENDS Integers, Sequences

Types == {"int16", "uint16", "int32", "uint32"}
Orders == {"little", "big"}
Size(t) == IF t \in {"int16", "uint16"} THEN 2 ELSE 4
Signed(t) == t \in {"int16", "int32"}

\* the item stored in bytes b (a sequence of Size(t) bytes) as <<hi, lo>>, value = hi*65536 + lo, 0 <= lo < 65536
Word(b1, b0) == b1 * 256 + b0                      \* b1 the more significant byte
Item(b, t, o) ==
    LET bs == IF o = "little" THEN [i \in 1..Len(b) |-> b[Len(b) + 1 - i]] ELSE b      \* most significant first
    IN IF Size(t) = 2
       THEN LET w == Word(bs[1], bs[2])
            IN IF Signed(t) /\ w >= 32768 THEN <<-1, w>> ELSE <<0, w>>                  \* w - 65536 = -1*65536 + w
       ELSE LET h == Word(bs[1], bs[2])
                l == Word(bs[3], bs[4])
            IN IF Signed(t) /\ h >= 32768 THEN <<h - 65536, l>> ELSE <<h, l>>

\* where reading starts: fseek(SEEK_CUR) from 0; a negative offset fails and leaves the position at 0;
\* an offset past the end is allowed and yields nothing
Start(offset) == IF offset < 0 THEN 0 ELSE offset

\* number of whole items available from the start position
Avail(len, t, offset) == IF Start(offset) >= len THEN 0 ELSE (len - Start(offset)) \div Size(t)

\* count < 0 never reaches zero by decrementing: it means "all"
Count(len, t, offset, count) ==
    IF count < 0 \/ count > Avail(len, t, offset) THEN Avail(len, t, offset) ELSE count

Decode(bytes, t, o, offset, count) ==
    [k \in 1..Count(Len(bytes), t, offset, count) |->
        Item(SubSeq(bytes, Start(offset) + (k - 1) * Size(t) + 1, Start(offset) + k * Size(t)), t, o)]

(***************************************************************************)
(* interleaved conversions                                                 *)
(***************************************************************************)
ToComplexThrows(v) == Len(v) % 2 # 0
ToComplex(v) == [k \in 1..(Len(v) \div 2) |-> <<v[2 * k - 1], v[2 * k]>>]
FromComplex(z) == [i \in 1..(2 * Len(z)) |-> IF i % 2 = 1 THEN z[(i + 1) \div 2][1] ELSE z[i \div 2][2]]

(***************************************************************************)
(* small predicates of math.h                                              *)
(***************************************************************************)
Sign(x) == IF x > 0 THEN 1 ELSE IF x < 0 THEN -1 ELSE 0
IsSortedAsc(v) == \A i \in 1..(Len(v) - 1) : v[i] <= v[i + 1]
IsSortedDesc(v) == \A i \in 1..(Len(v) - 1) : v[i] >= v[i + 1]
=============================================================================
