CONSTANTS
  K = 6
  Cases <- CasesFir
SPECIFICATION Spec
INVARIANT FramingInvariant
CHECK_DEADLOCK FALSE
