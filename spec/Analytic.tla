------------------------------ MODULE Analytic ------------------------------
(***************************************************************************)
(* Analytic-signal and frequency-translation tools (C14).                  *)
(* Tuner: sample k of the stream is multiplied by exp(2 pi i f k / fs).    *)
(* For f = a/b Hz the phase of sample k is exactly r/M turns with          *)
(* M = b*fs and r = (a*k) mod M: an integer statement, for every k, every  *)
(* admissible f (integer or not) and any framing.                          *)
(* HilbertFilter: filter length M = flen (odd) or flen+1, real part =      *)
(* input delayed by M div 2 samples.  hilbert(): spectral weights.         *)
(***************************************************************************)
EXTENDS Integers, Sequences

(* (a * k) mod M without leaving 31 bits (a may be negative) *)
MulMod(a, k, M) == LET RECURSIVE MM(_, _, _)
                       MM(x, y, acc) == IF y = 0 THEN acc
                                        ELSE MM((2 * x) % M, y \div 2, IF y % 2 = 1 THEN (acc + x) % M ELSE acc)
                   IN MM(((a % M) + M) % M, k, 0)
TunerPhase(a, b, fs, k) == MulMod(a, k, b * fs)          \* in units of 1/(b*fs) turn

HilbertLen(flen) == IF flen % 2 = 1 THEN flen ELSE flen + 1
X(s, i) == IF i >= 0 /\ i < Len(s) THEN s[i + 1] ELSE 0
DelayedOK(x, re, M) == Len(re) = Len(x) /\ \A i \in 1..Len(x) : re[i] = X(x, i - 1 - (M \div 2))

(* analytic-signal weights of hilbert(): bin 0 x1, positive bins x2, Nyquist (even n) x1, negative bins x0 *)
HilbertWeight(n, k) == IF k = 0 THEN 1 ELSE IF 2 * k < n THEN 2 ELSE IF 2 * k = n THEN 1 ELSE 0
=============================================================================
