----------------------------- MODULE MC_Primes -----------------------------
(***************************************************************************)
(* The trial-division loop of isprime()/factor() (lib/primes.cpp) over a    *)
(* word of W = 2^Bits values.  The divisor runs through the primes; the     *)
(* loop guard is  d*d <= n  computed either in the word ("asis": the        *)
(* product wraps modulo W) or without overflow ("fixed": d <= n \div d).    *)
(* Checked for every n < W: the result equals the definition and the loop   *)
(* stops within pi(sqrt(n)) + 1 iterations (the sqrt(n) bound of C15).      *)
(***************************************************************************)
EXTENDS Primes, TLC
CONSTANTS Bits, Variant
W == 2 ^ Bits

VARIABLES n, d, rem, facs, pc, steps, fn
vars == <<n, d, rem, facs, pc, steps, fn>>

NextP(x) == CHOOSE p \in (x + 1)..(2 * x + 2) : IsPrime(p) /\ \A q \in (x + 1)..(p - 1) : ~IsPrime(q)
Guard(dd, nn) == IF Variant = "asis" THEN (dd * dd) % W <= nn ELSE dd <= nn \div dd

Init == /\ n \in 4..(W - 1) /\ fn \in {"isprime", "factor"}
        /\ d = 2 /\ rem = n /\ facs = <<>> /\ pc = "loop" /\ steps = 0

(* isprime: while (d*d <= n) { if (n % d == 0) return false; d = next(); } return true *)
StepIsPrime ==
    /\ fn = "isprime" /\ pc = "loop"
    /\ steps' = steps + 1
    /\ IF ~Guard(d, n) THEN pc' = "prime" /\ UNCHANGED <<d, rem, facs>>
       ELSE IF n % d = 0 THEN pc' = "composite" /\ UNCHANGED <<d, rem, facs>>
       ELSE d' = NextP(d) /\ pc' = "loop" /\ UNCHANGED <<rem, facs>>
    /\ UNCHANGED <<n, fn>>

(* factor: while (d*d <= rem) { while (rem % d == 0) { rem /= d; push d } d = next(); } if (rem > 1) push rem *)
RECURSIVE Strip(_, _, _)
Strip(r, dd, acc) == IF r % dd = 0 THEN Strip(r \div dd, dd, Append(acc, dd)) ELSE <<r, acc>>
StepFactor ==
    /\ fn = "factor" /\ pc = "loop"
    /\ steps' = steps + 1
    /\ IF ~Guard(d, rem)
       THEN /\ facs' = IF rem > 1 THEN Append(facs, rem) ELSE facs
            /\ pc' = "done" /\ UNCHANGED <<d, rem>>
       ELSE LET s == Strip(rem, d, facs) IN
            /\ rem' = s[1] /\ facs' = s[2] /\ d' = NextP(d) /\ pc' = "loop"
    /\ UNCHANGED <<n, fn>>

Next == (StepIsPrime \/ StepFactor) /\ d < 4 * W        \* keep a runaway loop finite
Spec == Init /\ [][Next]_vars /\ WF_vars(Next)

PiSqrt(x) == Cardinality({p \in 2..Isqrt(x) : IsPrime(p)})
Correct == /\ pc = "prime" => IsPrime(n)
           /\ pc = "composite" => ~IsPrime(n)
           /\ pc = "done" => FactorOK(n, facs)
StepBound == steps <= PiSqrt(n) + 2
Terminates == <>(pc # "loop")
=============================================================================
