CONSTANTS
  K = 6
  Cases <- CasesQuick
SPECIFICATION Spec
INVARIANT FramingInvariant
CHECK_DEADLOCK FALSE
