CONSTANTS Thr = {1, 2, 3} Plans = {"a"} Scratch = "perCall" Calls = 2
SPECIFICATION Spec
INVARIANTS ResultPreserved RaceFree
CHECK_DEADLOCK FALSE
