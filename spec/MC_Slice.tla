----------------------------- MODULE MC_Slice -----------------------------
(* Small-scope model checking of Slice.tla: theorem-style ASSUMEs over the   *)
(* whole quantified domain of C04 plus a state machine over small arrays.   *)
EXTENDS Slice, TLC

CONSTANTS NMax,      \* largest array length for the theorems (10)
          Margin,    \* indices range over -n-Margin .. n+Margin (3)
          StepMax,   \* steps range over -StepMax..StepMax (5)
          NPair,     \* largest array length for same-array pair theorem (6)
          NState     \* largest array length of the state machine (3)

Dom == {q \in [n : 0..NMax, i1 : -(NMax + Margin)..(NMax + Margin),
               i2 : -(NMax + Margin)..(NMax + Margin), m : -StepMax..StepMax] :
          Abs(q.i1) <= q.n + Margin /\ Abs(q.i2) <= q.n + Margin}

Accepted == {q \in Dom : ~Rejects(q.n, q.i1, q.i2, q.m)}

Range(s) == {s[k] : k \in 1..Len(s)}

(* T1: on the accepted domain the library-shaped index list is Python's *)
T1 == \A q \in Accepted : Idx(q.n, q.i1, q.i2, q.m) = PyIdx(q.n, q.i1, q.i2, q.m)
(* T2: accepted slices stay inside the array and never repeat an element *)
T2 == \A q \in Accepted :
        LET ix == Idx(q.n, q.i1, q.i2, q.m) IN
           /\ \A k \in 1..Len(ix) : ix[k] \in 0..(q.n - 1)
           /\ Cardinality(Range(ix)) = Len(ix)
(* T3: copying a slice object denotes the same elements *)
T3 == \A q \in Accepted :
        CopyDenotes(q.n, q.i1, q.i2, q.m, "n") = <<"ret", Idx(q.n, q.i1, q.i2, q.m)>>
(* T3bad documents finding: passing the element count as the array length breaks copies *)
T3bad == \A q \in Accepted :
        CopyDenotes(q.n, q.i1, q.i2, q.m, "count") = <<"ret", Idx(q.n, q.i1, q.i2, q.m)>>
(* non-vacuity *)
T0 == Cardinality(Dom) = 39809 /\ Cardinality(Accepted) > 3000 /\ Cardinality(Dom \ Accepted) > 3000

Slices(n) == {q \in [i1 : 0..(n - 1), i2 : 0..n, m : (-StepMax..StepMax) \ {0}] :
                ~Rejects(n, q.i1, q.i2, q.m)}
Ident(n) == [k \in 1..n |-> k]
Pairs(n) == {pq \in Slices(n) \X Slices(n) :
               Count(n, pq[1].i1, pq[1].i2, pq[1].m) = Count(n, pq[2].i1, pq[2].i2, pq[2].m)}
(* T4: the implementation-shaped same-array assignment is copy-first for every aliasing pattern *)
T4 == \A n \in 1..NPair : \A pq \in Pairs(n) :
        LET d == pq[1]  s == pq[2] IN
        ImplAssignSame(Ident(n), d.i1, d.i2, d.m, s.i1, s.i2, s.m, "asis")
          = AssignSliceSameOutcome(Ident(n), d.i1, d.i2, d.m, s.i1, s.i2, s.m).arr
(* T4nv: aliasing matters — a plain forward copy differs somewhere (non-vacuity of T4) *)
T4nv == \E pq \in Pairs(4) :
        LET d == pq[1]  s == pq[2] IN
        ImplAssignSame(Ident(4), d.i1, d.i2, d.m, s.i1, s.i2, s.m, "forward")
          # AssignSliceSameOutcome(Ident(4), d.i1, d.i2, d.m, s.i1, s.i2, s.m).arr

ASSUME T0
ASSUME T1
ASSUME T2
ASSUME T3
ASSUME T4
ASSUME T4nv

(* ----------------------------- state machine ----------------------------- *)
VARIABLES arr, last
vars == <<arr, last>>

Trip(n) == [i1 : -(n + 1)..(n + 1), i2 : -(n + 1)..(n + 1), m : {-2, -1, 1, 2, 0}]

Init == /\ arr \in {Ident(n) : n \in 0..NState}
        /\ last = [op |-> "init"]

DoScalar == \E t \in Trip(Len(arr)) : \E v \in {7} :
    LET r == AssignScalarOutcome(arr, t.i1, t.i2, t.m, v) IN
    /\ arr' = r.arr
    /\ last' = [op |-> "scalar", t |-> t, o |-> r.o, vals |-> Const(IF r.o = "ret" THEN Count(Len(arr), t.i1, t.i2, t.m) ELSE 0, v)]

SrcTrip(n) == [i1 : 0..n, i2 : 0..n, m : {-1, 1, 2}]
DoSame == \E d \in Trip(Len(arr)) : \E s \in SrcTrip(Len(arr)) :
    LET r == AssignSliceSameOutcome(arr, d.i1, d.i2, d.m, s.i1, s.i2, s.m) IN
    /\ arr' = r.arr
    /\ last' = [op |-> "same", t |-> d, o |-> r.o,
                vals |-> IF r.o = "ret" THEN Read(arr, s.i1, s.i2, s.m) ELSE <<>>]

DoSeq == \E t \in Trip(Len(arr)) : \E rhs \in {<<>>, <<8>>, <<8, 9>>, <<8, 9, 8>>} :
    LET r == AssignSeqOutcome(arr, t.i1, t.i2, t.m, rhs) IN
    /\ arr' = r.arr
    /\ last' = [op |-> "seq", t |-> t, o |-> r.o, vals |-> IF r.o = "ret" THEN rhs ELSE <<>>]

Next == DoScalar \/ DoSame \/ DoSeq
Spec == Init /\ [][Next]_vars

LenStable == [][Len(arr') = Len(arr)]_vars
(* Frame: a throwing step changes nothing; a returning step changes exactly the designated
   positions to exactly the designated values (characterised independently of Write) *)
Frame == [][ LET t == last'.t  n == Len(arr) IN
             IF last'.o = "throw" THEN arr' = arr
             ELSE LET ix == Idx(n, t.i1, t.i2, t.m) IN
                  /\ Len(last'.vals) = Len(ix)
                  /\ \A k \in 1..Len(ix) : arr'[ix[k] + 1] = last'.vals[k]
                  /\ \A p \in 1..n : (p - 1) \notin Range(ix) => arr'[p] = arr[p] ]_vars
View == arr
=============================================================================
