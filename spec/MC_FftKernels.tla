--------------------------- MODULE MC_FftKernels ---------------------------
(* For every length n in Lens (each dividing N; 2n | N for Bluestein primes) the transcribed kernels equal the       *)
(* defining sum on every unit impulse and on a dense test vector, exactly, in the field F_P:                          *)
(*   Fft (plan selection + factor tree + leaf kernels) = Dft;  RealFft = Dft on real input (even n);                  *)
(*   Ifft o Fft = identity;  Irfft o Dft = identity on real input (even n).                                           *)
(* One behaviour per (n, input): the state machine only enumerates the cases so that TLC reports them as states.      *)
EXTENDS FftKernels, TLC
CONSTANTS Lens, Variant

ASSUME PowM(G, N) = 1 /\ \A q \in {d \in 2..N : N % d = 0 /\ IsPrime(d)} : PowM(G, N \div q) # 1     \* G has order exactly N
ASSUME P < 46341 /\ (P - 1) % N = 0 /\ N % 8 = 0

Impulse(n, m) == [k \in 1..n |-> IF k = m THEN One ELSE Zero]
Dense(n) == [k \in 1..n |-> Cx(Rl(3 * k + 1), Rl(k * k + 2))]          \* a fixed complex vector
DenseReal(n) == [k \in 1..n |-> Rl(2 * k * k - 5 * k + 3)]
Inputs(n) == {Impulse(n, m) : m \in 1..n} \cup {Dense(n)}
RealInputs(n) == {Impulse(n, m) : m \in 1..n} \cup {DenseReal(n)}

VARIABLES n, x, kind, ok
Init == /\ wtab = WTable
        /\ n \in Lens
        /\ kind \in {"complex", "real"}
        /\ x \in (IF kind = "complex" THEN Inputs(n) ELSE RealInputs(n))
        /\ ok = "unchecked"
Checkit ==
    /\ ok = "unchecked"
    /\ ok' = IF kind = "complex"
             THEN (IF Fft(x) = Dft(x) /\ Ifft(Fft(x)) = Force(x) THEN "pass" ELSE "fail")
             ELSE (IF Fft(x) = Dft(x)
                      /\ (n % 2 = 0 => (RealFft(x) = Dft(x) /\ Irfft(Dft(x), Variant) = Force(x)))
                   THEN "pass" ELSE "fail")
    /\ UNCHANGED <<n, x, kind, wtab>>
Spec == Init /\ [][Checkit]_<<n, x, kind, ok, wtab>>
KernelsEqualDft == ok # "fail"
=============================================================================
