--------------------------- MODULE Trace_HarmSearch ---------------------------
(* thd / snr called on precomputed integer power spectra (SinadType::Power), judged against HarmSearch.tla.               *)
(*   Harm {spec, nharm, aliased, P, F, snr_e3}                                                                          *)
(*     P[k]   power of harmonic k as reported (integer, recovered from dB), 0 where the search stopped                   *)
(*     F[k]   reported frequency of harmonic k in 1e-4 cycles/sample, -1 if not a number                                *)
(*     snr_e3 fundamental over noise power in 1e-3 units, -1 if the noise power is 0                                    *)
(* TLC evaluates AnalyzeSet (all outcomes floating point may produce at exact ties) and requires one of them to explain  *)
(* the whole record.                                                                                                    *)
EXTENDS HarmSearch, TLC, Json, IOUtils
Log == ndJsonDeserialize(IOEnv.TRACE)
VARIABLES l
Ev == Log[l]
Abs(a) == IF a < 0 THEN -a ELSE a

PowOf(st, k) == IF k <= Len(st.tones) THEN st.tones[k].pow ELSE 0
(* reported frequency = first moment / (2 n power) *)
FreqOK(st, k, f, n) ==
    IF k > Len(st.tones) THEN f = 0
    ELSE LET t == st.tones[k] IN
         IF t.pow = 0 THEN f = -1
         ELSE Abs(f * 2 * n * t.pow - 10000 * t.mom) <= 2 * n * t.pow          \* within 1e-4
SnrOK(st, r) ==
    LET nz == Noise2(st)  p0 == st.tones[1].pow
    IN IF nz = 0 THEN r = -1
       ELSE Abs(r * nz - 2000 * p0) <= 2 * nz                                  \* within 2e-3

Explains(st) ==
    /\ \A k \in 1..Ev.nharm : Ev.P[k] = PowOf(st, k) /\ FreqOK(st, k, Ev.F[k], Len(Ev.spec))
    /\ SnrOK(st, Ev.snr_e3)

Init == TLCSet(1, 0) /\ l = 1
THarm == /\ Ev.e = "Harm" /\ Ev.o = "ret"
         /\ Len(Ev.P) = Ev.nharm /\ Len(Ev.F) = Ev.nharm
         /\ (\E st \in AnalyzeSet(Ev.spec, Ev.nharm, Ev.aliased) : Explains(st)) = TRUE
Next == /\ l <= Len(Log)
        /\ THarm
        /\ l' = l + 1
Spec == Init /\ [][Next]_l
Furthest == IF l > TLCGet(1) THEN TLCSet(1, l) ELSE TRUE
Accepted == /\ PrintT(<<"FURTHEST", TLCGet(1), Len(Log)>>)
            /\ TLCGet(1) = Len(Log) + 1
=============================================================================
