---------------------------- MODULE MC_Analytic ----------------------------
(* The tuner as a counter machine: two variants of the phase accumulator.  "wrap" resets the sample counter at fs *)
(* (the repaired defect), "free" counts on.  For every f = a/b with b in BSet the phase of every sample must be   *)
(* (a*k mod b*fs)/(b*fs) turns under any framing (each step is a frame of any length).                            *)
EXTENDS Analytic, TLC
CONSTANTS Fs, BSet, Variant, KMax
VARIABLES a, b, k, cnt, ok
vars == <<a, b, k, cnt, ok>>
Init == /\ b \in BSet /\ a \in (-(b * Fs) \div 2)..((b * Fs) \div 2)
        /\ k = 0 /\ cnt = 0 /\ ok = TRUE
(* phase produced for the current sample, in 1/(b*Fs) turns *)
ImplPhase == MulMod(a, cnt, b * Fs)
Frame(len) == /\ k + len <= KMax
              /\ LET RECURSIVE Run(_, _, _)
                     Run(i, c, good) == IF i = len THEN <<c, good>>
                                        ELSE LET ph == MulMod(a, c, b * Fs)
                                                 c1 == IF Variant = "wrap" THEN (IF c + 1 < Fs THEN c + 1 ELSE 0) ELSE c + 1
                                             IN Run(i + 1, c1, good /\ ph = TunerPhase(a, b, Fs, k + i))
                     r == Run(0, cnt, TRUE)
                 IN cnt' = r[1] /\ ok' = (ok /\ r[2]) /\ k' = k + len
              /\ UNCHANGED <<a, b>>
Next == \E len \in 1..KMax : Frame(len)
Spec == Init /\ [][Next]_vars
PhaseExact == ok
=============================================================================
