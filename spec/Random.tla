------------------------------- MODULE Random -------------------------------
(***************************************************************************)
(* Random streams (C19, per-thread part of C09).  Each thread owns one      *)
(* generator; its abstract state is (seed, log of calls since seeding).    *)
(* A fresh thread starts in a default state of its own (seed -1 here).  Determinism: the   *)
(* values returned by a call are a function of (seed, calls since the       *)
(* seed) only — not of what happened before the seed, nor of other threads. *)
(* canon remembers the first observation for every (seed, call log).       *)
(***************************************************************************)
EXTENDS Integers, Sequences, FiniteSets

Has(f, x) == x \in DOMAIN f
Put(f, x, v) == [y \in (DOMAIN f) \cup {x} |-> IF y = x THEN v ELSE f[y]]
Fresh == [seed |-> -1, calls |-> <<>>]      \* the default state of a new thread: no listed property equates it with any seed
(* thread t seeds: forget the call log *)
SeedStep(gen, t, s) == Put(gen, t, [seed |-> s, calls |-> <<>>])
(* thread t draws with `call` and observes `vals`; returns <<ok, gen', canon'>> *)
DrawStep(gen, canon, t, call, vals) ==
    LET g == IF Has(gen, t) THEN gen[t] ELSE Fresh
        key == <<g.seed, Append(g.calls, call)>>
        gen1 == Put(gen, t, [seed |-> g.seed, calls |-> Append(g.calls, call)])
    IN IF Has(canon, key) THEN <<canon[key] = vals, gen1, canon>>
       ELSE <<TRUE, gen1, Put(canon, key, vals)>>
=============================================================================
