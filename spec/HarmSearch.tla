----------------------------- MODULE HarmSearch -----------------------------
(***************************************************************************)
(* The harmonic analysis behind snr / thd / sinad (lib/snr.cpp) on a power *)
(* spectrum of non-negative integers, transcribed operator by operator:    *)
(*                                                                         *)
(*   LocatePeak    climb left while the left neighbour is higher, then     *)
(*                 right while the right neighbour is higher               *)
(*   Left/RightDescent   the strictly decreasing flanks of the peak        *)
(*   Tone          lobe [l, r], its power (sum) and first moment           *)
(*   Analyze       fundamental at the largest bin; harmonic i+1 searched   *)
(*                 from round((i+1) * centroid), optionally folded back    *)
(*                 into the first Nyquist zone, stopping beyond it; every  *)
(*                 lobe found is erased before the next search; at the end *)
(*                 the lobes are filled with the median of what is left    *)
(*                 and the noise power is the sum                          *)
(*                                                                         *)
(* Indices are the library's (0-based): At(s, i) is bin i.  Frequencies    *)
(* are kept as fractions (first moment over power); where the library      *)
(* rounds a fraction that is exactly half-way, or compares one that is     *)
(* exactly 1, floating point may go either way and the model allows both.  *)
(***************************************************************************)
EXTENDS Integers, Sequences, FiniteSets, SequencesExt

At(s, i) == s[i + 1]
N(s) == Len(s)
Max2(a, b) == IF a > b THEN a ELSE b
Min2(a, b) == IF a < b THEN a ELSE b

RECURSIVE ClimbL(_, _)
ClimbL(s, p) == IF p > 0 /\ At(s, p - 1) > At(s, p) THEN ClimbL(s, p - 1) ELSE p
RECURSIVE ClimbR(_, _)
ClimbR(s, p) == IF p < N(s) - 1 /\ At(s, p) < At(s, p + 1) THEN ClimbR(s, p + 1) ELSE p
LocatePeak(s, idx) == ClimbR(s, ClimbL(s, idx))

RECURSIVE DescL(_, _)
DescL(s, p) == IF p > 0 /\ At(s, p - 1) < At(s, p) THEN DescL(s, p - 1) ELSE p
RECURSIVE DescR(_, _)
DescR(s, p) == IF p < N(s) - 1 /\ At(s, p) > At(s, p + 1) THEN DescR(s, p + 1) ELSE p

SumRange(s, l, r) == FoldLeft(LAMBDA acc, i : acc + At(s, i), 0, [j \in 1..(r - l + 1) |-> l + j - 1])
MomRange(s, l, r) == FoldLeft(LAMBDA acc, i : acc + i * At(s, i), 0, [j \in 1..(r - l + 1) |-> l + j - 1])

(* the tone found when the search starts at bin `start` (already clipped to the array) *)
Tone(s, start) ==
    LET pk == LocatePeak(s, start)
        l == DescL(s, pk)
        r == DescR(s, pk)
    IN [pk |-> pk, l |-> l, r |-> r, pow |-> SumRange(s, l, r), mom |-> MomRange(s, l, r)]

Erase(s, l, r) == [i \in 1..Len(s) |-> IF i - 1 >= l /\ i - 1 <= r THEN 0 ELSE s[i]]

ArgMax(s) == CHOOSE i \in 0..(N(s) - 1) :      \* the first of the largest bins
                 /\ \A q \in 0..(N(s) - 1) : At(s, q) <= At(s, i)
                 /\ \A p \in 0..(i - 1) : At(s, p) < At(s, i)

(* round(num / den) for num >= 0, den > 0: the set of results floating point may produce (two at an exact tie) *)
RoundSet(num, den) == IF (2 * num) % (2 * den) = den THEN {num \div den, num \div den + 1}
                      ELSE {(2 * num + den) \div (2 * den)}
Clip(i, n) == Max2(0, Min2(i, n - 1))

(* search start bins of harmonic number h (2, 3, ...) given the fundamental's moment and power; {} = stop here.
   f = h * mom / (n * pow) in units of the Nyquist frequency; start = round(f * n) = round(h * mom / pow) *)
Starts(h, mom, pow, n, aliased) ==
    IF pow = 0 THEN {0}                                  \* centroid undefined (NaN): the library starts at bin 0
    ELSE LET a == h * mom                                \* f = a / b
             b == n * pow
             r == a % (2 * b)
             num == IF aliased THEN (IF r > b THEN 2 * b - r ELSE r) ELSE a      \* folded into [0, 1]
             cont == {Clip(i, n) : i \in RoundSet(num, pow)}
         IN IF num > b THEN {} ELSE IF num = b THEN cont \cup {-1} ELSE cont     \* -1: "stop" is possible too (f = 1 exactly)

(* analysis state: spectrum with the found lobes erased, tones found so far, done flag *)
AddTone(st, start) ==
    LET t == Tone(st.s, start) IN [s |-> Erase(st.s, t.l, t.r), tones |-> Append(st.tones, t), done |-> FALSE]
StepSet(st, h, n, aliased) ==
    IF st.done THEN {st}
    ELSE LET f == st.tones[1]
             ss == Starts(h, f.mom, f.pow, n, aliased)
         IN IF ss = {} THEN {[st EXCEPT !.done = TRUE]}
            ELSE {IF b = -1 THEN [st EXCEPT !.done = TRUE] ELSE AddTone(st, b) : b \in ss}

First(s) == AddTone([s |-> s, tones |-> <<>>, done |-> FALSE], ArgMax(s))
(* all analysis outcomes for nharm harmonics (fundamental included) *)
AnalyzeSet(s, nharm, aliased) ==
    FoldLeft(LAMBDA S, h : UNION {StepSet(st, h, N(s), aliased) : st \in S}, {First(s)}, [j \in 1..(nharm - 1) |-> j + 1])

(* twice the median of the positive entries that are left (0 if none), and twice the noise power after filling the lobes *)
Positive(s) == {i \in 0..(N(s) - 1) : At(s, i) > 0}
SortedPos(s) == SortSeq(FoldLeft(LAMBDA acc, i : IF At(s, i) > 0 THEN Append(acc, At(s, i)) ELSE acc, <<>>, [j \in 1..N(s) |-> j - 1]),
                        LAMBDA a, b : a < b)
Median2(s) == LET q == SortedPos(s)  m == Len(q)
              IN IF m = 0 THEN 0 ELSE IF m % 2 = 1 THEN 2 * q[(m \div 2) + 1] ELSE q[m \div 2] + q[(m \div 2) + 1]
InLobe(st, i) == \E k \in 1..Len(st.tones) : i >= st.tones[k].l /\ i <= st.tones[k].r
Noise2(st) == LET fl == Median2(st.s)
              IN FoldLeft(LAMBDA acc, i : acc + (IF InLobe(st, i) THEN fl ELSE 2 * At(st.s, i)), 0, [j \in 1..N(st.s) |-> j - 1])
=============================================================================
