---------------------------- MODULE MC_PlanCache ----------------------------
(* Universal model: any thread may access any key of any kind at any time.  *)
EXTENDS PlanCache, TLC
CONSTANTS Cap, Keys, Threads, MaxHist

VARIABLES cache, hist, impl
vars == <<cache, hist, impl>>

Init == /\ cache = [t \in Threads |-> [k \in Kinds |-> <<>>]]
        /\ hist = [t \in Threads |-> [k \in Kinds |-> <<>>]]
        /\ impl = [t \in Threads |-> [k \in Kinds |-> [lst |-> <<>>, map |-> {}]]]

Access(t, k, n) ==
    /\ cache' = [cache EXCEPT ![t][k] = Touch(@, n, Cap)]
    /\ hist' = [hist EXCEPT ![t][k] = Append(@, n)]
    /\ impl' = [impl EXCEPT ![t][k] = ImplAccess(@.lst, @.map, n, Cap)]

Next == \E t \in Threads, k \in Kinds, n \in Keys : Access(t, k, n)
Spec == Init /\ [][Next]_vars

Bounded == \A t \in Threads : Len(hist[t]["C"]) + Len(hist[t]["R"]) <= MaxHist

(* C10: at most Cap plans, no duplicates, exactly the most recently used ones in recency order *)
Inv == \A t \in Threads, k \in Kinds :
          /\ Len(cache[t][k]) <= Cap
          /\ NoDup(cache[t][k])
          /\ cache[t][k] = MRU(hist[t][k], Cap)
(* the list+map implementation refines the definitional cache *)
Refines == \A t \in Threads, k \in Kinds :
          /\ impl[t][k].lst = cache[t][k]
          /\ impl[t][k].map = {cache[t][k][i] : i \in 1..Len(cache[t][k])}
(* C09/C10: an access by one thread never changes another thread's caches, nor the other kind *)
Confined == [][\E t \in Threads, k \in Kinds :
                 \A u \in Threads, j \in Kinds : (u # t \/ j # k) => cache'[u][j] = cache[u][j]]_vars
=============================================================================
