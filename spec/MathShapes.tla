----------------------------- MODULE MathShapes -----------------------------
(***************************************************************************)
(* Shapes, index maps and integer-lattice values of the math toolbox (C17) *)
(***************************************************************************)
EXTENDS Integers, Sequences, FiniteSets

Abs(x) == IF x < 0 THEN -x ELSE x
CeilDiv(a, b) == (a + b - 1) \div b
(* arange(start, stop, step), step # 0: start + k*step for every k >= 0 strictly before stop *)
ArangeCount(start, stop, step) ==
    IF step > 0 THEN (IF stop > start THEN CeilDiv(stop - start, step) ELSE 0)
                ELSE (IF stop < start THEN CeilDiv(start - stop, -step) ELSE 0)
ArangeInt(start, stop, step) == [k \in 1..ArangeCount(start, stop, step) |-> start + (k - 1) * step]

Repelem(x, n) == [k \in 1..(Len(x) * n) |-> x[(k - 1) \div n + 1]]
Flip(x) == [k \in 1..Len(x) |-> x[Len(x) - k + 1]]
Upsample(x, n, ph) == [k \in 1..(Len(x) * n) |-> IF (k - 1) % n = ph THEN x[(k - 1) \div n + 1] ELSE 0]
DownCount(len, n, ph) == IF len > ph THEN (len - ph - 1) \div n + 1 ELSE 0
Downsample(x, n, ph) == [k \in 1..DownCount(Len(x), n, ph) |-> x[ph + (k - 1) * n + 1]]
Zeropad(x, n) == [k \in 1..n |-> IF k <= Len(x) THEN x[k] ELSE 0]
Delayseq(x, d) == [k \in 1..Len(x) |-> IF k - d >= 1 /\ k - d <= Len(x) THEN x[k - d] ELSE 0]

SumN(F(_), n) == LET RECURSIVE S(_)
                     S(k) == IF k > n THEN 0 ELSE F(k) + S(k + 1)
                 IN S(1)
Sum(x) == SumN(LAMBDA k : x[k], Len(x))
CumsumF(x) == [k \in 1..Len(x) |-> SumN(LAMBDA j : x[j], k)]
CumsumR(x) == [k \in 1..Len(x) |-> SumN(LAMBDA j : x[Len(x) - j + 1], Len(x) - k + 1)]
Dot(x, y) == SumN(LAMBDA k : x[k] * y[k], Len(x))
MaxOf(x) == CHOOSE v \in {x[k] : k \in 1..Len(x)} : \A k \in 1..Len(x) : x[k] <= v
MinOf(x) == CHOOSE v \in {x[k] : k \in 1..Len(x)} : \A k \in 1..Len(x) : x[k] >= v

(* angle on the lattice: argument of re + i*im for re, im in {-1,0,1} as a multiple of pi/4;
   imneg: the imaginary part is a negative zero (only matters on the negative real axis) *)
AngleOct(re, im, imneg) ==
    CASE re > 0 /\ im = 0 -> 0
      [] re > 0 /\ im > 0 -> 1
      [] re = 0 /\ im > 0 -> 2
      [] re < 0 /\ im > 0 -> 3
      [] re < 0 /\ im = 0 -> (IF imneg THEN -4 ELSE 4)
      [] re < 0 /\ im < 0 -> -3
      [] re = 0 /\ im < 0 -> -2
      [] re > 0 /\ im < 0 -> -1
      [] re = 0 /\ im = 0 -> 0
=============================================================================
