---------------------------- MODULE Trace_Stream ----------------------------
(***************************************************************************)
(* Trace validation of stateful block processors (C06, C07, C08, C16).     *)
(*                                                                         *)
(*  New     {id, proc, mode, ...params}   a processor instance is built    *)
(*  Process {id, ...}                      one call of process()           *)
(*                                                                         *)
(* mode = "exact":  integer data; the event carries the frame and the      *)
(*   output; TLC recomputes every output sample from the *definition*      *)
(*   applied to the whole input so far (so framing cannot matter and the   *)
(*   numbers themselves are pinned: C07/C08/C16).                          *)
(* mode = "prefix": arbitrary data; the driver compared the output with    *)
(*   the one-call whole-stream output of a second instance and logs the    *)
(*   index of the first differing sample (-1 = none); TLC checks that, the *)
(*   output-count arithmetic and the granularity rejection rule.           *)
(* Instances are independent: each id has its own model state.             *)
(***************************************************************************)
EXTENDS Multirate, Order, TLC, Json, IOUtils

Log == ndJsonDeserialize(IOEnv.TRACE)

VARIABLES inst, l
vars == <<inst, l>>
Ev == Log[l]

Init == TLCSet(1, 0) /\ inst = <<>> /\ l = 1

Has(f, x) == x \in DOMAIN f
Put(f, x, v) == [y \in (DOMAIN f) \cup {x} |-> IF y = x THEN v ELSE f[y]]

(* reduced ratio of a record with L and M *)
RL(p) == p.L \div Gcd(p.L, p.M)
RM(p) == p.M \div Gcd(p.L, p.M)
IsMulti(p) == p.proc \in {"decim", "interp", "rate", "resampler"}
Bypass(p) == p.proc = "resampler" /\ RL(p) = 1 /\ RM(p) = 1    \* only the wrapper passes data through; the classes filter at 1:1 too

Gran(p) == IF IsMulti(p) THEN RM(p) ELSE 1
Produced(p, n) ==
    CASE p.proc \in {"fftfir", "fftfirc"} -> FftProduced(p.nh, n)
      [] IsMulti(p) -> OutLen(RL(p), RM(p), n)
      [] OTHER -> n

TNew == /\ Ev.e = "New" /\ ~Has(inst, Ev.id)
        /\ inst' = Put(inst, Ev.id, [p |-> Ev, xr |-> <<>>, xi |-> <<>>, nin |-> 0, prod |-> 0, phi |-> (IF "phi_hint" \in DOMAIN Ev THEN Ev.phi_hint ELSE -1)])

(* expected S*output number j (0-based) in exact mode; real part / imaginary part *)
ExpRe(p, xr, xi, j, phi) ==
    CASE p.proc \in {"fir", "fftfir"} -> FirDef(p.h, xr, j)
      [] p.proc \in {"firc", "fftfirc"} -> FirDefRe(p.hr, p.hi, xr, xi, j)
      [] p.proc = "ma" -> MaDef2(p.n, xr, j)
      [] p.proc = "mac" -> MaDef2(p.n, xr, j)
      [] p.proc \in {"delay", "delayc"} -> X(xr, j - p.d)
      [] p.proc = "median" -> MedianStream2(p.n, p.init, xr, j)
      [] IsMulti(p) -> IF Bypass(p) THEN p.S * X(xr, j) ELSE ChainAt(RL(p), RM(p), p.h, xr, j, phi)
ExpIm(p, xr, xi, j) ==
    CASE p.proc \in {"firc", "fftfirc"} -> FirDefIm(p.hr, p.hi, xr, xi, j)
      [] p.proc = "mac" -> MaDef2(p.n, xi, j)
      [] p.proc = "delayc" -> X(xi, j - p.d)
      [] OTHER -> 0
IsCplx(p) == p.proc \in {"firc", "fftfirc", "mac", "delayc"}

TProcessExact ==
    /\ Ev.e = "Process" /\ Has(inst, Ev.id) /\ inst[Ev.id].p.mode = "exact"
    /\ LET s == inst[Ev.id]
           p == s.p
           g == Gran(p)
           flen == Len(Ev.fr)
       IN IF flen % g # 0
          THEN /\ Ev.o = "throw"                     \* non-multiple of the granule is rejected, state untouched
               /\ inst' = inst
          ELSE LET xr == s.xr \o Ev.fr
                   xi == IF IsCplx(p) THEN s.xi \o Ev.fi ELSE <<>>
                   k == Produced(p, Len(xr))
                   cnt == k - s.prod
                   silent == (\A i \in 1..Len(xr) : xr[i] = 0) /\ (\A i \in 1..Len(xi) : xi[i] = 0)
               IN /\ Ev.o = "ret"
                  /\ Len(Ev.yr) = cnt
                  /\ Ev.exact = TRUE                 \* driver: every output was exactly representable on the grid
                  \* nothing but zeros so far: every phase predicts zeros, so the phase stays open instead of forking the
                  \* behaviour once per candidate (147/160 has tens of thousands of them)
                  /\ \E f \in (IF IsMulti(p) /\ ~Bypass(p) /\ s.phi = -1
                               THEN (IF silent THEN {-1} ELSE PhaseCandidates(RL(p), RM(p), p.h)) ELSE {s.phi}) :
                        \* "= TRUE": evaluated as one expression (TLC would otherwise recurse per element)
                        /\ (\A j \in 1..cnt : Ev.yr[j] = ExpRe(p, xr, xi, s.prod + j - 1, f)) = TRUE
                        /\ (IsCplx(p) => \A j \in 1..cnt : Ev.yi[j] = ExpIm(p, xr, xi, s.prod + j - 1)) = TRUE
                        /\ inst' = [inst EXCEPT ![Ev.id] = [@ EXCEPT !.xr = xr, !.xi = xi, !.prod = k, !.phi = f,
                                                                     !.nin = Len(xr)]]

TProcessPrefix ==
    /\ Ev.e = "Process" /\ Has(inst, Ev.id) /\ inst[Ev.id].p.mode = "prefix"
    /\ LET s == inst[Ev.id]
           p == s.p
           g == IF p.proc = "other" THEN p.gran ELSE Gran(p)
       IN IF Ev.flen % g # 0
          THEN Ev.o = "throw" /\ inst' = inst
          ELSE LET n1 == s.nin + Ev.flen
                   k == IF p.proc = "other"
                        THEN (IF p.num = 0 THEN (n1 \div p.den) * p.den      \* block structured (FftFilter)
                                           ELSE (n1 * p.num) \div p.den)
                        ELSE Produced(p, n1)
               IN /\ Ev.o = "ret"
                  /\ Ev.olen = k - s.prod            \* output count per call
                  /\ Ev.firstdiff = -1               \* identical to the whole-stream output: no gap, repeat, transient
                  /\ inst' = [inst EXCEPT ![Ev.id] = [@ EXCEPT !.nin = n1, !.prod = k]]

(* ---- stateless observations (C07, C08) ---- *)
(* xcorr(a,b): n1+n2-1 lags from -(n2-1) to n1-1, sum_n a[n+lag] conj(b[n]); FFT based, so the driver
   logs the rounded values and whether every value was within the FFT rounding bound of an integer *)
TXcorr ==
    /\ Ev.e = "Xcorr"
    /\ LET n1 == Len(Ev.ar)  n2 == Len(Ev.br) IN
       /\ Len(Ev.yr) = n1 + n2 - 1 /\ Len(Ev.yi) = n1 + n2 - 1
       /\ Ev.exact = TRUE
       /\ (\A j \in 1..(n1 + n2 - 1) :
             /\ Ev.yr[j] = XcorrRe(Ev.ar, Ev.ai, Ev.br, Ev.bi, j - 1 - (n2 - 1))
             /\ Ev.yi[j] = XcorrIm(Ev.ar, Ev.ai, Ev.br, Ev.bi, j - 1 - (n2 - 1))) = TRUE
    /\ inst' = inst

(* FftFilter emits the same sequence as FirFilter, in multiples of its block size *)
TEquiv ==
    /\ Ev.e = "Equiv"
    /\ Ev.block = BlockLen(Ev.nh)
    /\ Ev.olen = FftProduced(Ev.nh, Ev.n)
    /\ Ev.firstdiff = -1
    /\ inst' = inst

(* residual against an extended-precision evaluation of the defining sum, in 1e-3 units of the bound *)
TResid ==
    /\ Ev.e = "Resid"
    /\ Ev.err_milli <= 1000
    /\ inst' = inst

(* length rules of the multirate helpers and of resample() *)
TSizes ==
    /\ Ev.e = "Sizes"
    /\ Ev.next = NextSize(Ev.size, Ev.L, Ev.M)
    /\ Ev.prev = PrevSize(Ev.size, Ev.L, Ev.M)
    /\ inst' = inst
TResample ==
    /\ Ev.e = "Resample"
    /\ Ev.o = "ret"
    /\ Ev.outlen = (IF Ev.p = Ev.q THEN Ev.len ELSE ResampleLen(Ev.len, Ev.p, Ev.q))
    /\ (Ev.p = Ev.q) => Ev.same = TRUE              \* resample(x, p, p) returns x itself
    /\ Ev.finite = TRUE
    /\ Ev.hist = TRUE                               \* a function of its arguments, not of earlier calls
    /\ (Ev.probe = TRUE) => (Ev.shift >= -1 /\ Ev.shift <= 1)      \* aligned to within one output sample
    /\ inst' = inst

TDrop == Ev.e = "Drop" /\ Has(inst, Ev.id) /\ inst' = [i \in (DOMAIN inst) \ {Ev.id} |-> inst[i]]

Next == /\ l <= Len(Log)
        /\ (TNew \/ TProcessExact \/ TProcessPrefix \/ TDrop \/ TXcorr \/ TEquiv \/ TResid \/ TSizes \/ TResample)
        /\ l' = l + 1
Spec == Init /\ [][Next]_vars

Furthest == IF l > TLCGet(1) THEN TLCSet(1, l) ELSE TRUE
Accepted == /\ PrintT(<<"FURTHEST", TLCGet(1), Len(Log)>>)
            /\ TLCGet(1) = Len(Log) + 1
=============================================================================
