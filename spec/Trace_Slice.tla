---------------------------- MODULE Trace_Slice ----------------------------
(* Trace validation of the slice driver's observations against Slice.tla.   *)
(* One event per line of IOEnv.TRACE; every event is one step; the state    *)
(* `arr` is the abstract content of the array under test.                   *)
EXTENDS Slice, TLC, Json, IOUtils

Log == ndJsonDeserialize(IOEnv.TRACE)

VARIABLES arr, l
vars == <<arr, l>>

Ident(n, base) == [k \in 1..n |-> base + k]
Ev == Log[l]

Init == TLCSet(1, 0) /\ arr = <<>> /\ l = 1

(* Read: every way of reading the slice agreed (via = "all") or this is one variant;
   the array itself must be untouched and no guard word behind it overwritten *)
TRead ==
    /\ Ev.e = "Read"
    /\ LET a == Ident(Ev.n, 0)
           r == ReadOutcome(a, Ev.i1, Ev.i2, Ev.m)
       IN /\ Ev.o = r.o
          /\ Ev.vals = r.vals
          /\ Ev.arr = a
          /\ Ev.guard = "ok"
    /\ arr' = arr

TAssign ==
    /\ Ev.e = "Assign"
    /\ LET a == IF Ev.fresh THEN Ident(Ev.n, 0) ELSE arr
           r == CASE Ev.kind = "scalar" -> AssignScalarOutcome(a, Ev.i1, Ev.i2, Ev.m, Ev.rhs[1])
                  [] Ev.kind \in {"array", "list"} -> AssignSeqOutcome(a, Ev.i1, Ev.i2, Ev.m, Ev.rhs)
                  [] Ev.kind \in {"same", "same_c"} ->
                        AssignSliceSameOutcome(a, Ev.i1, Ev.i2, Ev.m, Ev.s1, Ev.s2, Ev.sm)
                  [] Ev.kind = "other" ->
                        AssignSliceOtherOutcome(a, Ev.i1, Ev.i2, Ev.m, Ident(Ev.sn, 100), Ev.s1, Ev.s2, Ev.sm)
           \* An empty array cannot be sliced (statement: "throws (empty array ...)"), so assigning an
           \* empty *array* to an empty slice may either do nothing or throw: deliberately left free.
           free == Ev.kind = "array" /\ Ev.rhs = <<>> /\ ~Rejects(Len(a), Ev.i1, Ev.i2, Ev.m)
                     /\ Count(Len(a), Ev.i1, Ev.i2, Ev.m) = 0
       IN /\ Len(a) = Ev.n
          /\ (Ev.o = r.o \/ (free /\ Ev.o = "throw"))
          /\ Ev.arr = r.arr
          /\ Ev.guard = "ok"
          /\ arr' = r.arr

(* Large arrays with identity content: closed-form checks, nothing materialised *)
TBig ==
    /\ Ev.e = "Big"
    /\ LET n == Ev.n
           rej == Rejects(n, Ev.i1, Ev.i2, Ev.m)
           cnt == IF rej THEN 0 ELSE Count(n, Ev.i1, Ev.i2, Ev.m)
           r1 == Resolve(n, Ev.i1)
       IN /\ Ev.o = (IF rej THEN "throw" ELSE "ret")
          /\ Ev.o2 = Ev.o
          /\ Ev.cnt = cnt
          /\ \A k \in 1..Len(Ev.pos) : Ev.val[k] = r1 + Ev.pos[k] * Ev.m + 1
          /\ Ev.changed = cnt
          /\ cnt > 0 => /\ Ev.firstc = (IF Ev.m > 0 THEN r1 ELSE r1 + (cnt - 1) * Ev.m)
                        /\ Ev.lastc = (IF Ev.m > 0 THEN r1 + (cnt - 1) * Ev.m ELSE r1)
          /\ Ev.guard = "ok"
    /\ arr' = arr

(* "Crash" (driver died inside a library call, sanitizer report) has no action. *)
Next == /\ l <= Len(Log)
        /\ (TRead \/ TAssign \/ TBig)
        /\ l' = l + 1

Spec == Init /\ [][Next]_vars

Furthest == IF l > TLCGet(1) THEN TLCSet(1, l) ELSE TRUE
Accepted == /\ PrintT(<<"FURTHEST", TLCGet(1), Len(Log)>>)
            /\ TLCGet(1) = Len(Log) + 1
=============================================================================
