----------------------------- MODULE Trace_Util -----------------------------
(* Recorded calls of from_file / to_complex / from_complex / findpeaks / predicates against Codec and Peaks. *)
EXTENDS Codec, Peaks, TLC, Json, IOUtils
Log == ndJsonDeserialize(IOEnv.TRACE)
VARIABLE l
Ev == Log[l]
Init == TLCSet(1, 0) /\ l = 1

TDecode == /\ Ev.e = "Decode"
           /\ IF Ev.missing THEN Ev.o = "throw"
              ELSE /\ Ev.o = "ret" /\ Ev.integral = TRUE
                   /\ LET want == Decode(Ev.bytes, Ev.t, Ev.ord, Ev.offset, Ev.count)
                      IN /\ Len(Ev.hi) = Len(want) /\ Len(Ev.lo) = Len(want)
                         /\ \A k \in 1..Len(want) : want[k] = <<Ev.hi[k], Ev.lo[k]>>
TInterleave == /\ Ev.e = "Interleave" /\ Ev.real_ok = TRUE
               /\ IF ToComplexThrows(Ev.v) THEN Ev.o = "throw"
                  ELSE /\ Ev.o = "ret"
                       /\ LET z == ToComplex(Ev.v)
                          IN /\ Len(Ev.re) = Len(z) /\ Len(Ev.im) = Len(z)
                             /\ \A k \in 1..Len(z) : z[k] = <<Ev.re[k], Ev.im[k]>>
                             /\ Ev.back = FromComplex(z) /\ Ev.back = Ev.v
TPeaks == /\ Ev.e = "Peaks" /\ Ev.o = "ret" /\ Ev.x_same = TRUE
          /\ LET want == FindPeaks(Ev.x, Ev.k)
             IN /\ Len(Ev.locs) = Len(want) /\ Len(Ev.pks) = Len(want) /\ Len(Ev.wds) = Len(want)
                /\ \A i \in 1..Len(want) : want[i] = <<Ev.locs[i], Ev.pks[i], Ev.wds[i]>>
TPreds == /\ Ev.e = "Preds"
          /\ Ev.sign = [i \in 1..Len(Ev.x) |-> Sign(Ev.x[i])]
          /\ Ev.asc = IsSortedAsc(Ev.x) /\ Ev.desc = IsSortedDesc(Ev.x)
          /\ Ev.nan_r = (Ev.special = 1) /\ Ev.nan_c = (Ev.special = 1)
          /\ Ev.inf_r = (Ev.special \in {2, 3}) /\ Ev.inf_c = (Ev.special \in {2, 3})
Next == /\ l <= Len(Log)
        /\ (TDecode \/ TInterleave \/ TPeaks \/ TPreds) = TRUE
        /\ l' = l + 1
Spec == Init /\ [][Next]_l
Furthest == IF l > TLCGet(1) THEN TLCSet(1, l) ELSE TRUE
Accepted == /\ PrintT(<<"FURTHEST", TLCGet(1), Len(Log)>>)
            /\ TLCGet(1) = Len(Log) + 1
=============================================================================
