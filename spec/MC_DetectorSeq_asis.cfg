CONSTANTS Lp = 3 F = 4 NFrames = 3 Variant = "asis"
SPECIFICATION Spec
INVARIANTS Aligned
CHECK_DEADLOCK FALSE
