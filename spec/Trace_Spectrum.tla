--------------------------- MODULE Trace_Spectrum ---------------------------
EXTENDS Spectrum, TLC, Json, IOUtils
Log == ndJsonDeserialize(IOEnv.TRACE)
VARIABLE l
Ev == Log[l]
Init == TLCSet(1, 0) /\ l = 1

(* welch on a pure tone at p/(8 nfft): shapes, labels, non-negativity, and the maximum sits at the nearest label *)
TTone == /\ Ev.e = "Tone" /\ Ev.o = "ret"
         /\ Ev.plen = OutLen(Ev.cplx, Ev.nfft)
         /\ LabelsOK(Ev.cplx, Ev.nfft, Ev.f)
         /\ Ev.f_exact = TRUE /\ Ev.nonneg = TRUE
         /\ Ev.peak_label = PeakLabel(Ev.cplx, Ev.nfft, Ev.p)
(* power conservation (density) and peak value (power scaling), against long-double sums over the input *)
TResid == Ev.e = "Resid" /\ Ev.err_milli <= 1000
(* mscohere in [0,1]; equal to 1 at every frequency for scaled copies *)
TCohere == /\ Ev.e = "Cohere" /\ Ev.o = "ret"
           /\ Ev.clen = Ev.nfft \div 2 + 1
           /\ Ev.inrange = TRUE
           /\ (Ev.kind = "scaled") => Ev.dev_milli <= 1000
Next == /\ l <= Len(Log)
        /\ (TTone \/ TResid \/ TCohere) = TRUE
        /\ l' = l + 1
Spec == Init /\ [][Next]_l
Furthest == IF l > TLCGet(1) THEN TLCSet(1, l) ELSE TRUE
Accepted == /\ PrintT(<<"FURTHEST", TLCGet(1), Len(Log)>>)
            /\ TLCGet(1) = Len(Log) + 1
=============================================================================
