------------------------------- MODULE Primes -------------------------------
(***************************************************************************)
(* Prime and power-of-two helpers (C15).                                   *)
(* Definitional layer: IsPrime, FactorOK, NextPow2, IsPow2, plus 32-bit    *)
(* unsigned arithmetic on 16-bit limbs <<hi, lo>> for arguments that do    *)
(* not fit TLC's 32-bit signed integers.                                   *)
(* Algorithmic layer (MC_Primes): the trial-division loop of isprime /     *)
(* factor as a state machine over a word of W values, "asis" (d*d computed *)
(* in the word, wraps) and "fixed" (overflow-free comparison).             *)
(***************************************************************************)
EXTENDS Integers, Sequences, FiniteSets

Isqrt(n) == LET RECURSIVE R(_, _)     \* floor(sqrt(n)) by bisection, n < 2^31
                R(lo, hi) == IF lo >= hi THEN lo
                             ELSE LET mid == (lo + hi + 1) \div 2
                                  IN IF mid <= n \div mid THEN R(mid, hi) ELSE R(lo, mid - 1)
            IN IF n < 2 THEN n ELSE R(1, IF n > 46340 THEN 46340 ELSE n)

(* primality by definition (no table: TLC re-evaluates parameterless definitions on every use) *)
IsPrime(n) == n >= 2 /\ \A d \in 2..Isqrt(n) : n % d # 0
IsPrimeS(n) == IsPrime(n)

Prod(s) == LET RECURSIVE P(_)
               P(k) == IF k > Len(s) THEN 1 ELSE s[k] * P(k + 1)
           IN P(1)
NonDecr(f) == \A i \in 1..(Len(f) - 1) : f[i] <= f[i + 1]
(* factor(n) for 2 <= n < 2^31: sorted prime factors with product n *)
FactorOK(n, f) == Len(f) >= 1 /\ NonDecr(f) /\ Prod(f) = n /\ \A i \in 1..Len(f) : IsPrime(f[i])

RECURSIVE NextPow2(_)
NextPow2(m) == IF m <= 1 THEN 0 ELSE 1 + NextPow2((m \div 2) + (m % 2))     \* ceil(log2 m); 0 for m in {0,1}
IsPow2(m) == m >= 1 /\ NextPow2(m) <= 30 /\ 2 ^ NextPow2(m) = m

(* ---------------- 32-bit unsigned values as <<hi, lo>> 16-bit limbs ---------------- *)
B16 == 65536
(* (hi*65536 + lo) mod d and div d for 2 <= d <= 65536, bit by bit (no intermediate above 2^18) *)
DivModL(hi, lo, d) ==
    LET RECURSIVE Long(_, _, _)          \* schoolbook over the 16 bits of lo after dividing hi
        Long(rem, q, bit) == IF bit < 0 THEN <<q, rem>>
                             ELSE LET r2 == 2 * rem + ((lo \div (2 ^ bit)) % 2)
                                  IN IF r2 >= d THEN Long(r2 - d, 2 * q + 1, bit - 1) ELSE Long(r2, 2 * q, bit - 1)
        res == Long(hi % d, 0, 15)
    IN [qhi |-> hi \div d, qlo |-> res[1], rem |-> res[2]]
(* remainder of hi:lo modulo p; direct when (p-1)^2 fits 31 bits, bit-serial otherwise *)
ModL(hi, lo, p) == IF p <= 46340 THEN ((((hi % p) * (B16 % p)) % p) + (lo % p)) % p ELSE DivModL(hi, lo, p).rem
(* tab: the primes below 2^16 (computed once by the trace specification and carried as a variable) *)
IsPrimeL(hi, lo, tab) == IF hi < 32768 THEN IsPrime(hi * B16 + lo)
                         ELSE \A p \in tab : ModL(hi, lo, p) # 0
AddL(hi, lo, k) == <<hi + (lo + k) \div B16, (lo + k) % B16>>               \* k < 2^16
(* factor list as limb pairs fh[i]:fl[i]; all but the last factor are < 2^16 *)
FactorOKL(hi, lo, fh, fl, tab) ==
    LET k == Len(fh)
        RECURSIVE Peel(_, _, _)
        Peel(h, l, i) == IF i = k THEN h = fh[k] /\ l = fl[k]
                         ELSE /\ fh[i] = 0 /\ fl[i] >= 2
                              /\ LET r == DivModL(h, l, fl[i]) IN r.rem = 0 /\ Peel(r.qhi, r.qlo, i + 1)
    IN /\ k >= 1 /\ Len(fl) = k
       /\ \A i \in 1..(k - 1) : fh[i] < fh[i + 1] \/ (fh[i] = fh[i + 1] /\ fl[i] <= fl[i + 1])
       /\ \A i \in 1..k : IsPrimeL(fh[i], fl[i], tab)
       /\ Peel(hi, lo, 1)
=============================================================================
