---------------------------- MODULE Trace_Primes ----------------------------
(* Stateless conformance of the prime / power-of-two helpers with Primes.tla. *)
(* Every line of the trace is one observation; each is one step.             *)
EXTENDS Primes, TLC, Json, IOUtils

Log == ndJsonDeserialize(IOEnv.TRACE)
VARIABLES l, ptab
Ev == Log[l]
Init == TLCSet(1, 0) /\ l = 1 /\ ptab = {p \in 2..65535 : IsPrime(p)}     \* computed once

(* C15: "terminates within time proportional to sqrt(n) trial divisions"; constant fixed at 32 (+1024) *)
Bound(sq) == 32 * sq + 1024
SqOf(hi, lo) == IF hi < 32768 THEN Isqrt(hi * B16 + lo) ELSE 65535
ToSet(s) == {s[i] : i \in 1..Len(s)}
Small(hi) == hi < 32768
Val(hi, lo) == hi * B16 + lo

TIsPrimeRange ==
    /\ Ev.e = "IsPrimeRange"
    /\ ToSet(Ev.primes) = {n \in Ev.a..(Ev.b - 1) : IsPrime(n)}
    /\ Len(Ev.primes) = Cardinality(ToSet(Ev.primes))
    /\ Ev.maxdivs <= Bound(Isqrt(Ev.b))

TPow2Range ==
    /\ Ev.e = "Pow2Range"
    /\ Ev.np2a = NextPow2(Ev.a)
    /\ ToSet(Ev.changes) = {m \in (Ev.a + 1)..(Ev.b - 1) : NextPow2(m) # NextPow2(m - 1)}
    /\ ToSet(Ev.pow2s) = {m \in Ev.a..(Ev.b - 1) : IsPow2(m)}

TPow2 == /\ Ev.e = "Pow2"
         /\ Ev.np2 = NextPow2(Ev.m)
         /\ Ev.isp2 = IsPow2(Ev.m)

TIsPrime ==
    /\ Ev.e = "IsPrime"
    /\ Ev.r = IsPrimeL(Ev.hi, Ev.lo, ptab)
    /\ Ev.divs <= Bound(SqOf(Ev.hi, Ev.lo))

TFactor ==
    /\ Ev.e = "Factor"
    /\ IF Small(Ev.hi) /\ \A i \in 1..Len(Ev.fh) : Ev.fh[i] < 32768
       THEN FactorOK(Val(Ev.hi, Ev.lo), [i \in 1..Len(Ev.fh) |-> Val(Ev.fh[i], Ev.fl[i])])
       ELSE FactorOKL(Ev.hi, Ev.lo, Ev.fh, Ev.fl, ptab)
    /\ Ev.divs <= Bound(SqOf(Ev.hi, Ev.lo))

(* smallest prime >= n: r >= n, r prime, nothing prime in between; work: per tested candidate *)
TNextPrime ==
    /\ Ev.e = "NextPrime"
    /\ IF Small(Ev.rh)
       THEN LET n == Val(Ev.hi, Ev.lo)  r == Val(Ev.rh, Ev.rl) IN
            /\ r >= n /\ IsPrime(r) /\ \A m \in n..(r - 1) : ~IsPrime(m)
            /\ Ev.divs <= (r - n + 2) * Bound(Isqrt(r))
       ELSE LET gap == (Ev.rh - Ev.hi) * B16 + (Ev.rl - Ev.lo) IN
            /\ gap >= 0 /\ gap < 2000
            /\ IsPrimeL(Ev.rh, Ev.rl, ptab)
            /\ \A k \in 0..(gap - 1) : LET v == AddL(Ev.hi, Ev.lo, k) IN ~IsPrimeL(v[1], v[2], ptab)
            /\ Ev.divs <= (gap + 2) * Bound(65535)

TNextPrimeRange ==
    /\ Ev.e = "NextPrimeRange"
    /\ LET top == Ev.vals[Len(Ev.vals)]
           P == {m \in Ev.a..top : IsPrime(m)}
       IN /\ Len(Ev.vals) = Ev.b - Ev.a
          /\ top < Ev.b + 2000
          /\ \A i \in 1..Len(Ev.vals) :
                LET nn == Ev.a + i - 1 IN Ev.vals[i] \in P /\ Ev.vals[i] >= nn /\ \A q \in P : q < nn \/ q >= Ev.vals[i]
    /\ Ev.maxdivs <= 2000 * Bound(Isqrt(Ev.b + 2000))

TPrimes ==
    /\ Ev.e = "Primes"
    /\ Ev.increasing = TRUE
    /\ Ev.full => /\ ToSet(Ev.list) = {p \in 2..Ev.n : IsPrime(p)}
                  /\ Len(Ev.list) = Ev.count
    /\ \A i \in 1..Len(Ev.tail) : IsPrime(Ev.tail[i]) /\ Ev.tail[i] <= Ev.n
    /\ Len(Ev.tail) > 0 => /\ \A m \in (Ev.tail[Len(Ev.tail)] + 1)..Ev.n : ~IsPrime(m)
                           /\ Cardinality({m \in Ev.tail[1]..Ev.n : IsPrime(m)}) = Len(Ev.tail)
    /\ Len(Ev.tail) = 0 => Ev.n < 2

Next == /\ l <= Len(Log)
        \* "= TRUE" makes TLC evaluate the (large, quantified) check as one expression instead of
        \* decomposing it as an action, which recurses once per quantified element and overflows the stack
        /\ (TIsPrimeRange \/ TPow2Range \/ TPow2 \/ TIsPrime \/ TFactor \/ TNextPrime \/ TNextPrimeRange \/ TPrimes) = TRUE
        /\ l' = l + 1 /\ UNCHANGED ptab
Spec == Init /\ [][Next]_<<l, ptab>>
Furthest == IF l > TLCGet(1) THEN TLCSet(1, l) ELSE TRUE
Accepted == /\ PrintT(<<"FURTHEST", TLCGet(1), Len(Log)>>)
            /\ TLCGet(1) = Len(Log) + 1
=============================================================================
