------------------------------- MODULE Slice -------------------------------
(***************************************************************************)
(* Slices of dsplib arrays (property C04, and the slice part of C05).      *)
(*                                                                         *)
(* An array is a sequence `arr` of element tags (1-based TLA+ sequence,    *)
(* element k of the C++ array is arr[k+1]).  A slice request is the        *)
(* quadruple (n, i1, i2, m) = (array length, start, stop, step).           *)
(*                                                                         *)
(* Definitional layer : Rejects, PyIdx  (the property statement)           *)
(* Library-shaped layer: Resolve, Count, Idx (what base_slice_t computes)  *)
(* Assignment semantics: copy-first by definition; the implementation-     *)
(* shaped ImplAssignSame (memmove fast path / materialise / forward copy)  *)
(* is compared with it in MC_Slice.                                        *)
(***************************************************************************)
EXTENDS Integers, Sequences, FiniteSets

Abs(x) == IF x < 0 THEN -x ELSE x
CeilDiv(a, b) == (a + b - 1) \div b

Resolve(n, i) == IF i < 0 THEN n + i ELSE i

(* The statement: when must a slice request be rejected with an exception *)
Rejects(n, i1, i2, m) ==
    \/ n = 0
    \/ m = 0
    \/ i1 < -n \/ i1 > n - 1
    \/ i2 < -n \/ i2 > n
    \/ (m > 0 /\ Resolve(n, i1) > Resolve(n, i2))
    \/ (m < 0 /\ Resolve(n, i1) < Resolve(n, i2))

(* Library-shaped element count and index list (0-based indices) *)
Count(n, i1, i2, m) == CeilDiv(Abs(Resolve(n, i2) - Resolve(n, i1)), Abs(m))
Idx(n, i1, i2, m) == [k \in 1..Count(n, i1, i2, m) |-> Resolve(n, i1) + (k - 1) * m]

(* Python's x[i1:i2:m] for m # 0: slice.indices() followed by range() *)
PyClamp(n, i, m) ==
    LET lower == IF m < 0 THEN -1 ELSE 0
        upper == IF m < 0 THEN n - 1 ELSE n
        j == IF i < 0 THEN i + n ELSE i
    IN IF i < 0 THEN (IF j < lower THEN lower ELSE j)
                ELSE (IF j > upper THEN upper ELSE j)
PyCount(a, b, m) == IF m > 0 THEN (IF b > a THEN CeilDiv(b - a, m) ELSE 0)
                             ELSE (IF a > b THEN CeilDiv(a - b, -m) ELSE 0)
PyIdx(n, i1, i2, m) ==
    LET a == PyClamp(n, i1, m)  b == PyClamp(n, i2, m)
    IN [k \in 1..PyCount(a, b, m) |-> a + (k - 1) * m]

(* Elements denoted by an accepted slice, in order *)
Read(arr, i1, i2, m) == LET ix == Idx(Len(arr), i1, i2, m) IN [k \in 1..Len(ix) |-> arr[ix[k] + 1]]

(* Writing the sequence vals through the slice (Len(vals) = count) *)
Write(arr, i1, i2, m, vals) ==
    LET ix == Idx(Len(arr), i1, i2, m)
    IN [p \in 1..Len(arr) |->
          IF \E k \in 1..Len(ix) : ix[k] + 1 = p
          THEN vals[CHOOSE k \in 1..Len(ix) : ix[k] + 1 = p]
          ELSE arr[p]]

Const(c, v) == [k \in 1..c |-> v]

(* --- outcomes of the public operations; "throw" leaves the array unchanged --- *)
ReadOutcome(arr, i1, i2, m) ==
    IF Rejects(Len(arr), i1, i2, m) THEN [o |-> "throw", vals |-> <<>>, arr |-> arr]
    ELSE [o |-> "ret", vals |-> Read(arr, i1, i2, m), arr |-> arr]

AssignScalarOutcome(arr, i1, i2, m, v) ==
    IF Rejects(Len(arr), i1, i2, m) THEN [o |-> "throw", arr |-> arr]
    ELSE [o |-> "ret", arr |-> Write(arr, i1, i2, m, Const(Count(Len(arr), i1, i2, m), v))]

(* right-hand side given as a sequence of values (array or initializer list) *)
AssignSeqOutcome(arr, i1, i2, m, rhs) ==
    IF Rejects(Len(arr), i1, i2, m) \/ Len(rhs) # Count(Len(arr), i1, i2, m)
    THEN [o |-> "throw", arr |-> arr]
    ELSE [o |-> "ret", arr |-> Write(arr, i1, i2, m, rhs)]

(* slice := slice of the same array: source is read first (copy-first), then written *)
AssignSliceSameOutcome(arr, d1, d2, dm, s1, s2, sm) ==
    LET n == Len(arr) IN
    IF Rejects(n, d1, d2, dm) \/ Rejects(n, s1, s2, sm) THEN [o |-> "throw", arr |-> arr]
    ELSE IF Count(n, d1, d2, dm) # Count(n, s1, s2, sm) THEN [o |-> "throw", arr |-> arr]
    ELSE [o |-> "ret", arr |-> Write(arr, d1, d2, dm, Read(arr, s1, s2, sm))]

(* slice := slice of another array *)
AssignSliceOtherOutcome(arr, d1, d2, dm, src, s1, s2, sm) ==
    IF Rejects(Len(arr), d1, d2, dm) \/ Rejects(Len(src), s1, s2, sm) THEN [o |-> "throw", arr |-> arr]
    ELSE IF Count(Len(arr), d1, d2, dm) # Count(Len(src), s1, s2, sm) THEN [o |-> "throw", arr |-> arr]
    ELSE [o |-> "ret", arr |-> Write(arr, d1, d2, dm, Read(src, s1, s2, sm))]

(***************************************************************************)
(* Implementation-shaped same-array assignment (slice.h operator=):        *)
(*   both strides 1 -> memmove (overlap-safe block move)                   *)
(*   otherwise      -> materialise the source into a temporary, then copy  *)
(* `mode` lets MC_Slice ask what a forward element-by-element copy (the    *)
(* different-array path) would do if it were used on one array.            *)
(***************************************************************************)
RECURSIVE FwdCopy(_, _, _, _)
FwdCopy(a, dix, six, k) ==
    IF k > Len(dix) THEN a
    ELSE FwdCopy([a EXCEPT ![dix[k] + 1] = a[six[k] + 1]], dix, six, k + 1)

ImplAssignSame(arr, d1, d2, dm, s1, s2, sm, mode) ==
    LET n == Len(arr)
        dix == Idx(n, d1, d2, dm)
        six == Idx(n, s1, s2, sm)
    IN CASE mode = "asis" ->
              IF dm = 1 /\ sm = 1 THEN Write(arr, d1, d2, dm, Read(arr, s1, s2, sm))   \* memmove
              ELSE Write(arr, d1, d2, dm, Read(arr, s1, s2, sm))                        \* temp copy
         [] mode = "forward" -> FwdCopy(arr, dix, six, 1)

(* A copy of a slice object re-runs the constructor on the resolved indices. *)
(* lenArg is what the copy passes as array length: "n" (correct) or "count"  *)
CopyDenotes(n, i1, i2, m, lenArg) ==
    LET r1 == Resolve(n, i1)  r2 == Resolve(n, i2)
        nn == IF lenArg = "n" THEN n ELSE Count(n, i1, i2, m)
    IN IF Rejects(nn, r1, r2, m) THEN <<"throw">> ELSE <<"ret", Idx(nn, r1, r2, m)>>
=============================================================================
