-------------------------- MODULE Trace_DetectorSeq --------------------------
(* Recorded multi-detection runs of PreambleDetector against DetectorSeq.tla.  Which of the two variants the library     *)
(* follows ("asis": the rest of a frame after a detection never reaches the delay line; "pushall": it does) is NOT       *)
(* logged: TLC chooses it at SeqReset and must keep it for the whole run - a library that mixes them, or whose delay     *)
(* line reorders, repeats or loses anything else, is rejected.                                                           *)
EXTENDS Integers, Sequences, TLC, Json, IOUtils
Log == ndJsonDeserialize(IOEnv.TRACE)
VARIABLES Lp, F, variant, ring, l
vars == <<Lp, F, variant, ring, l>>
Ev == Log[l]
LastN(s, n) == SubSeq(s, Len(s) - n + 1, Len(s))
Samples(k) == [i \in 1..F |-> (k - 1) * F + i]
Init == TLCSet(1, 0) /\ Lp = 1 /\ F = 1 /\ variant = "none" /\ ring = <<0>> /\ l = 1

TReset == /\ Ev.e = "SeqReset"
          /\ Lp' = Ev.Lp /\ F' = Ev.F /\ ring' = [i \in 1..Ev.Lp |-> 0]
          /\ variant' \in {"asis", "pushall"}                                  \* inferred, then held
TFrame == /\ Ev.e = "SeqFrame" /\ Ev.o = "ret"
          /\ IF Ev.det
             THEN /\ Ev.found = TRUE /\ Ev.off >= 0 /\ Ev.off < F
                  /\ Ev.idx = LastN(ring \o SubSeq(Samples(Ev.k), 1, Ev.off + 1), Lp)       \* the line when the hit was tested
                  /\ ring' = LastN(ring \o SubSeq(Samples(Ev.k), 1, IF variant = "asis" THEN Ev.off + 1 ELSE F), Lp)
             ELSE ring' = LastN(ring \o Samples(Ev.k), Lp)
          /\ UNCHANGED <<Lp, F, variant>>
Next == /\ l <= Len(Log)
        /\ (TReset \/ TFrame)
        /\ l' = l + 1
Spec == Init /\ [][Next]_vars
Furthest == IF l > TLCGet(1) THEN TLCSet(1, l) ELSE TRUE
Accepted == /\ PrintT(<<"FURTHEST", TLCGet(1), Len(Log)>>)
            /\ TLCGet(1) = Len(Log) + 1
=============================================================================
