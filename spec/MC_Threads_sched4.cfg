CONSTANTS Thr = {1, 2, 3, 4} Plans = {"a"} Scratch = "perCall" Calls = 1
SPECIFICATION Spec
INVARIANTS ResultPreserved RaceFree
CHECK_DEADLOCK FALSE
