CONSTANTS
  K = 5
  Cases <- CasesQuick
SPECIFICATION Spec
INVARIANT FramingInvariant
CHECK_DEADLOCK FALSE
