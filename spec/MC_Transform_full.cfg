CONSTANTS NMax = 160
SPECIFICATION Spec
INVARIANT LeavesOK
CHECK_DEADLOCK FALSE
