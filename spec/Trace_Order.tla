----------------------------- MODULE Trace_Order -----------------------------
(* Stateless conformance of sort / median / medfilt / MedianFilter / corr with Order.tla (C16). *)
EXTENDS Order, TLC, Json, IOUtils

Log == ndJsonDeserialize(IOEnv.TRACE)
VARIABLE l
Ev == Log[l]
Init == TLCSet(1, 0) /\ l = 1

TSort == /\ Ev.e = "Sort" /\ Ev.o = "ret"
         /\ SortOK(Ev.x, Ev.asc, Ev.sorted, Ev.idx)
TMedian == /\ Ev.e = "Median" /\ Ev.o = "ret"
           /\ Ev.m2 = Median2(Ev.x)
TMedfilt == /\ Ev.e = "Medfilt" /\ Ev.o = "ret"
            /\ Len(Ev.y2) = Len(Ev.x)
            /\ \A i \in 1..Len(Ev.x) : Ev.y2[i] = Medfilt2(Ev.n, Ev.x, i - 1)
            /\ Ev.x_after = Ev.x                       \* the input array is not modified
TMedianFilter == /\ Ev.e = "MedianFilter"
                 /\ Len(Ev.y2) = Len(Ev.x)
                 /\ \A i \in 1..Len(Ev.x) : Ev.y2[i] = MedianStream2(Ev.n, Ev.init, Ev.x, i - 1)
(* Kendall tau and Spearman rho as exact rationals (tie-free data); Pearson by long-double residual *)
TCorr == /\ Ev.e = "Corr" /\ Ev.o = "ret"
         /\ Ev.exact = TRUE
         /\ Ev.kq = KendallNum(Ev.x, Ev.y) /\ Ev.kq2 = Ev.kq              \* value and symmetry
         /\ Ev.sq = SpearmanNum(Ev.x, Ev.y) /\ Ev.sq2 = Ev.sq
         /\ Ev.psym = TRUE /\ Ev.prange = TRUE
         /\ Ev.perr_milli <= 1000

(* Spearman on samples of several hundred points (31-bit safe up to n = 1000) *)
TSpearman == /\ Ev.e = "Spearman" /\ Ev.exact = TRUE
             /\ Len(Ev.x) <= 1000
             /\ Ev.sq = SpearmanNum(Ev.x, Ev.y) /\ Ev.sq2 = Ev.sq
(* long samples: rho, tau, r against O(n^2) long-double definitions (for permutations Pearson r = rho) *)
TCorrBig == /\ Ev.e = "CorrBig" /\ Ev.range = TRUE /\ Ev.err_milli <= 1000

Next == /\ l <= Len(Log)
        /\ (TSort \/ TMedian \/ TMedfilt \/ TMedianFilter \/ TCorr \/ TSpearman \/ TCorrBig) = TRUE
        /\ l' = l + 1
Spec == Init /\ [][Next]_l
Furthest == IF l > TLCGet(1) THEN TLCSet(1, l) ELSE TRUE
Accepted == /\ PrintT(<<"FURTHEST", TLCGet(1), Len(Log)>>)
            /\ TLCGet(1) = Len(Log) + 1
=============================================================================
