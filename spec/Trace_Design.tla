---------------------------- MODULE Trace_Design ----------------------------
EXTENDS Design, TLC, Json, IOUtils
Log == ndJsonDeserialize(IOEnv.TRACE)
VARIABLE l
Ev == Log[l]
Init == TLCSet(1, 0) /\ l = 1

(* fir1: length rule, linear phase (symmetry and firtype), unity gain at DC / Nyquist, masks where applicable *)
TFir == /\ Ev.e = "Fir" /\ Ev.o = "ret"
        /\ Ev.len = Fir1Len(Ev.type, Ev.n)
        /\ Ev.sym_milli <= 1000                               \* |h[i] - h[N-1-i]| <= 4 ulp of the peak tap
        /\ Ev.firtype = SymFirType(Ev.len)
        /\ (Ev.type = "low") => Ev.dc_milli <= 1000           \* |sum h - 1| <= 64 n eps
        /\ (Ev.type = "high") => Ev.nyq_milli <= 1000         \* ||sum (-1)^i h| - 1| <= 64 n eps
        /\ (Ev.masks /\ Applicable(Ev.type, Ev.n, Ev.w1, Ev.w2)) =>
              (Ev.hw = HalfWidth(Ev.n) /\ Ev.pass_ppm <= 20000 /\ Ev.stop_ppm <= 20000)
(* a custom window is accepted iff its length is the design's tap count *)
TFirWin == /\ Ev.e = "FirWin"
           /\ Ev.o = (IF WinLenOK(Ev.type, Ev.n, Ev.wl) THEN "ret" ELSE "throw")
(* windows: length, closed form, range, symmetry, periodic = prefix of symmetric(n+1) *)
TWin == /\ Ev.e = "Win" /\ Ev.o = "ret"
        /\ Ev.len = Ev.n
        /\ Ev.form_milli <= 1000 /\ Ev.range_ok = TRUE
        /\ Ev.sym => Ev.sym_milli <= 1000
        /\ (~Ev.sym) => Ev.prefix_milli <= 1000
Next == /\ l <= Len(Log)
        /\ (TFir \/ TFirWin \/ TWin) = TRUE
        /\ l' = l + 1
Spec == Init /\ [][Next]_l
Furthest == IF l > TLCGet(1) THEN TLCSet(1, l) ELSE TRUE
Accepted == /\ PrintT(<<"FURTHEST", TLCGet(1), Len(Log)>>)
            /\ TLCGet(1) = Len(Log) + 1
=============================================================================
