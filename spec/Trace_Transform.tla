--------------------------- MODULE Trace_Transform ---------------------------
(* Conformance of the Fourier transforms with Transform.tla (C01, C02).  Stateless observations. *)
EXTENDS Transform, TLC, Json, IOUtils

Log == ndJsonDeserialize(IOEnv.TRACE)
VARIABLE l
Ev == Log[l]
Init == TLCSet(1, 0) /\ l = 1

(* impulse at m: output k is twiddle number m*k mod n (which sample meets which twiddle), n values, within 32 n eps *)
TImpRow == /\ Ev.e = "ImpRow" /\ Ev.o = "ret"
           /\ Ev.outlen = Ev.n
           /\ Ev.exps = ImpulseRow(Ev.n, Ev.m)
           /\ Ev.err_milli <= 1000

(* error of a transform relative to the statement's bound (1000 = the bound), with the documented output length *)
TResid == /\ Ev.e = "Resid"
          /\ Ev.err_milli <= 1000
          /\ (Ev.clause \in {"C01.l2", "C01.real_eq_cmplx", "C01.conjsym", "C01.bins", "C01.parseval"}) => Ev.outlen = Ev.n
          /\ (Ev.clause = "C01.pad") => Ev.outlen = OutLenFft(Ev.n, Ev.n2)
          /\ (Ev.clause = "C01.czt") => (Ev.cls = "ret" /\ Ev.outlen = Ev.n2)

(* C02 *)
TInv == /\ Ev.e = "Inv"
        /\ IF Ev.api \in {"irfft_full", "irfft_half", "irfft_auto", "irfft_odd"} /\ Ev.n % 2 = 1
           THEN Ev.o = "throw"                                  \* odd n is rejected with an exception
           ELSE /\ Ev.o = "ret" /\ Ev.outlen = Ev.n /\ Ev.finite = TRUE
                /\ Ev.err_milli <= 1000

TCola == Ev.e = "Cola" /\ Ev.o = "ret"                          \* iscola itself must not fail on valid arguments

TStft == /\ Ev.e = "Stft" /\ Ev.o = "ret"
         /\ Ev.nwin <= Ev.nfft
         /\ Ev.nseg = NSeg(Ev.nx, Ev.nwin, Ev.overlap)          \* segments and hop are counted in window samples (nwin <= nfft)
         /\ Ev.bins_ok = 1
         /\ Ev.outlen = IstftLen(Ev.nseg, Ev.nwin, Ev.overlap)
         /\ Ev.finite = TRUE                                    \* only finite values, also where the window weight is 0
         /\ Ev.err_milli <= 1000                                \* reproduces x wherever the accumulated weight is non-zero

Next == /\ l <= Len(Log)
        /\ (TImpRow \/ TResid \/ TInv \/ TCola \/ TStft) = TRUE
        /\ l' = l + 1
Spec == Init /\ [][Next]_l
Furthest == IF l > TLCGet(1) THEN TLCSet(1, l) ELSE TRUE
Accepted == /\ PrintT(<<"FURTHEST", TLCGet(1), Len(Log)>>)
            /\ TLCGet(1) = Len(Log) + 1
=============================================================================
