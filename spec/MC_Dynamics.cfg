CONSTANTS RSet = {1, 2, 3, 5, 10, 50} WSet = {0, 1, 5, 20} Span = 300 HoldSet = {0, 1, 3} MaxLen = 9
SPECIFICATION Spec
INVARIANT GateOK
CHECK_DEADLOCK FALSE
