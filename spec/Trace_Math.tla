----------------------------- MODULE Trace_Math -----------------------------
EXTENDS MathShapes, TLC, Json, IOUtils
Log == ndJsonDeserialize(IOEnv.TRACE)
VARIABLE l
Ev == Log[l]
Init == TLCSet(1, 0) /\ l = 1

TArange == /\ Ev.e = "Arange" /\ Ev.o = "ret" /\ Ev.exact = TRUE
           /\ Ev.vals = ArangeInt(Ev.start, Ev.stop, Ev.step)
(* fractional arange whose count (stop-start)/step is integral: start = a/q, step = s/q, stop = a/q + c*s/q *)
TArangeF == /\ Ev.e = "ArangeF" /\ Ev.o = "ret" /\ Ev.exact = TRUE
            /\ Ev.vals = [k \in 1..Ev.c |-> Ev.a + (k - 1) * Ev.s]
TLinspace == /\ Ev.e = "Linspace" /\ Ev.o = "ret"
             /\ Ev.len = Ev.n /\ Ev.dev_milli <= 1000 /\ Ev.ends_ok = TRUE
TShape ==
    /\ Ev.e = "Shape"
    /\ CASE Ev.fn = "repelem" -> Ev.o = "ret" /\ Ev.y = Repelem(Ev.x, Ev.n)
         [] Ev.fn = "flip" -> Ev.o = "ret" /\ Ev.y = Flip(Ev.x)
         [] Ev.fn = "upsample" -> Ev.o = "ret" /\ Ev.y = Upsample(Ev.x, Ev.n, Ev.ph)
         [] Ev.fn = "downsample" -> Ev.o = "ret" /\ Ev.y = Downsample(Ev.x, Ev.n, Ev.ph)
         [] Ev.fn = "updown" -> Ev.o = "ret" /\ Ev.y = Ev.x                             \* round trip
         [] Ev.fn = "zeropad" -> IF Ev.n < Len(Ev.x) THEN Ev.o = "throw" ELSE Ev.o = "ret" /\ Ev.y = Zeropad(Ev.x, Ev.n)
         [] Ev.fn = "delayseq" -> Ev.o = "ret" /\ Ev.y = Delayseq(Ev.x, Ev.n)
         [] Ev.fn = "reim" -> Ev.o = "ret" /\ Ev.y = Ev.x                               \* complex(real, imag) round trip
    /\ Ev.x_same = TRUE                                                                    \* the input is not modified
TReduce == /\ Ev.e = "Reduce" /\ Ev.exact = TRUE
           /\ Ev.sum = Sum(Ev.x) /\ Ev.cf = CumsumF(Ev.x) /\ Ev.cr = CumsumR(Ev.x)
           /\ Ev.dot = Dot(Ev.x, Ev.y) /\ Ev.mean_n = Sum(Ev.x)
           /\ Ev.max = MaxOf(Ev.x) /\ Ev.min = MinOf(Ev.x) /\ Ev.p2p = MaxOf(Ev.x) - MinOf(Ev.x)
           /\ Ev.x[Ev.argmax + 1] = MaxOf(Ev.x) /\ Ev.x[Ev.argmin + 1] = MinOf(Ev.x)
           /\ Ev.sumsq = Dot(Ev.x, Ev.x)                                                    \* rms^2 * n, norm^2 (rounded)
           /\ (Len(Ev.x) > 1) => Ev.var_n1 = Len(Ev.x) * Dot(Ev.x, Ev.x) - Sum(Ev.x) * Sum(Ev.x)   \* stddev^2 (n-1) n
(* values that are integer multiples of a named constant: observed multiple k and deviation in ulps *)
TLattice == /\ Ev.e = "Lattice" /\ Ev.dev_ulp <= 4
            /\ CASE Ev.fn = "angle" -> Ev.k = AngleOct(Ev.re, Ev.im, Ev.imneg)
                 [] OTHER -> Ev.k = Ev.want                      \* dB / degree / log2 / exp lattices: driver states the exact value
TResid == Ev.e = "Resid" /\ Ev.err_milli <= 1000
Next == /\ l <= Len(Log)
        /\ (TArange \/ TArangeF \/ TLinspace \/ TShape \/ TReduce \/ TLattice \/ TResid) = TRUE
        /\ l' = l + 1
Spec == Init /\ [][Next]_l
Furthest == IF l > TLCGet(1) THEN TLCSet(1, l) ELSE TRUE
Accepted == /\ PrintT(<<"FURTHEST", TLCGet(1), Len(Log)>>)
            /\ TLCGet(1) = Len(Log) + 1
=============================================================================
