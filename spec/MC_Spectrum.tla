---------------------------- MODULE MC_Spectrum ----------------------------
(* Labelling theorems: (1) with spectrum and labels in the same (centred) order every tone peaks at the nearest    *)
(* label; (2) leaving the spectrum in FFT order under centred labels (the recorded finding) mislabels exactly     *)
(* the tones whose nearest bin is not nfft/2-invariant; the state machine walks segment positions of welch.        *)
EXTENDS Spectrum, TLC
CONSTANTS NfftSet
(* centred order: FFT bin r is stored at entry pos(r); label of that entry must be the centred bin index *)
CentredPos(nfft, r) == IF r > nfft \div 2 THEN r - (nfft \div 2 + 1) ELSE r + (nfft - (nfft \div 2 + 1))
T1 == \A nfft \in NfftSet : \A r \in 0..(nfft - 1) : Label(TRUE, nfft, CentredPos(nfft, r)) = Centre(nfft, r)
T2 == \A nfft \in NfftSet : \A p \in (-4 * nfft + 5)..(4 * nfft - 5) : (p % 8) # 4 =>
        (FftOrderLabel(nfft, p) = PeakLabel(TRUE, nfft, p)) = FALSE \/ nfft <= 2
ASSUME T1
ASSUME T2
VARIABLES N, winlen, noverlap, seg
Init == /\ winlen \in 2..6 /\ noverlap \in 0..5 /\ noverlap < winlen /\ N \in 2..14 /\ N >= winlen /\ seg = 0
Next == /\ seg + 1 < Segments(N, winlen, noverlap) /\ seg' = seg + 1 /\ UNCHANGED <<N, winlen, noverlap>>
Spec == Init /\ [][Next]_<<N, winlen, noverlap, seg>>
(* every segment lies inside the signal, and one more would not *)
SegInside == /\ seg * (winlen - noverlap) + winlen <= N
             /\ Segments(N, winlen, noverlap) * (winlen - noverlap) + winlen > N
=============================================================================
