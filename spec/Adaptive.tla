------------------------------ MODULE Adaptive ------------------------------
(***************************************************************************)
(* Adaptive FIR filters (C12) over the Gaussian integers.                  *)
(* LMS with integer step size mu and leakage 1:                            *)
(*    y[k] = sum_j c[j] x[k-j]        (plain sum, c = coeffs() before k)   *)
(*    e[k] = d[k] - y[k]              (a-priori error)                     *)
(*    c[j] <- c[j] + mu e[k] conj(x[k-j])          unless locked           *)
(* The lock is a two-state machine; while locked the coefficients never    *)
(* change and the filter is exactly the fixed FIR filter with coeffs().    *)
(* Complex values are pairs <<re, im>>.                                    *)
(***************************************************************************)
EXTENDS Integers, Sequences

CAdd(a, b) == <<a[1] + b[1], a[2] + b[2]>>
CSub(a, b) == <<a[1] - b[1], a[2] - b[2]>>
CMul(a, b) == <<a[1] * b[1] - a[2] * b[2], a[1] * b[2] + a[2] * b[1]>>
CConj(a) == <<a[1], -a[2]>>
CScale(m, a) == <<m * a[1], m * a[2]>>
Z == <<0, 0>>

(* x: whole input so far as a sequence of pairs; sample k (1-based), tap j (0-based) -> x[k-j], zero before start *)
XAt(x, k, j) == IF k - j >= 1 THEN x[k - j] ELSE Z
SumC(F(_), n) == LET RECURSIVE S(_)
                     S(j) == IF j >= n THEN Z ELSE CAdd(F(j), S(j + 1))
                 IN S(0)
Output(c, x, k) == SumC(LAMBDA j : CMul(c[j + 1], XAt(x, k, j)), Len(c))
LmsUpdate(c, x, k, e, mu) == [j \in 1..Len(c) |-> CAdd(c[j], CScale(mu, CMul(e, CConj(XAt(x, k, j - 1)))))]

(* run samples from..to of (x, d) starting with coefficients c; returns [c, y, e] (y, e as sequences of pairs) *)
RECURSIVE Run(_, _, _, _, _, _, _, _, _)
Run(c, x, d, k, to, mu, locked, ys, es) ==
    IF k > to THEN [c |-> c, y |-> ys, e |-> es]
    ELSE LET y == Output(c, x, k)
             e == CSub(d[k], y)
             c1 == IF locked THEN c ELSE LmsUpdate(c, x, k, e, mu)
         IN Run(c1, x, d, k + 1, to, mu, locked, Append(ys, y), Append(es, e))
Pairs(re, im) == [i \in 1..Len(re) |-> <<re[i], im[i]>>]
Res(s) == [i \in 1..Len(s) |-> s[i][1]]
Ims(s) == [i \in 1..Len(s) |-> s[i][2]]
ZeroC(n) == [j \in 1..n |-> Z]
=============================================================================
