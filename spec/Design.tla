------------------------------- MODULE Design -------------------------------
(***************************************************************************)
(* FIR and window designs (C11): length rules, symmetry index map,         *)
(* periodic = prefix of symmetric(n+1), mask applicability and band edges  *)
(* in exact rational arithmetic (frequencies in 1/1000 of Nyquist).        *)
(***************************************************************************)
EXTENDS Integers, Sequences

Types == {"low", "high", "bandpass", "bandstop"}
(* number of taps of fir1(n, ...) *)
Fir1Len(type, n) == IF n % 2 = 1 /\ type \in {"high", "bandstop"} THEN n + 2 ELSE n + 1
(* the window length fir1 accepts for a custom window *)
WinLenOK(type, n, wl) == wl = Fir1Len(type, n)
(* firtype of a symmetric impulse response of N taps: odd N -> 1 (even order), even N -> 2 (odd order) *)
SymFirType(N) == IF N % 2 = 1 THEN 1 ELSE 2
Mirror(N, i) == N - 1 - i                                  \* h[i] = h[Mirror(N, i)], 0-based

(* band edges (in 1/1000 of Nyquist) and band list: <<lo, hi, kind>>, kind 1 = pass, 0 = stop *)
Bands(type, w1, w2) ==
    CASE type = "low" -> << <<0, w1, 1>>, <<w1, 1000, 0>> >>
      [] type = "high" -> << <<0, w1, 0>>, <<w1, 1000, 1>> >>
      [] type = "bandpass" -> << <<0, w1, 0>>, <<w1, w2, 1>>, <<w2, 1000, 0>> >>
      [] type = "bandstop" -> << <<0, w1, 1>>, <<w1, w2, 0>>, <<w2, 1000, 1>> >>
(* every band wider than 16/(n+1): (hi - lo)/1000 > 16/(n+1) *)
Applicable(type, n, w1, w2) ==
    LET b == Bands(type, w1, w2) IN \A i \in 1..Len(b) : (b[i][2] - b[i][1]) * (n + 1) > 16000
(* transition half-width 4/(n+1) in 1/1000 of Nyquist, rounded up *)
HalfWidth(n) == (4000 + n) \div (n + 1)

(* periodic window of length n = first n points of the symmetric window of length n+1 (index statement) *)
PeriodicIdx(n, i) == i                                     \* same index into the longer symmetric window
=============================================================================
