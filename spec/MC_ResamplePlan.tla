--------------------------- MODULE MC_ResamplePlan ---------------------------
(* Theorems about the planning arithmetic over a grid: every ratio p/q with p, q <= RMax, default prototypes with         *)
(* P in 1..PMax half-lengths and arbitrary prototype lengths up to HMax, input lengths up to LenMax.                       *)
EXTENDS ResamplePlan, TLC
CONSTANTS RMax, PMax, HMax, LenMax
VARIABLES p, q
Init == p \in 1..RMax /\ q \in 1..RMax
Next == UNCHANGED <<p, q>>
Spec == Init /\ [][Next]_<<p, q>>
L == Reduced(p, q)[1]
M == Reduced(p, q)[2]

ReducedOK == Gcd(L, M) = 1 /\ L * q = M * p
(* the default design has a whole number of taps per branch unless the odd case applies, and is never shorter than 2 taps per branch *)
DesignOK == \A P \in 1..PMax : LET nt == DesignTaps(L, M, P) IN
               L # M => /\ nt >= 2 * Max2(L, M) \/ (L > 1 /\ M > L)
                        /\ (~OddCase(L, M, P) => nt % (IF L > 1 THEN L ELSE M) = 0)
(* the flush of the one-shot resample() suffices for every prototype length and input length *)
FlushOK == L # M => \A nh \in 1..HMax : \A len \in 1..LenMax : FlushSuffices(len, L, M, nh)
FlushDefaultOK == L # M => \A P \in 1..PMax : \A len \in 1..LenMax : FlushSuffices(len, L, M, DesignTaps(L, M, P))
(* vacuity guard: with the flush length rounded DOWN (mdl = dl * M div L) the slice can run past the produced output *)
PlanDown(len, nh) == LET nx == NextSize(len, M)  dl == Delay(L, M, nh)  nn == NextSize(nx + (dl * M) \div L, M)
                     IN dl + (nx * L) \div M <= (nn * L) \div M
FlushDownOK == L # M => \A nh \in 1..HMax : \A len \in 1..LenMax : PlanDown(len, nh)
(* polyphase layout: every prototype tap appears in exactly one branch position, padding is zero *)
PolyOK == \A nh \in 1..6 : \A m \in 1..4 :
            LET h == [j \in 1..nh |-> j]      \* distinct tags
                br == Polyphase(h, m, FALSE)
                fl == Polyphase(h, m, TRUE)
                n == SubLen(nh, m)
            IN /\ \A j \in 0..(nh - 1) : br[(j % m) + 1][(j \div m) + 1] = j + 1
               /\ \A i \in 1..m : \A k \in 1..n : fl[i][k] = br[i][n + 1 - k]
               /\ \A i \in 1..m : \A k \in 1..n : (i - 1 + m * (k - 1) >= nh) => br[i][k] = 0
=============================================================================
