---------------------------- MODULE MC_Dynamics ----------------------------
(* Spec-level theorems of C20: the documented static curve is continuous at both knee edges and monotone    *)
(* (non-decreasing output level) for every integer T-independent setting R in 1..50, W in 0..20 on a 0.01 dB *)
(* grid; the gain is never positive.  The gate machine satisfies the statement-level clauses for every      *)
(* input pattern (state machine below).                                                                      *)
EXTENDS Dynamics, TLC
CONSTANTS RSet, WSet, Span, HoldSet, MaxLen

Grid(Wc) == (-(Wc \div 2) - Span)..((Wc \div 2) + Span)
(* gains over a common denominator so that neighbouring grid points compare without overflow *)
CD(R, Wc) == IF Wc = 0 THEN R ELSE R * Wc
CN(v, R, Wc) == IF Wc = 0 THEN CompNum(v, R, Wc)
                ELSE IF 2 * v <= -Wc THEN 0
                ELSE IF 2 * v < Wc THEN CompNum(v, R, Wc)
                ELSE CompNum(v, R, Wc) * Wc
LD(Wc) == IF Wc = 0 THEN 1 ELSE Wc
LN(v, Wc) == IF Wc = 0 THEN LimNum(v, Wc)
             ELSE IF 2 * v <= -Wc THEN 0 ELSE IF 2 * v < Wc THEN LimNum(v, Wc) ELSE LimNum(v, Wc) * Wc

(* output level y = x + g is non-decreasing: g(v+1) - g(v) >= -10 mdB (one grid step of 0.01 dB) *)
CompMonotone == \A R \in RSet, W \in WSet : LET Wc == 100 * W IN
    \A v \in Grid(Wc) : v + 1 \in Grid(Wc) => CN(v + 1, R, Wc) - CN(v, R, Wc) >= -10 * CD(R, Wc)
CompNeverAmplifies == \A R \in RSet, W \in WSet : \A v \in Grid(100 * W) : CN(v, R, 100 * W) <= 0
(* continuity: between neighbouring grid points the gain moves by at most one grid step, in particular
   across both knee edges, where the formula changes *)
CompContinuous == \A R \in RSet, W \in WSet : LET Wc == 100 * W IN
    \A v \in Grid(Wc) : v + 1 \in Grid(Wc) => Abs(CN(v + 1, R, Wc) - CN(v, R, Wc)) <= 10 * CD(R, Wc)
LimMonotoneContinuous == \A W \in WSet : LET Wc == 100 * W IN
    \A v \in Grid(Wc) : v + 1 \in Grid(Wc) =>
        /\ LN(v + 1, Wc) - LN(v, Wc) >= -10 * LD(Wc)
        /\ Abs(LN(v + 1, Wc) - LN(v, Wc)) <= 10 * LD(Wc)
        /\ (2 * v >= Wc => LN(v, Wc) = -10 * v * LD(Wc))              \* flat ceiling: y = x + g = threshold
ASSUME CompMonotone
ASSUME CompNeverAmplifies
ASSUME CompContinuous
ASSUME LimMonotoneContinuous

VARIABLES xs, st, gains, hold
vars == <<xs, st, gains, hold>>
Init == xs = <<>> /\ st = [g |-> 0, c |-> 0] /\ gains = <<>> /\ hold \in HoldSet
Next == /\ Len(xs) < MaxLen
        /\ \E a \in {0, 1} :
              LET s1 == GateStep(st, a = 1, hold) IN
              /\ xs' = Append(xs, a) /\ st' = s1 /\ gains' = Append(gains, s1.g)
        /\ UNCHANGED hold
Spec == Init /\ [][Next]_vars
GateOK == GateClausesOK(xs, gains, hold) /\ gains = GateRun([g |-> 0, c |-> 0], xs, hold, <<>>)
=============================================================================
