CONSTANTS Lp = 3 F = 4 NFrames = 3 Variant = "pushall"
SPECIFICATION Spec
INVARIANTS Aligned FirstAligned OnePerFrame AtFirstHit Monotone
CHECK_DEADLOCK FALSE
