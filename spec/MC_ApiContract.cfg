CONSTANTS N = 7
SPECIFICATION Spec
INVARIANT OnlyLegalOutcomes
CHECK_DEADLOCK FALSE
