CONSTANTS NfftSet = {4, 8, 16, 32}
SPECIFICATION Spec
INVARIANT SegInside
CHECK_DEADLOCK FALSE
