--------------------------- MODULE MC_ApiContract ---------------------------
(* The contract is consistent: no case is required both to throw and to return; the program space of two-call   *)
(* programs (construct, then call) over the boundary-directed length relations is enumerated as a state graph.  *)
EXTENDS ApiContract, TLC
CONSTANTS N
Rel == {0, 1, 2, 3, N - 1, N, N + 1, 2 * N}
Entries == PairwiseEntries \cup PlanEntries \cup {"IfftPlanR", "irfft", "idx", "slice_list", "zeropad", "decim_frame", "fir1_win", "welch_overlap"}
Consistent == \A e \in Entries : \A a \in Rel \ {0}, b \in Rel, c \in {0, 1, 2} :
                 ~(MustThrow(e, <<a, b, c>>) /\ MustReturn(e, <<a, b, c>>))
ASSUME Consistent
VARIABLES stage, entry, p, outcome
Init == stage = "start" /\ entry \in Entries /\ p = <<0, 0, 0>> /\ outcome = "none"
Construct == stage = "start" /\ stage' = "built" /\ \E a \in Rel \ {0} : p' = <<a, 0, 0>> /\ UNCHANGED <<entry, outcome>>
Call == /\ stage = "built" /\ stage' = "called"
        /\ \E b \in Rel, c \in {0, 1} : p' = <<p[1], b, c>>
        /\ outcome' \in Outcomes /\ UNCHANGED entry
Next == Construct \/ (Call /\ OutcomeOK(entry, p', outcome'))
Spec == Init /\ [][Next]_<<stage, entry, p, outcome>>
OnlyLegalOutcomes == stage = "called" => outcome \in Outcomes
=============================================================================
