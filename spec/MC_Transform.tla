---------------------------- MODULE MC_Transform ----------------------------
(* Theorem-style checks of Transform.tla in small scope, plus a tiny state machine that walks the plan   *)
(* tree of every composite length (so that TLC's state count reflects the factorisation trees visited).  *)
EXTENDS Transform, TLC
CONSTANTS NMax

Composite(n) == n >= 4 /\ ~IsPrime(n) /\ ~IsPow2(n)

(* T1: every composite non-power-of-two length splits into P * Q with 1 < P <= Q-ish and P*P <= n *)
T1 == \A n \in 4..NMax : Composite(n) =>
        /\ SplitP(n) * SplitQ(n) = n /\ SplitP(n) >= 2 /\ SplitQ(n) >= 2
(* T3: Cooley-Tukey index algebra: the split computes exactly the DFT exponents *)
T3 == \A n \in 4..NMax : Composite(n) =>
        LET P == SplitP(n)  Q == SplitQ(n) IN
        \A p \in 0..(P - 1), q \in 0..(Q - 1), kp \in 0..(P - 1), kq \in 0..(Q - 1) :
            CtExp(P, Q, p, q, kp, kq) = DftExp(n, CtInIdx(P, Q, p, q), CtOutIdx(P, Q, kp, kq))
(* T4: conjugate symmetry of the exponent matrix; impulse rows are permutation-like in k for gcd(m,n)=1 *)
T4 == \A n \in 1..NMax, m \in 0..(NMax - 1) : m < n => \A k \in 0..(n - 1) : ConjSymExp(n, m, k)
(* T5: centred / two-sided permutations are inverse of each other for even nfft *)
T5 == \A h \in 2..(NMax \div 2) : LET nfft == 2 * h IN
        \A j \in 1..nfft : TwoOfCentred(nfft)[CentredOfTwo(nfft)[j]] = j
(* T6: istft length covers exactly the samples touched by the segments *)
T6 == \A nwin \in 2..12, ov \in 0..11, nx \in 0..40 : ov < nwin =>
        LET ns == NSeg(nx, nwin, ov) IN ns > 0 => IstftLen(ns, nwin, ov) <= nx /\ IstftLen(ns + 1, nwin, ov) > nx

RECURSIVE ProdR(_)
ProdR(s) == IF s = <<>> THEN 1 ELSE Head(s) * ProdR(Tail(s))
T2b == \A n \in 4..NMax : Composite(n) => ProdR(FactorList(n)) = n
ASSUME T1
ASSUME T2b
ASSUME T3
ASSUME T4
ASSUME T5
ASSUME T6

(* plan-tree walk: state = a stack of lengths still to be planned *)
VARIABLES root, todo, leaves
Init == root \in 2..NMax /\ todo = <<root>> /\ leaves = {}
Next == /\ todo # <<>>
        /\ LET n == Head(todo) IN
           IF Composite(n) THEN todo' = <<SplitP(n), SplitQ(n)>> \o Tail(todo) /\ leaves' = leaves
           ELSE todo' = Tail(todo) /\ leaves' = leaves \cup {<<n, PlanKind(n)>>}
        /\ UNCHANGED root
Spec == Init /\ [][Next]_<<root, todo, leaves>>
(* every leaf of the tree is a power of two or a prime (handled by a dedicated kernel) *)
LeavesOK == \A lf \in leaves : lf[2] \in {"small", "pow2", "dft3", "dftslow", "bluestein"}
=============================================================================
