CONSTANTS Unit = 100 Levels <- MCLevelsConst Targets <- MCTargets GMax = 460 Rr = 100 Rf = 50 G0 = 100
          Variant = "persample" FrameLen = 4
SPECIFICATION ConstSpec
INVARIANTS Bounded StateBounded
PROPERTY EventuallySettled NoOvershoot
CHECK_DEADLOCK FALSE
