CONSTANTS Cap = 2 Keys = {6, 12, 16, 43} Threads = {1, 2} MaxHist = 4
SPECIFICATION Spec
INVARIANTS Inv Refines
PROPERTIES Confined
CONSTRAINT Bounded
CHECK_DEADLOCK FALSE
