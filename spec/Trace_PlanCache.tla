-------------------------- MODULE Trace_PlanCache --------------------------
(* Trace validation of plan-cache hook events and result observations.      *)
(*   Config  {cap}                 capacity the library was built with      *)
(*   Reset   {tid}                 a fresh thread starts (its caches empty) *)
(*   Exit    {tid}                 that thread has ended                    *)
(*   Access  {tid,kind,n,hit,keys,mapsize,cid}   hook event, after access   *)
(*   Call    {tid,api,n,eqfresh,bitident,finite}       result vs fresh thread     *)
(*   Held    {tid,plan,n,eqfresh}                use of a long-lived plan   *)
(*   Keys    {tid,kind,keys}       accessor read-out, must equal the model  *)
EXTENDS PlanCache, TLC, Json, IOUtils

Log == ndJsonDeserialize(IOEnv.TRACE)

VARIABLES cap, cache, owner, l
vars == <<cap, cache, owner, l>>
Ev == Log[l]

Empty == [k \in Kinds |-> <<>>]

Init == TLCSet(1, 0) /\ cap = 0 /\ cache = <<>> /\ owner = <<>> /\ l = 1

Has(f, x) == x \in DOMAIN f
Put(f, x, v) == [y \in (DOMAIN f) \cup {x} |-> IF y = x THEN v ELSE f[y]]

TConfig == Ev.e = "Config" /\ Ev.cap >= 1 /\ cap' = Ev.cap /\ UNCHANGED <<cache, owner>>

TReset == /\ Ev.e = "Reset" /\ ~Has(cache, Ev.tid)
          /\ cache' = Put(cache, Ev.tid, Empty)
          /\ UNCHANGED <<cap, owner>>

(* the thread has ended: its thread-local caches are destroyed (their storage may be reused) *)
TExit == /\ Ev.e = "Exit" /\ Has(cache, Ev.tid)
         /\ cache' = [t \in (DOMAIN cache) \ {Ev.tid} |-> cache[t]]
         /\ owner' = [c \in {c \in DOMAIN owner : owner[c] # Ev.tid} |-> owner[c]]
         /\ UNCHANGED cap

TAccess ==
    /\ Ev.e = "Access" /\ Has(cache, Ev.tid) /\ Ev.kind \in Kinds
    /\ LET t == Ev.tid  k == Ev.kind
           new == Touch(cache[t][k], Ev.n, cap)
       IN /\ Ev.keys = new                                \* exactly the most recently used ones, in order
          /\ Len(Ev.keys) <= cap /\ NoDup(Ev.keys)          \* at most the configured number
          /\ Ev.mapsize = Len(Ev.keys)
          /\ cache' = [cache EXCEPT ![t][k] = new]
          \* a cache object is touched by one thread only (thread confinement)
          /\ LET c == <<k, Ev.cid>> IN
               /\ Has(owner, c) => owner[c] = t
               /\ owner' = Put(owner, c, t)
    /\ UNCHANGED cap

TCall == /\ Ev.e \in {"Call", "Held"} /\ Has(cache, Ev.tid)
         /\ Ev.eqfresh = TRUE /\ Ev.finite = TRUE
         /\ Ev.bitident = TRUE       \* "equals the one obtained in a fresh thread": the same code on the same input, bit for bit
         /\ UNCHANGED <<cap, cache, owner>>

TKeys == /\ Ev.e = "Keys" /\ Has(cache, Ev.tid)
         /\ Ev.keys = cache[Ev.tid][Ev.kind]
         /\ UNCHANGED <<cap, cache, owner>>

TStat == Ev.e = "Stat" /\ UNCHANGED <<cap, cache, owner>>     \* diagnostics, no constraint

Next == /\ l <= Len(Log)
        /\ (TConfig \/ TReset \/ TExit \/ TAccess \/ TCall \/ TKeys \/ TStat)
        /\ l' = l + 1
Spec == Init /\ [][Next]_vars

Furthest == IF l > TLCGet(1) THEN TLCSet(1, l) ELSE TRUE
Accepted == /\ PrintT(<<"FURTHEST", TLCGet(1), Len(Log)>>)
            /\ TLCGet(1) = Len(Log) + 1
=============================================================================
