CONSTANTS Lp = 3 F = 4 NFrames = 3 Variant = "asis"
SPECIFICATION Spec
INVARIANTS FirstAligned OnePerFrame AtFirstHit Monotone
CHECK_DEADLOCK FALSE
