CONSTANTS Bits = 12 Variant = "fixed"
SPECIFICATION Spec
INVARIANTS Correct StepBound
PROPERTY Terminates
CHECK_DEADLOCK FALSE
