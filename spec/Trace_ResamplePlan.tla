-------------------------- MODULE Trace_ResamplePlan --------------------------
(* Observations of the real converters against ResamplePlan.tla:                                                         *)
(*   Wrapper  {p, q, nh, delay, irate, drate}     FIRResampler(p, q, h) built from an nh-tap prototype                   *)
(*   Design   {p, q, P, len}                      design_multirate_fir(p, q, P).size()                                   *)
(*   Poly     {h, m, flip, n, flat}               IResampler::polyphase on integer taps (gain = sum h, exact): branches  *)
(*                                                concatenated, n taps each                                               *)
(*   OneShot  {p, q, len, nh, o, outlen}          resample(x, p, q, h)                                                    *)
EXTENDS ResamplePlan, TLC, Json, IOUtils
Log == ndJsonDeserialize(IOEnv.TRACE)
VARIABLES l
Ev == Log[l]
RL == Reduced(Ev.p, Ev.q)[1]
RM == Reduced(Ev.p, Ev.q)[2]
Flat(br) == LET m == Len(br)  n == Len(br[1]) IN [j \in 1..(m * n) |-> br[((j - 1) \div n) + 1][((j - 1) % n) + 1]]

Init == TLCSet(1, 0) /\ l = 1
TWrapper == /\ Ev.e = "Wrapper"
            /\ Ev.delay = Delay(RL, RM, Ev.nh)
            /\ Ev.irate = (IF RL = RM THEN 1 ELSE RL) /\ Ev.drate = (IF RL = RM THEN 1 ELSE RM)
TDesign == /\ Ev.e = "Design" /\ Ev.len = DesignTaps(RL, RM, Ev.P)
TPoly == /\ Ev.e = "Poly"
         /\ Ev.integral = TRUE /\ Ev.n = SubLen(Len(Ev.h), Ev.m)
         /\ Ev.flat = Flat(Polyphase(Ev.h, Ev.m, Ev.flip))
TOneShot == /\ Ev.e = "OneShot" /\ Ev.o = "ret"
            /\ Ev.outlen = (IF RL = RM THEN Ev.len ELSE Plan(Ev.len, RL, RM, Ev.nh).ny)
Next == /\ l <= Len(Log)
        /\ (TWrapper \/ TDesign \/ TPoly \/ TOneShot)
        /\ l' = l + 1
Spec == Init /\ [][Next]_l
Furthest == IF l > TLCGet(1) THEN TLCSet(1, l) ELSE TRUE
Accepted == /\ PrintT(<<"FURTHEST", TLCGet(1), Len(Log)>>)
            /\ TLCGet(1) = Len(Log) + 1
=============================================================================
