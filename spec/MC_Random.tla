----------------------------- MODULE MC_Random -----------------------------
(* Two threads seeding and drawing in any interleaving from an ideal per-thread generator (values = a function of  *)
(* seed and the number of draws since seeding).  Invariant: the canon memo is never contradicted, i.e. determinism  *)
(* per (seed, history) holds under every interleaving; a variant with ONE generator shared by both threads ("shared") *)
(* violates it — the configuration used as the vacuity guard.                                                        *)
EXTENDS Random, TLC
CONSTANTS Threads, Seeds, MaxSteps, Variant
VARIABLES gen, canon, eng, steps, ok
vars == <<gen, canon, eng, steps, ok>>
(* ideal engine: state = <<seed, draws>>; the value of the next draw *)
Val(e) == e[1] * 100 + e[2]
EngOf(t) == IF Variant = "shared" THEN 1 ELSE t
Init == /\ gen = [t \in Threads |-> Fresh] /\ canon = <<>> /\ steps = 0 /\ ok = TRUE
        /\ eng = [t \in Threads |-> <<0, 0>>]
Seed(t, s) == /\ gen' = SeedStep(gen, t, s) /\ eng' = [eng EXCEPT ![EngOf(t)] = <<s, 0>>]
              /\ UNCHANGED <<canon, ok>>
Draw(t) == LET e == eng[EngOf(t)]
               r == DrawStep(gen, canon, t, <<"rand", 0, 0, 1>>, <<Val(e)>>)
           IN /\ ok' = (ok /\ r[1]) /\ gen' = r[2] /\ canon' = r[3]
              /\ eng' = [eng EXCEPT ![EngOf(t)] = <<e[1], e[2] + 1>>]
Next == /\ steps < MaxSteps /\ steps' = steps + 1
        /\ \E t \in Threads : (\E s \in Seeds : Seed(t, s)) \/ Draw(t)
Spec == Init /\ [][Next]_vars
Deterministic == ok
=============================================================================
