CONSTANTS Thr = {1, 2, 3, 4} Plans = {"a"} Scratch = "perCall" Calls = 8
SPECIFICATION TSpec
INVARIANTS ResultPreserved RaceFree
CONSTRAINT Furthest
POSTCONDITION Accepted
CHECK_DEADLOCK FALSE
