CONSTANTS Vars = {"a", "b", "c"} MaxLen = 4 Depth = 4
SPECIFICATION Spec
INVARIANT WF
PROPERTIES OnlyDst CopyEqual
CHECK_DEADLOCK FALSE
