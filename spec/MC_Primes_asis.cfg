CONSTANTS Bits = 8 Variant = "asis"
SPECIFICATION Spec
INVARIANTS Correct StepBound
CHECK_DEADLOCK FALSE
