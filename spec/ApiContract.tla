----------------------------- MODULE ApiContract -----------------------------
(***************************************************************************)
(* Outcome contract of the public API under misuse (C05).                  *)
(* A call case is [entry, p] with p a tuple of small integers (lengths,     *)
(* indices, orders).  The only acceptable outcomes are "ret" and "throw";   *)
(* where the statements of C02/C03/C04 (or the API documentation) demand    *)
(* rejection, "throw" is mandatory; where a call is plainly valid, "ret"    *)
(* is mandatory.  Crash, SanitizerReport and Timeout are observations for   *)
(* which the trace specification has no action.                             *)
(***************************************************************************)
EXTENDS Slice

Outcomes == {"ret", "throw"}

(* entries whose first two parameters are the lengths of two arrays that must agree *)
PairwiseEntries == {"add", "sub", "mul", "div", "iadd", "isub", "imul", "idiv", "cadd", "cmul", "cdiv", "icadd",
                    "dot", "cdot", "complex", "power_vv", "cpower_vv", "gt", "lt", "eq", "ne", "cgt", "ceq", "mask", "lms", "rls",
                    "nlms", "nlms_c", "rls_r", "gccphat"}
(* plan objects built for length p[1] applied to an input of length p[2] *)
PlanEntries == {"FftPlan", "FftPlanR", "IfftPlan", "CztPlan", "plan_ptr_c", "plan_ptr_r"}

MustThrow(entry, p) ==
    CASE entry \in PairwiseEntries -> p[1] # p[2]
      [] entry \in PlanEntries -> p[1] # p[2]
      [] entry = "IfftPlanR" -> p[1] % 2 = 1 \/ (p[2] # p[1] /\ p[2] # p[1] \div 2 + 1)
      [] entry = "irfft" -> p[2] % 2 = 1 \/ (p[1] # p[2] /\ p[1] # p[2] \div 2 + 1)       \* p = <<bins, n>>
      [] entry \in {"idx", "cidx", "idx_arr"} -> p[2] = 1                                    \* p[2] = 1: list holds an entry outside 0..n-1
      [] entry \in {"slice_list", "slice_arr", "slice_scalar_bad"} -> p[1] # p[2]            \* count vs right-hand side length
      [] entry = "slice_m1" -> Rejects(p[1], p[2], p[3], -1)                                 \* the C04 acceptance rule, p = <<n, i1, i2>>
      [] entry = "slice_m2" -> Rejects(p[1], p[2], p[3], -2)
      [] entry = "slice_p1" -> Rejects(p[1], p[2], p[3], 1)
      [] entry = "slice_p2" -> Rejects(p[1], p[2], p[3], 2)
      [] entry = "zeropad" -> p[2] < p[1]
      [] entry \in {"decim_frame", "rate_frame"} -> p[2] % p[1] # 0                          \* frame not a multiple of M
      [] entry = "detector_frame" -> p[2] = 0                                               \* p[2] = 1: a multiple of frame_len
      [] entry \in {"downsample0", "upsample0", "linspace0", "medianfilter_small"} -> TRUE
      [] entry = "fir1_win" -> p[1] # p[2]                                                  \* window length vs tap count
      [] entry = "welch_overlap" -> p[2] >= p[1]                                            \* noverlap >= winlen
      [] entry = "welch_nfft" -> TRUE                                                       \* nfft not a power of two
      [] entry = "istft_bins" -> TRUE
      [] OTHER -> FALSE
MustReturn(entry, p) ==
    CASE entry \in PairwiseEntries \ {"lms", "rls", "nlms", "nlms_c", "rls_r", "gccphat"} -> p[1] = p[2]
      [] entry \in PlanEntries -> p[1] = p[2]
      [] entry \in {"idx", "cidx", "idx_arr"} -> p[2] = 0 /\ p[3] > 0                      \* in-range, non-empty list
      [] entry \in {"fft", "ifft", "rfft", "fft_n", "rfft_n", "xcorr", "isprime", "factor", "nextprime", "primes"} -> TRUE
      [] entry = "irfft" -> ~MustThrow(entry, p)
      [] entry \in {"slice_m1", "slice_m2", "slice_p1", "slice_p2"} -> ~MustThrow(entry, p)
      [] entry = "print" -> TRUE
      [] OTHER -> FALSE
OutcomeOK(entry, p, o) ==
    /\ o \in Outcomes
    /\ MustThrow(entry, p) => o = "throw"
    /\ MustReturn(entry, p) => o = "ret"
=============================================================================
